#!/bin/bash
# Offline build of the framework from files on disk: generated tables, the whole Rocq
# development (full .vo), the extracted OCaml driver, the harness crate and the CLI.
set -u
cd "$(dirname "$0")"
export CARGO_NET_OFFLINE=true
mkdir -p build evidence
python3 translators/gen_all.py || echo "setup: translator errors (checks will report them)"
python3 - <<'PY'
import sys
sys.path.insert(0, 'lib')
import core
core.coq_makefile()
ok, out = core.coq_make([], timeout=5400)
print("coq build:", "ok" if ok else "FAILED")
if not ok:
    print(out[-3000:])
exe, log = core.build_model()
print("model driver:", exe or ("FAILED\n" + log[-2000:]))
h, log = core.build_harness()
print("harness:", h or ("FAILED\n" + log[-2000:]))
c, log = core.build_cli()
print("cli:", c or ("FAILED\n" + log[-2000:]))
PY
exit 0
