#!/usr/bin/env python3
"""jsontext_difftest.py <seed> <n> — differential test of Model/JsonText.v against the real serde_json.

  print_pretty / print_compact  vs  serde_json::to_string_pretty / to_string      (harness op json_text), byte for byte
  print_pretty (enc_plan p)     vs  to_string_pretty(&Plan)                        (json_text .plan_pretty), byte for byte
  parse                         vs  serde_json::from_slice::<Value>                (harness op json_parse)
on: random JSON values (nested, empty containers, strings with quotes, backslashes, every control byte, DEL,
non-ASCII UTF-8, numbers up to u64::MAX; object keys sorted and distinct because serde_json::Value sorts them),
random plans (matches_by_variant has at most one entry: it is a HashMap), the texts serde_json printed,
re-spaced / re-escaped variants of them, texts that use JSON the model leaves out (floats, exponents, negative
numbers, integers above u64::MAX, \\u escapes >= 0x80, surrogate pairs), and malformed texts.

Verdict per parsed text:
  real ok,  model Some : the values must be equal (model objects folded last-key-wins, as Value does)   else DISAGREEMENT
  real err, model None : agree
  real err, model Some : DISAGREEMENT (the model must never be more lenient on a &str)
  real ok,  model None : allowed only when the text uses a documented restriction (counted as 'stricter'),
                         i.e. the real value holds a float or a negative number, or the text has a \\uXXXX >= 0x80
All compared texts are valid UTF-8 (the argument type of from_str).  A last small batch of ill-formed UTF-8 is
reported separately and not counted: parse does not validate UTF-8 (from_slice refuses, the model may accept).

The model is evaluated with a generated cases .v file and coqc (Eval vm_compute, one result per line).
Env: RN_HARNESS (default ./rn-harness), RN_ROCQ (default ./rocq), RN_WORK (default ./work/jsontext)."""
import json, os, random, re, subprocess, sys, time
from collections import Counter

HERE = os.path.dirname(os.path.abspath(__file__))
HARNESS = os.path.abspath(os.environ.get("RN_HARNESS", os.path.join(HERE, "rn-harness")))
ROCQ = os.path.abspath(os.environ.get("RN_ROCQ", os.path.join(HERE, "rocq")))
WORK = os.path.abspath(os.environ.get("RN_WORK", os.path.join(HERE, "work", "jsontext")))
U64 = 2**64 - 1


class Harness:
    def __init__(self):
        self.p = subprocess.Popen([HARNESS], stdin=subprocess.PIPE, stdout=subprocess.PIPE, text=True)

    def call(self, o):
        self.p.stdin.write(json.dumps(o) + "\n")
        self.p.stdin.flush()
        return json.loads(self.p.stdout.readline())


# ------------------------------------------------------------------ generators
STYLES14 = ["Snake", "Kebab", "Camel", "Pascal", "ScreamingSnake", "Title", "Train", "ScreamingTrain",
            "Dot", "LowerFlat", "UpperFlat", "Sentence", "LowerSentence", "UpperSentence"]
CTRL = [chr(i) for i in range(32)]
SPECIAL = ['"', "\\", "/", "\x7f", "é", "☃", "😀", "\u00a0", "\u2028", "\ufeff", "\ud7ff", "\ue000", "\U0010ffff", " ", "'", "u", "n", "0"]


def rand_string(r):
    k = r.randrange(12)
    if k == 0:
        return ""
    if k == 1:  # every control byte, in one string or a random slice of them
        cs = CTRL[:] if r.random() < 0.3 else r.sample(CTRL, r.randint(1, 6))
        return "".join(cs)
    if k == 2:
        return "".join(r.choice(SPECIAL) for _ in range(r.randint(1, 8)))
    if k == 3:
        return "".join(r.choice(SPECIAL + CTRL + list("abcXYZ_-. /")) for _ in range(r.randint(1, 12)))
    if k == 4:
        return r.choice(["\\u0041", "\\n", "\\\\", '\\"', "null", "true", "[]", "{}", "a\"b", "C:\\dir\\file", "</script>", "\\u00e9"])
    return "".join(r.choice("abcXYZ_-. /") for _ in range(r.randint(1, 10)))


def rand_num(r):
    k = r.randrange(8)
    if k == 0:
        return r.choice([0, 1, 9, 10, 99, 100, U64, U64 - 1, 2**63, 2**63 - 1, 2**32, 2**53 + 1, 10**19, 9999999999999999999])
    if k == 1:
        return r.randrange(0, U64 + 1)
    if k == 2:
        return 10 ** r.randint(0, 19) - r.randint(0, 1)
    return r.randint(0, 10 ** r.randint(1, 7))


def rand_json(r, depth):
    k = r.randrange(10 if depth > 0 else 6)
    if k == 0:
        return None
    if k == 1:
        return r.random() < 0.5
    if k in (2, 3):
        return rand_num(r)
    if k in (4, 5):
        return rand_string(r)
    if k in (6, 7):
        return [rand_json(r, depth - 1) for _ in range(r.choice([0, 0, 1, 1, 2, 3, 4]))]
    keys = sorted({rand_string(r) for _ in range(r.choice([0, 0, 1, 1, 2, 3, 4]))})
    return {key: rand_json(r, depth - 1) for key in keys}


def rand_pstr(r, allow_empty=True):
    k = r.randrange(10)
    if k == 0 and allow_empty:
        return ""
    if k == 8:
        return r.choice([" ", "\t", "\n", "  \t ", "\r\n", "\u00a0", "0", "null", "false", "{}", "\\0", "\x00", "\x1f\x7f"])
    if k == 9:
        return r.choice([" lead", "trail ", "\ttab\t", "a\nb", "  x  ", "q\"uo\"te", "back\\slash", "\x08\x0c\x0b"])
    if k == 1:
        return "café ☃ \"q\" \\ \t 😀"
    if k == 2:
        return "a/b c/é.txt"
    return "".join(r.choice("abcXYZ_-. /") for _ in range(r.randint(1, 10)))


def rand_popt(r):
    return None if r.random() < 0.5 else rand_pstr(r)


def rand_pnum(r):
    return r.choice([r.randint(0, 1000), r.randint(0, 10**6), 0, U64, r.randrange(0, U64 + 1)]) if r.random() < 0.3 else r.randint(0, 1000)


def rand_plan(r):
    hunks = []
    for _ in range(r.randint(0, 3)):
        hunks.append({
            "file": rand_pstr(r, False), "line": rand_pnum(r), "byte_offset": rand_pnum(r) % 2**32, "char_offset": r.choice([rand_pnum(r) % 2**32, 2**32 - 1]),
            "variant": rand_pstr(r), "content": rand_pstr(r), "replace": "" if r.random() < 0.3 else rand_pstr(r),
            "start": rand_pnum(r), "end": rand_pnum(r),
            "line_before": rand_popt(r), "line_after": rand_popt(r), "coercion_applied": rand_popt(r),
            "original_file": rand_popt(r), "renamed_file": rand_popt(r), "patch_hash": rand_popt(r)})
    renames = []
    for _ in range(r.randint(0, 3)):
        renames.append({"path": rand_pstr(r, False), "new_path": "" if r.random() < 0.3 else rand_pstr(r),
                        "kind": r.choice(["file", "dir"]), "coercion_applied": rand_popt(r)})
    by = {}
    if r.random() < 0.6:
        by[rand_pstr(r)] = rand_pnum(r)
    return {
        "id": rand_pstr(r), "created_at": str(r.randint(0, 2 * 10**9)), "search": rand_pstr(r), "replace": rand_pstr(r),
        "styles": r.sample(STYLES14, r.randint(0, 4)), "includes": [rand_pstr(r) for _ in range(r.randint(0, 2))],
        "excludes": [rand_pstr(r) for _ in range(r.randint(0, 2))], "matches": hunks, "paths": renames,
        "stats": {"files_scanned": rand_pnum(r), "total_matches": len(hunks), "matches_by_variant": by,
                  "files_with_matches": rand_pnum(r)},
        "version": r.choice(["1.0.0", "", "2.0.0-β"]),
        "created_directories": None if r.random() < 0.6 else [rand_pstr(r) for _ in range(r.randint(0, 2))]}


# ------------------------------------------------------------------ an independent re-printer (spacing / escapes)
WS = [" ", "\t", "\n", "\r"]


def ws(r):
    return "".join(r.choice(WS) for _ in range(r.choice([0, 0, 0, 1, 1, 2, 5])))


def respell_string(r, s, allow_high):
    """another JSON spelling of the same string; with allow_high also \\u escapes >= 0x80 and surrogate pairs"""
    out = ['"']
    for ch in s:
        o = ord(ch)
        hexs = ("%04x" % o) if r.random() < 0.5 else ("%04X" % o)
        if o < 0x20:
            short = {8: "\\b", 9: "\\t", 10: "\\n", 12: "\\f", 13: "\\r"}.get(o)
            out.append(short if (short and r.random() < 0.5) else "\\u" + hexs)
        elif ch == '"':
            out.append(r.choice(['\\"', "\\u0022"]))
        elif ch == "\\":
            out.append(r.choice(["\\\\", "\\u005c", "\\u005C"]))
        elif ch == "/":
            out.append(r.choice(["/", "\\/", "\\u002f"]))
        elif o < 0x80:
            out.append("\\u" + hexs if r.random() < 0.15 else ch)
        elif allow_high and r.random() < 0.7:
            if o >= 0x10000:
                v = o - 0x10000
                out.append("\\u%04x\\u%04x" % (0xD800 + (v >> 10), 0xDC00 + (v & 0x3FF)))
            else:
                out.append("\\u" + hexs)
        else:
            out.append(ch)
    out.append('"')
    return "".join(out)


def respell(r, v, allow_high=False, numstyle=None):
    if v is None:
        return "null"
    if v is True:
        return "true"
    if v is False:
        return "false"
    if isinstance(v, int):
        if numstyle == "float":
            return r.choice(["%d.0" % v, "%de0" % v, "%dE+0" % v, "%d.5" % v, "-%d" % v, "%d.0e-0" % v])
        return str(v)
    if isinstance(v, str):
        return respell_string(r, v, allow_high)
    if isinstance(v, list):
        return "[" + ws(r) + ("," + ws(r)).join(ws(r) + respell(r, x, allow_high, numstyle) + ws(r) for x in v) + "]"
    return "{" + ws(r) + ",".join(ws(r) + respell_string(r, k, allow_high) + ws(r) + ":" + ws(r) + respell(r, x, allow_high, numstyle) + ws(r)
                                  for k, x in v.items()) + "}"


MALFORMED_FIXED = [
    "", " ", "\n", "nul", "nulll", "tru", "truex", "True", "NULL", "true false", "1 2", "01", "00", "0123", "-", "+1", ".5", "1.", "1e", "1e+",
    "0x10", "1_000", "١", "[", "]", "{", "}", "[1,]", "[,1]", "[1,,2]", "[1 2]", "[1;2]", "{\"a\":1,}", "{,}", "{\"a\"}", "{\"a\":}", "{\"a\" 1}",
    "{1:2}", "{a:1}", "{'a':1}", "'a'", "\"abc", "\"", "\"\\\"", "\"\\x41\"", "\"\\U0041\"", "\"\\u004\"", "\"\\u004g\"", "\"\\u 041\"", "\"\\a\"", "\"\\0\"", "\"\\",
    "\"\\u", "\"\\u00", "\"a\tb\"", "\"a\nb\"", "\"\x00\"", "\"\x1f\"", "[1]]", "{}{}", "[]x", "[1] ,", "\ufeff1", "\x0c1", "\x0b[]", "\u00a01", "1\x00", "[\"a\":1]",
    "{\"a\":1 \"b\":2}", "{\"a\":1,,\"b\":2}", "{\"a\"::1}", "[tru]", "[nul]", "[fals]", "// c\n1", "/* c */1", "[1,2", "{\"a\":[1,2}", "[{]}", "NaN", "Infinity", "-Infinity",
    "\"\\ud83d\"", "\"\\ude00\"", "\"\\ud83d\\u0041\"", "\"\\ud83dx\"", "18446744073709551616", "99999999999999999999999999", "1" + "0" * 400,
    "-0", "-1", "1.0", "1e2", "1E2", "1e-2", "0.1", "0e0", "-0.0", "[-1]", "{\"a\":1.5}", "1.0e+2", "123456789012345678901234567890.5",
    "18446744073709551615", "18446744073709551615.0", "0", "[0]", "\"\\u0000\"", "\"\\u007f\"", "\"\\u007F\"", "\"\\u0080\"", "\"\\u00e9\"", "\"\\u00E9\"", "\"\\uFFFF\"",
    "\"\\ud83d\\ude00\"", "\"\\/\"", "\"\\b\\f\\n\\r\\t\"", "{\"a\":1,\"a\":2}", "{\"a\":1,\"b\":2,\"a\":[]}", "{\"\":{\"\":{}}}", " \t\r\n[ \t\r\n] \t\r\n",
    "[" * 127 + "]" * 127, "[" * 128 + "]" * 128, "[" * 129 + "]" * 129, "[" * 127 + "0" + "]" * 127, "[" * 127 + "[" + "]" * 127,
    "{\"a\":" * 127 + "1" + "}" * 127, "{\"a\":" * 128 + "1" + "}" * 128, "[{\"a\":" * 63 + "[]" + "}]" * 63, "[{\"a\":" * 64 + "0" + "}]" * 64,
    "[" * 500, "[" * 126 + "{\"k\":[]}" + "]" * 126, "[" * 126 + "{\"k\":{}}" + "]" * 126,
]


def mutate(r, t):
    """one edit on the code points of a valid text (stays valid UTF-8)"""
    cs = list(t)
    k = r.randrange(8)
    ins = r.choice(list("\"\\,:[]{}0123456789-+.eEntf u/ \n\t\x01\x7fé"))
    if not cs:
        return ins
    i = r.randrange(len(cs))
    if k == 0:
        del cs[i]
    elif k == 1:
        cs.insert(i, ins)
    elif k == 2:
        cs[i] = ins
    elif k == 3:
        cs = cs[:i]
    elif k == 4:
        cs.append(ins)
    elif k == 5:
        j = r.randrange(len(cs))
        cs[i], cs[j] = cs[j], cs[i]
    elif k == 6:
        cs.insert(i, cs[i])
    else:
        cs = cs[i:]
    return "".join(cs)


# ------------------------------------------------------------------ Coq side
PRELUDE = """From Coq Require Import String Ascii.
From RN Require Import Base.Bytes Model.Serde Model.JsonText.
Open Scope string_scope.
Open Scope N_scope.
Set Printing Width 2000000000.
Set Printing Depth 2000000000.
Definition hv (a : ascii) : N := let n := N_of_ascii a in if n <? 58 then n - 48 else n - 87.
Fixpoint unhex (s : string) : bytes :=
  match s with String a (String b r) => (hv a * 16 + hv b) :: unhex r | _ => [] end.
Definition hd1 (n : N) : ascii := ascii_of_N (if n <? 10 then 48 + n else 87 + n).
(* bytes above 255 (the model does not produce them from byte input) would show as 'zz' *)
Fixpoint hexs (b : bytes) : string :=
  match b with
  | [] => EmptyString
  | c :: r => if c <? 256 then String (hd1 (c / 16)) (String (hd1 (c mod 16)) (hexs r)) else String "z" (String "z" (hexs r))
  end.
Fixpoint bits (p : positive) : string :=
  match p with xH => "1" | xO q => String "0" (bits q) | xI q => String "1" (bits q) end.
Definition nbits (n : N) : string := match n with N0 => "0" | Npos p => bits p end.
Fixpoint encj (j : json) : string :=
  match j with
  | JNull => "n" | JBool true => "t" | JBool false => "f"
  | JNum n => "#" ++ nbits n ++ ";"
  | JStr s => "s" ++ hexs s ++ ";"
  | JArr l => "[" ++ String.concat "" (map encj l) ++ "]"
  | JObj l => "{" ++ String.concat "" (map (fun kv => let '(k, v) := kv in "k" ++ hexs k ++ ";" ++ encj v) l) ++ "}"
  end.
Definition encp (o : option json) : string := match o with None => "N" | Some j => "S" ++ encj j end.
Definition so (o : option string) : option bytes := match o with None => None | Some s => Some (unhex s) end.
"""


def cq_hex(s):
    return 'unhex "%s"' % s.encode("utf-8").hex()


def cq_json(v):
    if v is None:
        return "JNull"
    if v is True:
        return "(JBool true)"
    if v is False:
        return "(JBool false)"
    if isinstance(v, int):
        return "(JNum %d)" % v
    if isinstance(v, str):
        return "(JStr (%s))" % cq_hex(v)
    if isinstance(v, list):
        return "(JArr [%s])" % "; ".join(cq_json(x) for x in v)
    return "(JObj [%s])" % "; ".join("(%s, %s)" % (cq_hex(k), cq_json(x)) for k, x in v.items())


def cq_opt(s):
    return "None" if s is None else '(Some (%s))' % cq_hex(s)


def cq_list(xs):
    return "[%s]" % "; ".join(xs)


def cq_plan(p):
    hs = ["(Build_hunk (%s) %d %d %d (%s) (%s) (%s) %d %d %s %s %s %s %s %s)" % (
        cq_hex(h["file"]), h["line"], h["byte_offset"], h["char_offset"], cq_hex(h["variant"]), cq_hex(h["content"]),
        cq_hex(h["replace"]), h["start"], h["end"], cq_opt(h["line_before"]), cq_opt(h["line_after"]),
        cq_opt(h["coercion_applied"]), cq_opt(h["original_file"]), cq_opt(h["renamed_file"]), cq_opt(h["patch_hash"]))
        for h in p["matches"]]
    rs = ["(Build_rename (%s) (%s) %s %s)" % (cq_hex(x["path"]), cq_hex(x["new_path"]),
                                            "KFile" if x["kind"] == "file" else "KDir", cq_opt(x["coercion_applied"]))
          for x in p["paths"]]
    st = p["stats"]
    sts = "(Build_stats %d %d %s %d)" % (st["files_scanned"], st["total_matches"],
                                       cq_list("(%s, %d)" % (cq_hex(k), v) for k, v in st["matches_by_variant"].items()),
                                       st["files_with_matches"])
    cd = "None" if p["created_directories"] is None else "(Some %s)" % cq_list(cq_hex(x) for x in p["created_directories"])
    strs = lambda xs: cq_list(cq_hex(x) for x in xs)
    return "(Build_plan (%s) (%s) (%s) (%s) %s %s %s %s %s %s (%s) %s)" % (
        cq_hex(p["id"]), cq_hex(p["created_at"]), cq_hex(p["search"]), cq_hex(p["replace"]), strs(p["styles"]),
        strs(p["includes"]), strs(p["excludes"]), cq_list(hs), cq_list(rs), sts, cq_hex(p["version"]), cd)


def run_coq(name, body):
    os.makedirs(WORK, exist_ok=True)
    path = os.path.join(WORK, name + ".v")
    with open(path, "w") as f:
        f.write(PRELUDE + body)
    r = subprocess.run(["timeout", "900", "coqc", "-Q", ROCQ, "RN", "-w", "-notation-overridden", path],
                       capture_output=True, text=True, cwd=WORK)
    if r.returncode != 0:
        print(r.stdout[-2000:])
        print(r.stderr[-4000:])
        raise SystemExit("coqc failed on " + path)
    out = re.sub(r"\s+", " ", r.stdout)
    return re.findall(r'= "([^"]*)" : string', out)


def dec_model(s):
    """the prelude's encp -> python value (objects folded last-key-wins, like serde_json::Value), or None"""
    if s == "N":
        return ("none",)
    pos = [1]

    def go():
        c = s[pos[0]]
        pos[0] += 1
        if c == "n":
            return None
        if c == "t":
            return True
        if c == "f":
            return False
        if c == "#":
            e = s.index(";", pos[0])
            b = s[pos[0]:e]
            pos[0] = e + 1
            return int(b[::-1], 2)
        if c == "s":
            e = s.index(";", pos[0])
            b = bytes.fromhex(s[pos[0]:e])
            pos[0] = e + 1
            return b.decode("utf-8", "surrogateescape")
        if c == "[":
            l = []
            while s[pos[0]] != "]":
                l.append(go())
            pos[0] += 1
            return l
        if c == "{":
            d = {}
            while s[pos[0]] != "}":
                assert s[pos[0]] == "k"
                e = s.index(";", pos[0])
                k = bytes.fromhex(s[pos[0] + 1:e]).decode("utf-8", "surrogateescape")
                pos[0] = e + 1
                d[k] = go()
            pos[0] += 1
            return d
        raise ValueError(s)
    v = go()
    assert pos[0] == len(s)
    return ("some", v)


def same_value(a, b):
    """exact: no int/float or bool/int confusion"""
    if type(a) is not type(b):
        return False
    if isinstance(a, list):
        return len(a) == len(b) and all(same_value(x, y) for x, y in zip(a, b))
    if isinstance(a, dict):
        return a.keys() == b.keys() and all(same_value(a[k], b[k]) for k in a)
    return a == b


def outside_model(text, real_value):
    """does the text use JSON the model documents as rejected?"""
    def bad_num(v):
        if isinstance(v, bool) or v is None or isinstance(v, str):
            return False
        if isinstance(v, float):
            return True
        if isinstance(v, int):
            return v < 0 or v > U64
        if isinstance(v, list):
            return any(bad_num(x) for x in v)
        return any(bad_num(x) for x in v.values())
    if bad_num(real_value):
        return True
    i = 0
    while i < len(text):
        if text[i] == "\\" and i + 1 < len(text):
            if text[i + 1] == "u":
                h = text[i + 2:i + 6]
                if re.fullmatch(r"[0-9a-fA-F]{4}", h) and int(h, 16) >= 0x80:
                    return True
                i += 6
            else:
                i += 2
        else:
            i += 1
    return False


def main():
    seed = int(sys.argv[1]) if len(sys.argv) > 1 else 1
    n = int(sys.argv[2]) if len(sys.argv) > 2 else 150
    t0 = time.time()
    r = random.Random(seed)
    H = Harness()
    disagreements = []
    stats = Counter()

    # ---- printing: values
    values = [None, True, False, 0, U64, "", [], {}, [[]], [{}], {"": []}, {"a": {}}, "".join(CTRL) + "\x7f\"\\/é☃😀",
              [[], {}, [[], [{}]], {"k": [[]]}]]
    values += [rand_json(r, r.randint(0, 4)) for _ in range(n)]
    plans = [rand_plan(r) for _ in range(max(1, n // 3))]
    body = ""
    for v in values:
        body += "Eval vm_compute in hexs (print_pretty %s).\nEval vm_compute in hexs (print_compact %s).\n" % (cq_json(v), cq_json(v))
    for p in plans:
        body += "Eval vm_compute in hexs (print_pretty (enc_plan %s)).\n" % cq_plan(p)

    real_texts = []          # (origin value, text) for the parse phase
    real_print = []
    for v in values:
        a = H.call({"op": "json_text", "value": v})
        real_print.append((a["pretty"], a["compact"]))
    real_plan = []
    for p in plans:
        a = H.call({"op": "json_text", "value": p})
        if a.get("plan_pretty") is None:
            raise SystemExit("harness could not read the generated plan: %r" % (p,))
        real_plan.append(a["plan_pretty"])

    # ---- parsing: texts
    texts = []               # (kind, text)
    for v, (pp, cc) in zip(values, real_print):
        texts.append(("printed", bytes.fromhex(pp).decode("utf-8")))
        texts.append(("printed", bytes.fromhex(cc).decode("utf-8")))
    for t in real_plan:
        texts.append(("printed-plan", bytes.fromhex(t).decode("utf-8")))
    for v in values:
        texts.append(("respelled", ws(r) + respell(r, v) + ws(r)))
        if r.random() < 0.5:
            texts.append(("respelled-high", ws(r) + respell(r, v, allow_high=True) + ws(r)))
        if r.random() < 0.3:
            texts.append(("respelled-float", respell(r, v, numstyle="float")))
    for t in MALFORMED_FIXED:
        texts.append(("fixed", t))
    base = [t for k, t in texts if k in ("printed", "respelled", "printed-plan")]
    for _ in range(4 * n):
        t = r.choice(base)
        if len(t) > 400:
            continue
        for _ in range(r.choice([1, 1, 1, 2, 3])):
            t = mutate(r, t)
        texts.append(("mutated", t))
    # ill-formed UTF-8 (not counted)
    bad_utf8 = [b'"\xff"', b'"\xc3"', b'"\xc3\x28"', b'"\xed\xa0\x80"', b'{"\x80":1}', b'"\xf8\x88\x80\x80\x80"', b'["a\xe2\x82"]']

    for k, t in texts:
        body += 'Eval vm_compute in encp (parse (unhex "%s")).\n' % t.encode("utf-8").hex()
    for t in bad_utf8:
        body += 'Eval vm_compute in encp (parse (unhex "%s")).\n' % t.hex()
    # the real plan file through the model's load_plan: the plan it was printed from
    for p, t in zip(plans, real_plan):
        body += ('Eval vm_compute in (encp (option_map enc_plan (load_plan (unhex "%s"))) ++ "=" ++ encp (Some (enc_plan %s)))%%string.\n'
                 % (t, cq_plan(p)))

    tc = time.time()
    outs = run_coq("jsontext_cases_%d" % seed, body)
    coq_time = time.time() - tc
    expect_n = 2 * len(values) + 2 * len(plans) + len(texts) + len(bad_utf8)
    if len(outs) != expect_n:
        raise SystemExit("expected %d results from coqc, got %d" % (expect_n, len(outs)))
    it = iter(outs)
    compared = 0

    for v, (pp, cc) in zip(values, real_print):
        mp, mc = next(it), next(it)
        compared += 2
        stats["print"] += 2
        if mp != pp:
            disagreements.append(("print_pretty", v, mp, pp))
        if mc != cc:
            disagreements.append(("print_compact", v, mc, cc))
    for p, t in zip(plans, real_plan):
        mp = next(it)
        compared += 1
        stats["plan_pretty"] += 1
        if mp != t:
            disagreements.append(("plan_pretty", p, bytes.fromhex(mp).decode("utf-8", "replace") if "z" not in mp else mp,
                                  bytes.fromhex(t).decode("utf-8")))
    for k, t in texts:
        m = dec_model(next(it))
        a = H.call({"op": "json_parse", "text": t.encode("utf-8").hex()})
        compared += 1
        stats["parse:" + k] += 1
        if "ok" in a:
            if m[0] == "some":
                if same_value(m[1], a["ok"]):
                    stats["both accept, same value"] += 1
                else:
                    disagreements.append(("parse value", t, m[1], a["ok"]))
            elif outside_model(t, a["ok"]):
                stats["model stricter (documented: float / negative / > u64 / \\u >= 0x80)"] += 1
            else:
                disagreements.append(("parse: model rejects", t, None, a["ok"]))
        else:
            if m[0] == "none":
                stats["both reject"] += 1
            else:
                disagreements.append(("parse: model accepts", t, m[1], a["err"]))
    lenient = 0
    for t in bad_utf8:
        m = dec_model(next(it))
        a = H.call({"op": "json_parse", "text": t.hex()})
        if "err" in a and m[0] == "some":
            lenient += 1
        elif "ok" in a:
            disagreements.append(("ill-formed UTF-8 accepted by serde_json?", t, m, a))

    for p, t in zip(plans, real_plan):
        got, want = next(it).split("=")
        compared += 1
        stats["load_plan of the real plan file"] += 1
        if got != want or got == "N":
            disagreements.append(("load_plan", bytes.fromhex(t).decode("utf-8"), got, want))
    for key in sorted(stats):
        print("  %-75s %d" % (key, stats[key]))
    print("  ill-formed UTF-8 (outside from_str's domain, not counted): %d texts, from_slice rejects all, model accepts %d"
          % (len(bad_utf8), lenient))
    for d in disagreements[:20]:
        print("DISAGREE %s\n   input %r\n   model %r\n   real  %r" % d)
    print("coqc %.1fs, total %.1fs" % (coq_time, time.time() - t0))
    print("compared %d texts" % compared)
    print("DISAGREEMENTS: %d" % len(disagreements))
    sys.exit(1 if disagreements else 0)


if __name__ == "__main__":
    main()
