"""Seeded generators shared by the property checks: vocabulary, reference style renderer,
file contents, trees."""
import random

# neutral vocabulary: >= 2 letters, a..z, no default acronym as a case-insensitive prefix that
# could split, no plural forms, no digit
VOCAB = ["foo", "bar", "baz", "qux", "old", "new", "name", "value", "user", "item", "count", "order",
         "total", "first", "last", "left", "right", "fast", "slow", "blue", "green", "alpha", "beta",
         "gamma", "delta", "widget", "gadget", "table", "field", "index", "token", "world", "hello",
         "great", "small", "north", "south", "east", "west", "magic"]

STYLES14 = ["Snake", "Kebab", "Camel", "Pascal", "ScreamingSnake", "Title", "Train", "ScreamingTrain",
            "Dot", "LowerFlat", "UpperFlat", "Sentence", "LowerSentence", "UpperSentence"]
VISIBLE = [s for s in STYLES14 if s not in ("LowerFlat", "UpperFlat")]
DEFAULT_STYLES = ["Snake", "Kebab", "Camel", "Pascal", "ScreamingSnake", "Train", "ScreamingTrain",
                  "Title", "Sentence", "LowerSentence", "UpperSentence"]
CLI_STYLE = {"Snake": "snake", "Kebab": "kebab", "Camel": "camel", "Pascal": "pascal",
             "ScreamingSnake": "screaming-snake", "Title": "title", "Train": "train",
             "ScreamingTrain": "screaming-train", "Dot": "dot", "LowerFlat": "lower-flat",
             "UpperFlat": "upper-flat", "Sentence": "sentence", "LowerSentence": "lower-sentence",
             "UpperSentence": "upper-sentence"}


def cap(w):
    return w[:1].upper() + w[1:].lower()


def render(ws, style):
    """Independent reference renderer for neutral (lower-case a..z) words."""
    if style == "Snake":
        return "_".join(ws)
    if style == "Kebab":
        return "-".join(ws)
    if style == "Camel":
        return ws[0] + "".join(cap(w) for w in ws[1:])
    if style == "Pascal":
        return "".join(cap(w) for w in ws)
    if style == "ScreamingSnake":
        return "_".join(w.upper() for w in ws)
    if style == "Title":
        return " ".join(cap(w) for w in ws)
    if style == "Train":
        return "-".join(cap(w) for w in ws)
    if style == "ScreamingTrain":
        return "-".join(w.upper() for w in ws)
    if style == "Dot":
        return ".".join(ws)
    if style == "LowerFlat":
        return "".join(ws)
    if style == "UpperFlat":
        return "".join(w.upper() for w in ws)
    if style == "Sentence":
        return " ".join([cap(ws[0])] + list(ws[1:]))
    if style == "LowerSentence":
        return " ".join(ws)
    if style == "UpperSentence":
        return " ".join(w.upper() for w in ws)
    raise ValueError(style)


class G:
    def __init__(self, seed):
        self.r = random.Random(seed)

    def words(self, lo=2, hi=3, avoid=()):
        n = self.r.randint(lo, hi)
        out = []
        while len(out) < n:
            w = self.r.choice(VOCAB)
            if w not in avoid and w not in out:
                out.append(w)
        return out

    def term_pair(self):
        a = self.words(2, 3)
        b = self.words(2, 3, avoid=a)
        return a, b

    def filler_line(self):
        r = self.r
        kind = r.randrange(12)
        if kind == 0:
            return "-- " + r.choice(VOCAB) + " comment"
        if kind == 1:
            return "++ " + r.choice(VOCAB)
        if kind == 2:
            return "@@ -1,2 +1,2 @@"
        if kind == 3:
            return "\\ No newline at end of file"
        if kind == 4:
            return "--- a/" + r.choice(VOCAB)
        if kind == 5:
            return "+++ b/" + r.choice(VOCAB)
        if kind == 6:
            return "café ☃ " + r.choice(VOCAB)
        if kind == 7:
            return ""
        return " ".join(r.choice(VOCAB) for _ in range(r.randint(1, 5)))

    def content(self, search_ws, styles=None, nlines=None, p_match=0.5):
        """File text with occurrences of the term in random styles, diff-like lines,
        non-ASCII text; random line endings and final newline."""
        r = self.r
        styles = styles or DEFAULT_STYLES
        n = nlines if nlines is not None else r.randint(0, 8)
        lines = []
        for _ in range(n):
            if r.random() < p_match:
                k = r.randint(1, 3)
                parts = []
                for _ in range(k):
                    st = r.choice(styles)
                    w = render(search_ws, st)
                    # sometimes inside a larger identifier of the same style (compound match)
                    if r.random() < 0.3 and st in ("Snake", "Kebab", "Camel", "Pascal", "ScreamingSnake"):
                        pre, suf = r.choice(["get", "my", "x"]), r.choice(["hi", "impl", "v2"])
                        w = {"Snake": f"{pre}_{w}_{suf}", "Kebab": f"{pre}-{w}-{suf}", "Camel": f"{pre}{w[:1].upper()}{w[1:]}{suf.capitalize()}",
                             "Pascal": f"{pre.capitalize()}{w}{suf.capitalize()}", "ScreamingSnake": f"{pre.upper()}_{w}_{suf.upper()}"}[st]
                    elif r.random() < 0.12 and st in ("Snake", "Kebab", "Camel", "Pascal"):
                        # an identifier that mixes two separator kinds after the term, with or without a _ / __ prefix
                        w = r.choice(["", "_", "__"]) + w + r.choice(["_foo-bar", "-some_thing", ".x_y", "_a.b", "-v2_x"])
                    parts.append(w)
                seps = [" ", ", ", " = ", "(", "); ", " \"", "\" ", "é ", " -- ", "..", "...", ".", "::", "->", "..=", "/", "[", "]."]
                ln = r.choice(["", "x ", "café ", "-- ", "let "]) + r.choice(seps).join(parts) + r.choice(["", ";", " y", ")"])
                lines.append(ln)
            else:
                lines.append(self.filler_line())
        eol = r.choice(["\n", "\n", "\n", "\r\n", "mixed"])
        out = []
        for i, ln in enumerate(lines):
            e = eol if eol != "mixed" else r.choice(["\n", "\r\n"])
            last = i == len(lines) - 1
            if last and r.random() < 0.3:
                e = ""
            out.append(ln + e)
        return "".join(out).encode("utf-8")

    def name_with(self, search_ws, style=None, ext=True):
        r = self.r
        st = style or r.choice(["Snake", "Kebab", "Camel", "Pascal", "ScreamingSnake", "Train"])
        base = render(search_ws, st)
        pre = r.choice(["", "", "my_", "x-"]) if st in ("Snake", "Kebab") else ""
        suf = r.choice(["", "", "_test", "-2"]) if st in ("Snake", "Kebab") else ""
        e = r.choice([".txt", ".rs", ".md", ""]) if ext else ""
        return pre + base + suf + e

    def tree(self, search_ws, nfiles=None, depth=3, p_dir_match=0.4, p_file_match=0.4,
             symlinks=True, modes=True):
        """Random tree: list of entries (see cli.Sandbox)."""
        r = self.r
        entries = []
        dirs = [""]
        ndirs = r.randint(0, 4)
        for _ in range(ndirs):
            parent = r.choice(dirs)
            if parent.count("/") + 1 >= depth and parent:
                continue
            nm = self.name_with(search_ws, ext=False) if r.random() < p_dir_match else r.choice(VOCAB) + str(r.randint(0, 9))
            p = (parent + "/" if parent else "") + nm
            if p not in dirs:
                dirs.append(p)
                entries.append({"p": p, "k": "d", "m": 0o755})
        nf = nfiles if nfiles is not None else r.randint(1, 6)
        names = set(d for d in dirs)
        for _ in range(nf):
            parent = r.choice(dirs)
            nm = self.name_with(search_ws) if r.random() < p_file_match else r.choice(VOCAB) + str(r.randint(0, 99)) + r.choice([".txt", ".rs", ""])
            p = (parent + "/" if parent else "") + nm
            if p in names:
                continue
            names.add(p)
            mode = r.choice([0o644, 0o644, 0o600, 0o755, 0o664, 0o666, 0o775, 0o640, 0o711]) if modes else 0o644
            entries.append({"p": p, "k": "f", "c": self.content(search_ws), "m": mode})
        if symlinks and r.random() < 0.3:
            files = [e for e in entries if e["k"] == "f"]
            parent = r.choice(dirs)
            nm = r.choice(["link", self.name_with(search_ws, ext=False) + "_ln"])
            p = (parent + "/" if parent else "") + nm
            if p not in names:
                names.add(p)
                target = r.choice(["nowhere_" + render(search_ws, "Snake")] + [("../" * parent.count("/") + ("../" if parent else "")) + f["p"] for f in files[:2]])
                entries.append({"p": p, "k": "l", "t": target})
        return entries
