"""Re-generates the tables of DESIGN.md section 11 in place (between the markers)."""
import subprocess, os, re
V = os.path.dirname(os.path.dirname(os.path.abspath(__file__)))
out = subprocess.run(["python3", V + "/lib/design_tables.py"], capture_output=True, text=True).stdout
tab, rest = out.split("\nRecorded findings", 1)
rest = "Recorded findings" + rest
p = V + "/DESIGN.md"
s = open(p).read()
def put(s, name, body):
    beg, end = f"<!-- {name} -->", f"<!-- /{name} -->"
    block = beg + "\n" + body.strip() + "\n" + end
    if beg in s:
        return re.sub(re.escape(beg) + r".*?" + re.escape(end), lambda m: block, s, flags=re.S)
    return s.replace(name, block)
s = put(s, "SEEDED_TABLE", tab)
s = put(s, "FINDINGS_LIST", rest)
open(p, "w").write(s)
