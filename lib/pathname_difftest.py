#!/usr/bin/env python3
"""difftest_pathname.py — Model/PathName.v (path_new_name_full, through Renames.plan_entry's "unchanged
name is dropped") against the real rename planner: harness op scan_tree -> plan.paths
($RN_HARNESS, default ./rn-harness-fixed).
Every generated name sits alone in its own directory d<i> (so no rename conflicts, which make the real
scan fail as a whole).  The table is the real variant table (op enhanced_matches on empty content);
the resolver oracle for ambiguous first keys is the real answer of op resolve (all-None context).
Compared per name: renamed or not, the last component of new_path, kind, coercion_applied present."""
import json, os, random, re, subprocess, sys, time
from collections import Counter
ROOT = os.path.dirname(os.path.abspath(__file__))
ROCQ = os.environ.get("RN_ROCQ", os.path.join(os.path.dirname(ROOT), "rocq")); WORK = os.environ.get("RN_WORK", os.path.join(os.path.dirname(ROOT), "build", "difftest_work")); os.makedirs(WORK, exist_ok=True)
p = subprocess.Popen([os.environ.get("RN_HARNESS", os.path.join(ROOT, "rn-harness-fixed"))],
                     stdin=subprocess.PIPE, stdout=subprocess.PIPE, text=True)
def call(o):
    p.stdin.write(json.dumps(o) + "\n"); p.stdin.flush(); return json.loads(p.stdout.readline())
hx = lambda s: s.encode("latin-1").hex()
unhx = lambda h: bytes.fromhex(h).decode("latin-1")
ALL = ["Snake", "Kebab", "Camel", "Pascal", "ScreamingSnake", "Title", "Train", "ScreamingTrain", "Dot",
       "LowerFlat", "UpperFlat", "Sentence", "LowerSentence", "UpperSentence"]
CLI = ["Snake", "Kebab", "Camel", "Pascal", "ScreamingSnake", "Train", "ScreamingTrain", "Title", "Sentence",
       "LowerSentence", "UpperSentence"]
cap = lambda w: w[:1].upper() + w[1:]
def render(t, st):
    return {"Snake": "_".join(t), "Kebab": "-".join(t), "Camel": t[0] + "".join(map(cap, t[1:])),
            "Pascal": "".join(map(cap, t)), "ScreamingSnake": "_".join(w.upper() for w in t),
            "Title": " ".join(map(cap, t)), "Train": "-".join(map(cap, t)),
            "ScreamingTrain": "-".join(w.upper() for w in t), "Dot": ".".join(t),
            "LowerFlat": "".join(t), "UpperFlat": "".join(t).upper(),
            "Sentence": " ".join([cap(t[0])] + t[1:]), "LowerSentence": " ".join(t),
            "UpperSentence": " ".join(w.upper() for w in t)}[st]
PAIRS = [(["old", "name"], ["new", "name"]), (["old", "name"], ["brand", "new", "thing"]), (["user", "id"], ["account", "key"]),
         (["foo"], ["bar"]), (["foo"], ["bar", "baz"]), (["widget"], ["gadget", "item"]), (["deploy", "request"], ["release", "ticket"]),
         (["api", "client"], ["http", "handler"]), (["tool"], ["kit"]), (["green", "stone", "river"], ["marble"]),
         (["old", "names"], ["new", "titles"]), (["get", "user"], ["fetch", "account"])]
EXT = [".txt", ".rs", ".test.rs", ".json", ".cfg", ".old", ".tar.gz", ".md", ".d.ts", ".JPG", "", "", ""]
AFF = ["test", "my", "lib", "impl", "x", "v2", "spec", "ID", "Api", "FOO", "is", "the"]
def gen_name(rng, sw):
    st = rng.choice(ALL); occ = render(sw, st)
    kind = rng.choice(["bare", "bare", "ext", "ext", "prefix", "suffix", "both", "us", "uus", "digit", "hy_suffix", "twice",
                       "two_variants", "none", "dotted", "glued", "space"])
    a, b = rng.choice(AFF), rng.choice(AFF); sep = rng.choice(["_", "-", "", "."])
    if kind == "bare": n = occ
    elif kind == "ext": n = occ + rng.choice(EXT)
    elif kind == "prefix": n = a + sep + (cap(occ) if sep == "" and rng.random() < .6 else occ) + rng.choice(EXT)
    elif kind == "suffix": n = occ + sep + (cap(b) if sep == "" and rng.random() < .6 else b) + rng.choice(EXT)
    elif kind == "both": n = a + sep + occ + sep + b + rng.choice(EXT)
    elif kind == "us": n = "_" + occ + rng.choice(EXT)
    elif kind == "uus": n = "__" + occ + rng.choice(["", "__", "__.py", ".py"])
    elif kind == "digit": n = occ + rng.choice(["2", "_2", "-2", "2x"]) + rng.choice(EXT)
    elif kind == "hy_suffix": n = occ + "-" + rng.choice(["specific", "based", "Like"]) + rng.choice(EXT)
    elif kind == "twice": n = occ + rng.choice(["_", "-", ".", "", " and "]) + occ + rng.choice(EXT)
    elif kind == "two_variants": n = occ + rng.choice(["_", "-", ".", " "]) + render(sw, rng.choice(ALL)) + rng.choice(EXT)
    elif kind == "none": n = render([a.lower(), b.lower()], st) + rng.choice(EXT)
    elif kind == "dotted": n = a + "." + occ + "." + b
    elif kind == "glued": n = a + occ + b + rng.choice(EXT)
    elif kind == "space": n = rng.choice(["The ", "(", ""]) + occ + rng.choice([" Item", ")", ", Bar", " item.txt"])
    return kind, st, n

PRELUDE = """From RN Require Import Base.Bytes Model.StyleDef Model.CaseModel Model.Coercion Model.Renames Model.PathName Gen.GenAcronyms.
Open Scope N_scope.
Set Printing Width 100000000. Set Printing Depth 100000000.
Definition enc (r : option (bytes * bool)) (nm : bytes) : list (list N) :=
  match r with
  | None => []
  | Some (n, note) => if beq n nm then [] else [n; [if note then 1 else 0]]
  end.
"""
cq = lambda s: "[" + ";".join(str(ord(ch)) for ch in s) + "]"
def run_coq(name, body):
    path = os.path.join(WORK, name + ".v"); open(path, "w").write(PRELUDE + body)
    r = subprocess.run(["timeout", "900", "coqc", "-Q", ROCQ, "RN", "-w", "-notation-overridden", path],
                       capture_output=True, text=True, cwd=WORK)
    if r.returncode != 0: print(r.stderr[-3000:]); raise SystemExit("coqc failed")
    out = re.sub(r"\s+", " ", r.stdout)
    return [json.loads(m.group(1).replace(";", ",").replace("%N", "")) for m in re.finditer(r"= (\[.*?\]) : list \(list N\)", out)]

def main():
    seed = int(sys.argv[1]) if len(sys.argv) > 1 else 3; target = int(sys.argv[2]) if len(sys.argv) > 2 else 3500
    rng = random.Random(seed); cases = []; total = 0; skipped = Counter()
    while total < target:
        sw, rw = rng.choice(PAIRS)
        search = render(sw, rng.choice(ALL[:9])); replace = render(rw, rng.choice(ALL[:9]))
        r = rng.random()
        styles = list(CLI) if r < 0.6 else list(ALL) if r < 0.75 else ([s for s in ALL if rng.random() < 0.5] or ["Snake"])
        coerce = rng.choice(["auto", "auto", "off"]); plurals = rng.random() < 0.15
        names = []; seen = set()
        for i in range(8):
            k, st, n = gen_name(rng, sw)
            if n in ("", ".", "..") or "/" in n or n in seen: continue
            seen.add(n); names.append((k, st, n, rng.choice(["f", "f", "d", "l"])))
        tree = []
        for i, (k, st, n, ek) in enumerate(names):
            tree.append({"p": "d%d" % i, "k": "d", "m": 493})
            e = {"p": "d%d/%s" % (i, n), "k": ek, "m": 493 if ek == "d" else 420}
            if ek == "f": e["c"] = ""
            if ek == "l": e["t"] = hx("nowhere")
            tree.append(e)
        real = call({"op": "scan_tree", "tree": tree, "search": hx(search), "replace": hx(replace),
                     "options": {"styles": styles, "coerce": coerce, "rename_files": True, "rename_dirs": True,
                                 "enable_plural_variants": plurals}})
        if not real.get("ok"): skipped["scan error: " + str(real.get("error"))[:60]] += 1; continue
        em = call({"op": "enhanced_matches", "content": "", "search": hx(search), "replace": hx(replace), "styles": styles, "plurals": plurals})
        table = [(unhx(a), unhx(b)) for a, b in em["table"]]
        res = {}
        for k_, _ in table:
            res[k_] = call({"op": "resolve", "matched": hx(k_), "replacement": hx(replace)})["ok"]["style"]
        cases.append(dict(search=search, replace=replace, styles=styles, coerce=coerce, names=names, table=table, res=res,
                          paths={pp["path"]: pp for pp in real["plan"]["paths"]}))
        total += len(names)
    body = "";
    for ci, cs in enumerate(cases):
        body += "Definition vm_%d : amap := [%s].\n" % (ci, ";".join("(%s,%s)" % (cq(k), cq(v)) for k, v in cs["table"]))
        body += "Definition rs_%d (k r : bytes) : style := %s Snake.\n" % (ci, "".join("if beq k %s then %s else " % (cq(k), v) for k, v in cs["res"].items()))
        for (k, st, n, ek) in cs["names"]:
            body += "Eval vm_compute in enc (path_new_name_full gen_acronyms rs_%d %s vm_%d %s %s) %s.\n" % (
                ci, "true" if cs["coerce"] == "auto" else "false", ci, cq(cs["replace"]), cq(n), cq(n))
    t0 = time.time(); vals = run_coq("pathname", body); coq_t = time.time() - t0
    bad = 0; vi = 0; kinds = Counter(); sty = Counter(); outcome = Counter(); ek_c = Counter()
    for cs in cases:
        for i, (k, st, n, ek) in enumerate(cs["names"]):
            v = vals[vi]; vi += 1; kinds[k] += 1; sty[st] += 1; ek_c[ek] += 1
            rp = cs["paths"].get("d%d/%s" % (i, n))
            model = None if not v else ("".join(map(chr, v[0])), bool(v[1][0]))
            realv = None if rp is None else (rp["new_path"].split("/", 1)[1], rp.get("coercion_applied") is not None)
            outcome["unchanged" if realv is None else "renamed+coerced" if realv[1] else "renamed"] += 1
            okkind = rp is None or rp["kind"] == ("dir" if ek == "d" else "file")
            if model != realv or not okkind:
                bad += 1
                if bad <= 12: print("MISMATCH", repr(n), cs["search"], "->", cs["replace"], cs["coerce"], "model", model, "real", realv, rp)
    assert vi == len(vals)
    print("names %d in %d scans (coq %.1fs); kinds %s" % (vi, len(cases), coq_t, dict(kinds)))
    print("styles %s; entry kinds %s" % (dict(sty), dict(ek_c)))
    print("coerce %s; outcomes %s; skipped %s" % (dict(Counter(c["coerce"] for c in cases)), dict(outcome), dict(skipped)))
    print("DISAGREEMENTS: %d" % bad)
    return 1 if bad else 0
if __name__ == "__main__": sys.exit(main())
