"""Prints the markdown tables of DESIGN.md section 11 from seeded/*/meta.json and known_findings.json."""
import json
import glob
import os
V = os.path.dirname(os.path.dirname(os.path.abspath(__file__)))
print("| seeded change | property | what it does | what it needs | caught by | result |")
print("|---|---|---|---|---|---|")
for f in sorted(glob.glob(V + "/seeded/*/meta.json")):
    m = json.load(open(f))
    print("| `%s` | %s | %s | %s | %s | %s |" % (os.path.basename(os.path.dirname(f)), m.get("property"), m.get("summary", "").replace("|", "/"),
                                              m.get("needs", "").replace("|", "/"), m.get("caught_by", "").replace("|", "/"), m.get("result", "")))
print()
d = json.load(open(V + "/known_findings.json"))
print("Recorded findings (not repaired):\n")
for x in d["findings"]:
    print("* **%s / %s** — %s" % (x["property"], x["class"], x["what"]))
print("\nRepairs (`fix:` commits in /repo):\n")
for x in d["fixed"]:
    print("* " + x[len("fixed: "):])
