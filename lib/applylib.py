"""Shared pieces for the apply/undo family (C01, C02, C04, C05, C08, C11, C13): conversions between
tree entries, plan JSON and the model's s-expressions; an independent reference interpreter of a
plan; canonical tree comparison."""
import core


def split_path(s):
    if isinstance(s, str):
        s = s.encode("utf-8")
    return [c for c in s.split(b"/") if c not in (b"", b".")]


def fs_sx(tree):
    """tree entries -> model fs sexp"""
    out = []
    for e in tree:
        p = split_path(e["p"])
        k = e.get("k", "f")
        if k == "f":
            c = e.get("c", b"")
            if isinstance(c, str):
                c = c.encode()
            out.append([p, ["f", e.get("m", 0o644), c]])
        elif k == "d":
            out.append([p, ["d", e.get("m", 0o755)]])
        else:
            out.append([p, ["l", e["t"].encode() if isinstance(e["t"], str) else e["t"]]])
    return out


def fs_from_sx(sx):
    """model fs sexp -> {relpath: ("f", mode, bytes) | ("d", mode) | ("l", target)}"""
    out = {}
    for p, n in sx:
        rel = b"/".join(core.atom_bytes(c) for c in p).decode("utf-8", "surrogateescape")
        if n[0] == "f":
            out[rel] = ("f", int(n[1]), core.atom_bytes(n[2]))
        elif n[0] == "d":
            out[rel] = ("d", int(n[1]))
        else:
            out[rel] = ("l", core.atom_bytes(n[1]).decode("utf-8", "surrogateescape"))
    return out


def tree_dict(tree, user_only=True):
    """tree entries -> same dict form"""
    out = {}
    for e in tree:
        rel = e["p"]
        if user_only and (rel == ".renamify" or rel.startswith(".renamify/")):
            continue
        k = e.get("k", "f")
        if k == "f":
            c = e.get("c", b"")
            if isinstance(c, str):
                c = bytes.fromhex(c) if False else c.encode()
            out[rel] = ("f", e.get("m", 0o644), c)
        elif k == "d":
            out[rel] = ("d", e.get("m", 0o755))
        else:
            out[rel] = ("l", e["t"])
    return out


def harness_tree_dict(snap, user_only=True):
    """harness snapshot (hex contents) -> dict form"""
    out = {}
    for e in snap:
        rel = e["p"]
        if user_only and (rel == ".renamify" or rel.startswith(".renamify/")):
            continue
        if e["k"] == "f":
            out[rel] = ("f", e["m"], bytes.fromhex(e["c"]))
        elif e["k"] == "d":
            out[rel] = ("d", e["m"])
        else:
            out[rel] = ("l", e["t"])
    return out


def user_only(d):
    return {k: v for k, v in d.items() if not (k == ".renamify" or k.startswith(".renamify/"))}


def aplan_sx(plan):
    """plan JSON (paths relative to the root) -> model aplan sexp"""
    hs = [[split_path(h["file"]), h["start"], h["end"], h["content"].encode("utf-8"), h.get("replace", "").encode("utf-8")]
          for h in plan.get("matches", [])]
    rs = [[split_path(r["path"]), split_path(r.get("new_path", "")), r["kind"] == "dir"] for r in plan.get("paths", [])]
    return [plan.get("id", "id").encode(), hs, rs]


def relativize(plan, root):
    """make every path in a CLI plan JSON relative to `root`"""
    root = str(root).rstrip("/") + "/"

    def rel(s):
        if isinstance(s, str) and s.startswith(root):
            return s[len(root):]
        return s
    for h in plan.get("matches", []):
        h["file"] = rel(h["file"])
        for k in ("original_file", "renamed_file"):
            if h.get(k):
                h[k] = rel(h[k])
    for r in plan.get("paths", []):
        r["path"] = rel(r["path"])
        if "new_path" in r:
            r["new_path"] = rel(r["new_path"])
    return plan


def reference_apply(tree_d, plan):
    """Independent reference interpreter: substitute each planned match at its recorded byte offsets
    (right to left), then move every node to the path obtained by renaming each of its prefixes
    that is a rename source. Returns dict or ("error", why)."""
    by_file = {}
    for h in plan.get("matches", []):
        by_file.setdefault(h["file"], []).append(h)
    out = {}
    for p, v in tree_d.items():
        if v[0] == "f" and p in by_file:
            c = v[2]
            hs = sorted(by_file[p], key=lambda h: h["start"])
            last = None
            for h in hs:
                if last is not None and h["start"] < last:
                    return ("error", f"overlapping hunks in {p}")
                last = h["end"]
            for h in reversed(hs):
                if c[h["start"]:h["end"]] != h["content"].encode("utf-8"):
                    return ("error", f"content mismatch in {p} at {h['start']}")
                c = c[:h["start"]] + h.get("replace", "").encode("utf-8") + c[h["end"]:]
            v = ("f", v[1], c)
        out[p] = v
    for f in by_file:
        if f not in tree_d:
            return ("error", f"planned file {f} missing")
    ren = {}
    for r in plan.get("paths", []):
        ren[r["path"]] = r.get("new_path", "").rsplit("/", 1)[-1]
    moved = {}
    for p, v in out.items():
        comps = p.split("/")
        newc = []
        for i, c in enumerate(comps):
            pre = "/".join(comps[:i + 1])
            newc.append(ren.get(pre, c))
        np = "/".join(newc)
        if np in moved:
            return ("error", f"two nodes end at {np}")
        moved[np] = v
    return moved


def diff_dict(a, b, limit=8):
    out = []
    for k in sorted(set(a) | set(b)):
        if a.get(k) != b.get(k):
            def short(v):
                if v is None:
                    return None
                if v[0] == "f":
                    return ("f", oct(v[1]), v[2][:60])
                return v
            out.append((k, short(a.get(k)), short(b.get(k))))
            if len(out) >= limit:
                break
    return out


def sha_dict(d):
    """dict form -> comparable with cli.Sandbox.snapshot()"""
    import hashlib
    out = {}
    for k, v in d.items():
        if v[0] == "f":
            out[k] = ("f", v[1], hashlib.sha256(v[2]).hexdigest(), len(v[2]))
        else:
            out[k] = v
    return out
