"""compoundloc_difftest.py <seed> <instances> — the conclusions of Proofs/CompoundP3.v (C07_locality_train / _camel_gen / _title) replayed on the real
compound_matcher.rs::find_compound_variants ($RN_HARNESS) on random instances of the theorems' hypotheses; the vocabulary is neutral for the
acronym table of the source (checked by vm_compute when the list was chosen; a non-neutral word would show as a mismatch, not be hidden)"""
import json, os, subprocess, random, sys
random.seed(int(sys.argv[1]) if len(sys.argv) > 1 else 7)
N = int(sys.argv[2]) if len(sys.argv) > 2 else 6000
W = ["get","user","name","now","account","number","file","path","count","total","value","item","list","open","close","first","last","order","page","size","color","text","word","load","save"]
cap = lambda w: w[0].upper()+w[1:]
def render(S, ws):
    if S=="Snake": return "_".join(ws)
    if S=="Kebab": return "-".join(ws)
    if S=="Camel": return ws[0]+"".join(map(cap,ws[1:]))
    if S=="Pascal": return "".join(map(cap,ws))
    if S=="ScreamingSnake": return "_".join(w.upper() for w in ws)
    if S=="Title": return " ".join(map(cap,ws))
    if S=="Train": return "-".join(map(cap,ws))
    if S=="ScreamingTrain": return "-".join(w.upper() for w in ws)
    if S=="Dot": return ".".join(ws)
    if S=="Sentence": return " ".join([cap(ws[0])]+ws[1:])
    if S=="LowerSentence": return " ".join(ws)
    if S=="UpperSentence": return " ".join(w.upper() for w in ws)
VIS = ["Snake","Kebab","Camel","Pascal","ScreamingSnake","Title","Train","ScreamingTrain","Dot","Sentence","LowerSentence","UpperSentence"]
CAPS = {"ScreamingSnake","ScreamingTrain","UpperSentence"}
def occurs(sw, l):
    return any(l[i:i+len(sw)]==sw for i in range(len(l)-len(sw)+1))
def predict(kind, pfx, pre, sw, rw, post, S1):
    f = (lambda w: w.upper()) if S1 in CAPS else cap
    if kind=="Train":
        return pfx + "-".join(map(cap, pre+rw+post)), "Train"
    if kind=="Camel":
        if pre:
            return pfx + pre[0] + "".join(list(map(cap,pre[1:]))+list(map(f,rw))+list(map(cap,post))), "Camel"
        return pfx + rw[0] + "".join(list(map(f,rw[1:]))+list(map(cap,post))), "Camel"
    if kind=="Title":
        span = ["".join(map(f,rw))] if len(sw)==1 else list(map(cap,rw))
        return pfx + " ".join(list(map(cap,pre))+span+list(map(cap,post))), "Title"
cases=[]
while len(cases) < N:
    kind = random.choice(["Train","Camel","Camel","Title"])
    pfx = random.choice(["","_","__"])
    pre = [random.choice(W) for _ in range(random.choice([0,0,1,2,3]))]
    post = [random.choice(W) for _ in range(random.choice([0,1,2,3]))]
    sw = [random.choice(W) for _ in range(random.choice([1,1,2,3]))]
    rw = [random.choice(W) for _ in range(random.choice([1,2,3]))]
    if not (pre+post): continue
    if occurs(sw, pre+sw[:-1]) or occurs(sw, post): continue
    S0 = random.choice(VIS); S1 = random.choice(VIS)
    ws = pre+sw+post
    ident = pfx + render(kind, ws)
    cases.append((kind,pfx,pre,sw,rw,post,S0,S1,ident,render(S0,sw),render(S1,rw)))
inp = "".join(json.dumps({"op":"compound_variants","identifier":c[8].encode().hex(),"search":c[9].encode().hex(),"replace":c[10].encode().hex()})+"\n" for c in cases)
out = subprocess.run([os.environ.get("RN_HARNESS", "/tmp/c07loc/rn-harness")], input=inp.encode(), capture_output=True, timeout=600).stdout.decode().splitlines()
bad=0; stats={}
for c,o in zip(cases,out):
    j=json.loads(o)
    got=[(bytes.fromhex(m["replacement"]).decode(), m["style"], m["start"], m["end"], bytes.fromhex(m["full"]).decode()) for m in j.get("ok",[])]
    exp, st = predict(c[0],c[1],c[2],c[3],c[4],c[5],c[7])
    key=(c[0], "head" if not c[2] else "inner", "caps" if c[7] in CAPS else "nocaps", len(c[3])==1)
    stats[key]=stats.get(key,0)+1
    if got != [(exp, st, 0, 0, c[8])]:
        bad+=1
        if bad<10: print("MISMATCH", c, got, exp)
print("cases", len(cases), "mismatches", bad)
for k in sorted(stats): print(k, stats[k])
sys.exit(1 if bad else 0)
