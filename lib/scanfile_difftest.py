#!/usr/bin/env python3
"""scanfile_difftest.py <seed> <instances> — Proofs/ScanFileP.v replayed on the real scanner ($RN_HARNESS, default ./rn-harness-fixed):
  statement 2 (scan_file_standalone): op scan_tree on dl ++ occ ++ dr with context bytes that are neither
     alphanumeric nor '-' nor '_' ('.' and newlines included): exactly one hunk, occ -> same-style new name
  statement 1 (enhanced_standalone): op enhanced_matches returns exactly the exact match
  statement 3 (scan_file_disabled_untouched): the same with the occurrence's style NOT enabled: no match at all"""
import json, os, random, subprocess, sys
ROOT = os.path.dirname(os.path.abspath(__file__))
p = subprocess.Popen([os.environ.get("RN_HARNESS", os.path.join(ROOT, "rn-harness-fixed"))], stdin=subprocess.PIPE, stdout=subprocess.PIPE, text=True)
def call(o):
    p.stdin.write(json.dumps(o) + "\n"); p.stdin.flush(); return json.loads(p.stdout.readline())
hx = lambda s: s.encode().hex(); cap = lambda w: w[:1].upper() + w[1:]
def render(t, st):
    return {"Snake": "_".join(t), "Kebab": "-".join(t), "Camel": t[0] + "".join(map(cap, t[1:])),
            "Pascal": "".join(map(cap, t)), "ScreamingSnake": "_".join(w.upper() for w in t),
            "Title": " ".join(map(cap, t)), "Train": "-".join(map(cap, t)),
            "ScreamingTrain": "-".join(w.upper() for w in t), "Dot": ".".join(t),
            "Sentence": " ".join([cap(t[0])] + t[1:]), "LowerSentence": " ".join(t),
            "UpperSentence": " ".join(w.upper() for w in t)}[st]
VIS = ["Snake", "Kebab", "Camel", "Pascal", "ScreamingSnake", "Title", "Train", "ScreamingTrain", "Dot", "Sentence", "LowerSentence", "UpperSentence"]
NEUTRAL = ["old", "name", "widget", "frame", "panel", "green", "stone", "river", "cloud", "marble", "tiger", "lemon"]
CTX = " .\n()[]{}\"'/:,;=<>\t!#.."
rng = random.Random(int(sys.argv[1]) if len(sys.argv) > 1 else 21); n2 = bad2 = n1 = bad1 = n3 = bad3 = 0
for i in range(int(sys.argv[2]) if len(sys.argv) > 2 else 900):
    sw = rng.sample(NEUTRAL, rng.choice([2, 2, 3])); rw = rng.sample(NEUTRAL, rng.choice([1, 2, 3]))
    S0, S1, S = rng.choice(VIS), rng.choice(VIS), VIS[i % 12]
    dl = "".join(rng.choice(CTX) for _ in range(rng.randint(0, 6))); dr = "".join(rng.choice(CTX) for _ in range(rng.randint(0, 6)))
    occ, new = render(sw, S), render(rw, S); c = dl + occ + dr
    search, repl = render(sw, S0), render(rw, S1)
    enabled = i % 3 != 2
    others = [s for s in VIS if s != S and rng.random() < 0.6]
    styles = ([S] + others) if enabled else (others or [rng.choice([s for s in VIS if s != S])])
    rng.shuffle(styles)
    em = call({"op": "enhanced_matches", "content": hx(c), "search": hx(search), "replace": hx(repl), "styles": styles, "plurals": False})["ok"]
    sc = call({"op": "scan_tree", "tree": [{"p": "a.txt", "k": "f", "c": hx(c), "m": 420}], "search": hx(search), "replace": hx(repl),
               "options": {"styles": styles, "coerce": rng.choice(["auto", "off"]), "enable_plural_variants": False}})["plan"]["matches"]
    line_start = dl.rfind("\n") + 1; line_no = dl.count("\n") + 1
    if enabled:
        n1 += 1; n2 += 1
        want = [[line_no, len(dl) - line_start, len(dl), len(dl) + len(occ), hx(occ), hx(occ)]]
        if em != want: bad1 += 1; print("S1 MISMATCH", repr(c), styles, em, want)
        la = dl[line_start:]; nl = dr.find("\n"); ra = dr if nl < 0 else dr[:nl + 1]
        ok = (len(sc) == 1 and sc[0]["content"] == occ and sc[0]["replace"] == new and sc[0]["start"] == len(dl) and sc[0]["end"] == len(dl) + len(occ)
              and sc[0]["line"] == line_no and sc[0]["byte_offset"] == len(la) and sc[0]["line_before"] == la + occ + ra
              and sc[0]["line_after"] == la + new + ra and not sc[0].get("coercion_applied"))
        if not ok: bad2 += 1; print("S2 MISMATCH", repr(c), search, repl, styles, sc)
    else:
        n3 += 1
        if em or sc: bad3 += 1; print("S3 WITNESS", repr(c), "search", search, "styles", styles, "S", S, em, [(h["content"], h["replace"]) for h in sc])
print("statement 1: %d instances, mismatches %d; statement 2: %d instances, mismatches %d; statement 3: %d disabled-style instances, with a match %d" % (n1, bad1, n2, bad2, n3, bad3))
sys.exit(1 if bad1 or bad2 or bad3 else 0)
