"""Shared machinery for ./check: builds (Coq, harness, CLI, OCaml model driver), hygiene gate,
assumption parsing, evidence writing, known findings, decision logic."""
import fcntl
import hashlib
import json
import os
import re
import subprocess
import sys
import time
from pathlib import Path

VERIF = Path(__file__).resolve().parent.parent
REPO = Path(os.environ.get("RN_REPO", "/repo"))
BUILD = VERIF / "build"
ROCQ = VERIF / "rocq"
OCAML = VERIF / "ocaml"
EVID = VERIF / "evidence"
REPLAY = BUILD / "replay"

ENV = dict(os.environ)
ENV.update({"CARGO_NET_OFFLINE": "true", "LC_ALL": "C.UTF-8"})

ALLOWED_AXIOMS = set()  # the development is expected to be closed under the global context


def log(*a):
    print(*a, file=sys.stderr, flush=True)


def sh(cmd, timeout=1200, cwd=None, env=None, input=None):
    t0 = time.time()
    try:
        p = subprocess.run(cmd, shell=isinstance(cmd, str), cwd=cwd, env=env or ENV, input=input,
                           stdout=subprocess.PIPE, stderr=subprocess.STDOUT, timeout=timeout,
                           text=True, errors="replace")
        return p.returncode, p.stdout, time.time() - t0
    except subprocess.TimeoutExpired as e:
        out = e.stdout or ""
        if isinstance(out, bytes):
            out = out.decode("utf-8", "replace")
        return 124, out + "\nTIMEOUT", time.time() - t0


class Lock:
    def __init__(self, name):
        BUILD.mkdir(parents=True, exist_ok=True)
        self.path = BUILD / (name + ".lock")

    def __enter__(self):
        self.f = open(self.path, "w")
        fcntl.flock(self.f, fcntl.LOCK_EX)
        return self

    def __exit__(self, *a):
        fcntl.flock(self.f, fcntl.LOCK_UN)
        self.f.close()


# ----------------------------------------------------------------------------- translators
def run_translators():
    """Regenerate rocq/Gen/*.v from /repo's working tree. Returns list of error strings."""
    sys.path.insert(0, str(VERIF / "translators"))
    import gen_all
    return gen_all.run(REPO, ROCQ / "Gen")


def failed_translations():
    """{"Gen/GenX.v": why} for the tables whose translator failed in the last run_translators()"""
    import gen_all
    return dict(gen_all.FAILED_FILES)


# ----------------------------------------------------------------------------- coq
def all_v_files():
    out = []
    for d in ["Base", "Gen", "Model", "Proofs", "Props", "Extract"]:
        out += sorted(str(p.relative_to(ROCQ)) for p in (ROCQ / d).glob("*.v"))
    return out


def coq_makefile():
    files = all_v_files()
    key = hashlib.sha256("\n".join(files).encode()).hexdigest()
    stamp = ROCQ / ".files.stamp"
    if not (ROCQ / "Makefile").exists() or not stamp.exists() or stamp.read_text() != key:
        rc, out, _ = sh(["coq_makefile", "-f", "_CoqProject", "-o", "Makefile"] + files, cwd=ROCQ)
        if rc != 0:
            raise RuntimeError("coq_makefile failed: " + out)
        stamp.write_text(key)


def coq_make(targets, timeout=3000):
    """Full .vo build of the targets (and their dependency cone). Returns (ok, log)."""
    with Lock("coq"):
        coq_makefile()
        rc, out, dt = sh(["make", "-j16", "-k"] + targets, cwd=ROCQ, timeout=timeout)
    return rc == 0, out


def coq_failed_files(makelog):
    return sorted(set(re.findall(r'File "\./([^"]+)", line (\d+)', makelog)))


def coq_props(prop):
    """Re-compile Props/<prop>.v (always) to capture its Check / Print Assumptions output.
    Returns (ok, output)."""
    with Lock("coq"):
        vf = f"Props/{prop}.v"
        (ROCQ / f"Props/{prop}.vo").unlink(missing_ok=True)
        rc, out, dt = sh(["make", vf + "o"], cwd=ROCQ, timeout=1200)
    return rc == 0, out


def parse_assumptions(out):
    """Parse the output of the Print Assumptions commands of a Props file.
    Returns (n_closed, axioms:set)."""
    closed = len(re.findall(r"Closed under the global context", out))
    axioms = set()
    for m in re.finditer(r"Axioms:\n((?:.+\n?)+?)(?:\n|\Z)", out):
        for line in m.group(1).splitlines():
            mm = re.match(r"^(\S+)\s*:", line)
            if mm:
                axioms.add(mm.group(1))
    return closed, axioms


FORBIDDEN = re.compile(
    r"\b(Admitted|admit|Axiom|Axioms|Parameter|Parameters|Conjecture|Conjectures|Admit Obligations|"
    r"Unset Guard Checking|bypass_check|Unset Positivity Checking|Unset Universe Checking|"
    r"type-in-type|impredicative-set)\b")


def strip_comments(src):
    out, depth, i = [], 0, 0
    while i < len(src):
        if src.startswith("(*", i):
            depth += 1
            i += 2
        elif src.startswith("*)", i) and depth > 0:
            depth -= 1
            i += 2
        else:
            if depth == 0:
                out.append(src[i])
            i += 1
    return "".join(out)


def hygiene():
    """Grep the development for forbidden constructs (outside comments). Returns list of hits."""
    hits = []
    for f in all_v_files():
        src = strip_comments((ROCQ / f).read_text())
        # Variable/Hypothesis outside a section
        depth = 0
        for ln in src.splitlines():
            s = ln.strip()
            if re.match(r"^Section\b", s):
                depth += 1
            elif re.match(r"^End\b", s) and depth > 0:
                depth -= 1
            if depth == 0 and re.match(r"^(Variable|Variables|Hypothesis|Hypotheses|Context)\b", s):
                hits.append(f"{f}: {s[:80]} (outside section)")
            m = FORBIDDEN.search(s)
            if m:
                hits.append(f"{f}: {s[:80]}")
    proj = (ROCQ / "_CoqProject").read_text()
    if "type-in-type" in proj or "impredicative" in proj:
        hits.append("_CoqProject: forbidden flag")
    return hits


def count_obligations(prop):
    """Number of Theorem/Lemma/Example/Corollary statements in the dependency cone of
    Props/<prop>.v (from coqdep), and the list of files in the cone."""
    rc, out, _ = sh(["coqdep", "-Q", ".", "RN", "-sort", f"Props/{prop}.v"], cwd=ROCQ)
    files = [f for f in out.split() if f.endswith(".v")]
    n = 0
    for f in files:
        p = ROCQ / f
        if not p.exists():
            p = ROCQ / f.lstrip("./")
        if p.exists():
            src = strip_comments(p.read_text())
            n += len(re.findall(r"^\s*(?:Local\s+|Global\s+)?(?:Theorem|Lemma|Example|Corollary|Fact|Remark|Proposition)\b",
                                src, flags=re.M))
    return n, files


# ----------------------------------------------------------------------------- rust builds
def build_harness():
    """Build the harness crate against /repo's current working tree. Returns (path|None, log)."""
    with Lock("cargo-harness"):
        hdir = VERIF / "harness"
        if str(REPO) != "/repo":
            # a repository copy elsewhere (RN_REPO): the crate's two absolute references are re-pointed in a private copy
            hdir = BUILD / "harness-alt"
            (hdir / "src").mkdir(parents=True, exist_ok=True)
            for f in [Path("Cargo.toml")] + [Path("src") / x.name for x in (VERIF / "harness" / "src").glob("*.rs")]:
                txt = (VERIF / "harness" / f).read_text().replace('"/repo/', '"' + str(REPO) + '/')
                if not (hdir / f).exists() or (hdir / f).read_text() != txt:
                    (hdir / f).write_text(txt)
        lockf = hdir / "Cargo.lock"
        src = REPO / "Cargo.lock"
        if not lockf.exists():
            lockf.write_text(src.read_text())
        env = dict(ENV)
        env["CARGO_TARGET_DIR"] = str(BUILD / "target-harness")
        rc, out, dt = sh(["cargo", "build", "--offline", "--quiet"], cwd=hdir, env=env,
                         timeout=1500)
        if rc != 0:
            # retry once with a fresh lock copy (dependency set of /repo may have changed)
            lockf.write_text(src.read_text())
            rc, out, dt = sh(["cargo", "build", "--offline", "--quiet"], cwd=hdir,
                             env=env, timeout=1500)
    p = BUILD / "target-harness" / "debug" / "rn-harness"
    return (p if rc == 0 and p.exists() else None), out


def build_cli(release=False):
    """Build the real CLI from /repo's working tree into build/target-cli."""
    with Lock("cargo-cli"):
        env = dict(ENV)
        env["CARGO_TARGET_DIR"] = str(BUILD / "target-cli")
        cmd = ["cargo", "build", "--offline", "--quiet", "-p", "renamify",
               "--features", "renamify-core/verif-hooks"]
        if release:
            cmd.append("--release")
        rc, out, dt = sh(cmd, cwd=REPO, env=env, timeout=2400)
    p = BUILD / "target-cli" / ("release" if release else "debug") / "renamify"
    return (p if rc == 0 and p.exists() else None), out


class Proc:
    """Line-oriented request/response subprocess."""

    def __init__(self, argv, cwd=None, env=None):
        self.argv = argv
        self.cwd = cwd
        self.env = env or ENV
        self.start()

    def start(self):
        self.p = subprocess.Popen(self.argv, stdin=subprocess.PIPE, stdout=subprocess.PIPE,
                                  stderr=subprocess.DEVNULL, cwd=self.cwd, env=self.env,
                                  text=True, bufsize=1)

    def ask_line(self, line):
        try:
            self.p.stdin.write(line + "\n")
            self.p.stdin.flush()
            r = self.p.stdout.readline()
        except BrokenPipeError:
            r = ""
        if r == "":
            rc = self.p.poll()
            self.start()
            return None, rc
        return r.rstrip("\n"), None

    def close(self):
        try:
            self.p.stdin.close()
            self.p.wait(timeout=5)
        except Exception:
            self.p.kill()


class Harness(Proc):
    def ask(self, req):
        r, rc = self.ask_line(json.dumps(req))
        if r is None:
            return {"crash": rc}
        try:
            return json.loads(r)
        except Exception:
            return {"garbled": r[:200]}


def hx(b):
    if isinstance(b, str):
        b = b.encode()
    return b.hex()


def unhx(s):
    return bytes.fromhex(s)


# ----------------------------------------------------------------------------- model driver
def build_model():
    """Extract the Gallina model to OCaml and build the driver. Returns (path|None, log)."""
    ok, out = coq_make(["Extract/Extract.vo"])
    if not ok:
        return None, out
    with Lock("ocaml"):
        ml = ROCQ / "model.ml"
        mli = ROCQ / "model.mli"
        # Extraction writes into the cwd of coqc (rocq/)
        srcs = [ml, mli, OCAML / "modelrun.ml", OCAML / "sexp.ml"]
        key = hashlib.sha256(b"".join(p.read_bytes() for p in srcs if p.exists())).hexdigest()
        stamp = BUILD / "modelrun.stamp"
        exe = BUILD / "modelrun"
        if exe.exists() and stamp.exists() and stamp.read_text() == key:
            return exe, ""
        bd = BUILD / "ocaml"
        bd.mkdir(parents=True, exist_ok=True)
        for p in srcs:
            (bd / p.name).write_bytes(p.read_bytes())
        rc, o2, _ = sh(["ocamlfind", "ocamlopt", "-O2" if False else "-inline", "50", "-w", "-a",
                        "-package", "str", "-linkpkg",
                        "model.mli", "model.ml", "sexp.ml", "modelrun.ml", "-o", str(exe)], cwd=bd,
                       timeout=900)
        if rc != 0:
            return None, o2
        stamp.write_text(key)
    return exe, ""


# s-expressions for the model driver protocol
def sx(v):
    """python -> sexp text. bytes -> x<hex>; int -> decimal; str -> bare atom; list/tuple -> ( ... );
    None -> none; bool -> true/false"""
    if isinstance(v, (bytes, bytearray)):
        return "x" + bytes(v).hex()
    if isinstance(v, bool):
        return "true" if v else "false"
    if isinstance(v, int):
        return str(v)
    if v is None:
        return "none"
    if isinstance(v, str):
        return v
    return "(" + " ".join(sx(x) for x in v) + ")"


def parse_sx(s):
    toks = re.findall(r"\(|\)|[^\s()]+", s)
    pos = 0

    def rd():
        nonlocal pos
        t = toks[pos]
        pos += 1
        if t == "(":
            out = []
            while toks[pos] != ")":
                out.append(rd())
            pos += 1
            return out
        return t
    return rd()


def atom_bytes(a):
    assert a.startswith("x"), a
    return bytes.fromhex(a[1:])


class Model(Proc):
    def ask(self, *args):
        r, rc = self.ask_line(sx(list(args)))
        if r is None:
            return ["crash", str(rc)]
        return parse_sx(r)


# ----------------------------------------------------------------------------- known findings
def known_findings(prop):
    p = VERIF / "known_findings.json"
    if not p.exists():
        return []
    data = json.loads(p.read_text())
    return [e for e in data.get("findings", []) if e.get("property") == prop]


# ----------------------------------------------------------------------------- a check run
class Run:
    def __init__(self, prop, tier, seed):
        self.prop, self.tier, self.seed = prop, tier, seed
        self.t0 = time.time()
        self.violations = []      # (replay_path, text, has_input)
        self.known_hits = {}      # finding id -> description
        self.coverage = {"samples": []}
        self.assumptions = []
        self.notes = []
        self.obligations = 0
        self.discharged = 0
        self.checker_cmds = []
        self.trusted = []
        self.evals = 0
        self.distinct = set()
        self.disagreements = 0
        self.proof_ok = True
        REPLAY.mkdir(parents=True, exist_ok=True)

    # -- recording
    def sample(self, s):
        if len(self.coverage["samples"]) < 12:
            self.coverage["samples"].append(s)

    def case(self, key, nontrivial=True):
        self.evals += 1
        if nontrivial:
            self.distinct.add(hashlib.sha1(repr(key).encode()).hexdigest())

    def violation(self, what, replay_obj, has_input=True):
        n = len(self.violations)
        path = REPLAY / f"{self.prop}-{self.tier}-{n}.json"
        replay_obj = dict(replay_obj)
        replay_obj.setdefault("property", self.prop)
        replay_obj["what"] = what
        path.write_text(json.dumps(replay_obj, indent=1, default=str))
        self.violations.append((str(path), what, has_input))

    def known(self, fid, what):
        self.known_hits[fid] = what

    # -- proof side
    def prove(self):
        """Regenerate Gen, build Props/<prop>.vo, hygiene, assumptions. Fills obligations.
        Returns True when everything checks."""
        errs = run_translators()
        for e in errs:
            self.notes.append("translator: " + e)
        ok, mk = coq_make([f"Props/{self.prop}.vo"])
        self.checker_cmds.append(f"cd rocq && coq_makefile -f _CoqProject -o Makefile <files> && make -j16 Props/{self.prop}.vo")
        n, files = count_obligations(self.prop)
        self.obligations = n
        self.coverage["proof_files"] = files
        # a translator that cannot read the current source breaks exactly the properties whose proofs depend on its table
        errs = [f"{f}: {why}" for f, why in failed_translations().items() if f in files]
        if errs or not ok:
            self.proof_ok = False
            failed = coq_failed_files(mk)
            tail = "\n".join(mk.splitlines()[-25:])
            self.broken = {"translator_errors": errs, "failed": failed, "log_tail": tail}
            return False
        ok2, out = coq_props(self.prop)
        closed, axioms = parse_assumptions(out)
        self.coverage["print_assumptions"] = {"closed_under_global_context": closed,
                                               "axioms": sorted(axioms)}
        bad_ax = axioms - ALLOWED_AXIOMS
        hy = hygiene()
        if not ok2 or bad_ax or hy:
            self.proof_ok = False
            self.broken = {"failed": coq_failed_files(out), "axioms": sorted(bad_ax), "hygiene": hy,
                           "log_tail": "\n".join(out.splitlines()[-25:])}
            return False
        self.discharged = n
        if self.tier == "thorough":
            rc, o, dt = sh(["coqchk", "-silent", "-o", "-Q", ".", "RN", f"RN.Props.{self.prop}"],
                           cwd=ROCQ, timeout=3000)
            self.checker_cmds.append(f"coqchk -silent -o -Q . RN RN.Props.{self.prop}")
            self.coverage["coqchk"] = "\n".join(o.splitlines()[-12:])
            if rc != 0:
                self.proof_ok = False
                self.broken = {"coqchk": o[-2000:]}
                return False
        return True

    # -- finishing
    def finish(self, level="proof", explanation="", assumptions=None):
        wall = time.time() - self.t0
        cov = self.coverage
        cov.update({
            "obligations": self.obligations,
            "discharged": self.discharged,
            "checker_cmd": " ; ".join(self.checker_cmds) or "none",
            "trusted_base": self.trusted,
            "evaluations": self.evals,
            "distinct_nontrivial": len(self.distinct),
            "disagreements_checked": self.disagreements,
            "explanation": explanation,
            "known_findings_emitted": sorted(self.known_hits),
            "notes": self.notes,
        })
        if self.discharged == 0:
            # schema: a proof-level file needs discharged >= 1; a run whose proof failed reports
            # the count under another key and falls back to the generic coverage keys
            cov["discharged_count"] = cov.pop("discharged")
        if not cov["samples"]:
            cov["samples"] = ["(no cases)"]
        ev = {"property_id": self.prop, "tier": self.tier, "seed": self.seed, "level": level,
              "coverage": cov, "assumptions": assumptions or [], "wall_s": round(wall, 2),
              "violations": len(self.violations)}
        EVID.mkdir(exist_ok=True)
        (EVID / f"{self.prop}.json").write_text(json.dumps(ev, indent=1, default=str))
        for fid, what in sorted(self.known_hits.items()):
            print(f"KNOWN-FINDING: property={self.prop} {what}")
        if self.violations:
            for path, what, has_input in self.violations:
                tail = "" if has_input else " no-failing-input-found"
                print(f"VIOLATION property={self.prop} replay={path}{tail}")
            return 1
        print(f"OK property={self.prop} tier={self.tier} obligations={self.obligations} "
              f"cases={self.evals} distinct={len(self.distinct)} wall={wall:.1f}s")
        return 0
