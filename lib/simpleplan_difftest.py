#!/usr/bin/env python3
"""simpleplan_difftest.py <seed> <n> — differential test of Model/SimplePlan.v against the real planner behind
`renamify replace --no-regex`: scanner.rs::create_simple_plan / process_file_content.

  real   = harness op simple_plan_tree (create_simple_plan end to end on a materialised tree, regex = false)
  model  = process_file_content / create_simple_plan of Model/SimplePlan.v, evaluated with `Eval vm_compute` in a
           generated cases file compiled with coqc -Q $RN_ROCQ RN
  oracle = line_excluded: python `re` on every candidate line of the (lossily decoded) text; the patterns are plain
           literals / anchors / alternations on which python `re` and the Rust regex crate agree

Generated inputs (1-3 files per case): several occurrences per line, self-overlapping patterns ("aa" in "aaaaa",
"aba" in "ababa"), occurrences cut by a line break, non-ASCII text and patterns, CRLF, "\r\r\n", lone CR, no final
newline, empty lines, a BOM, excluded lines, invalid UTF-8 (offsets are then offsets into the DECODED text, which the
model reproduces through [lossy]), NUL bytes / %PDF (binary: skipped), UTF-16 BOM (not binary), the empty pattern.
Compared per hunk: line, byte_offset, char_offset, start, end, variant, content, replace, line_before, line_after;
per file: the hunk list and has_matches; per case: files_scanned, total_matches, matches_by_variant,
files_with_matches (or the empty-pattern error).

env: RN_HARNESS (default ./rn-harness), RN_ROCQ (default ./rocq), RN_WORK (default ./work/simpleplan_difftest).
Output: `compared <k> hunks in <n> cases`, `DISAGREEMENTS: <d>` (details of the first few); exit 1 when d > 0.
"""
import json, os, random, re, subprocess, sys, time
from collections import Counter

HERE = os.path.dirname(os.path.abspath(__file__))
def _default(rel):
    """./<rel> in the current directory, else next to this script"""
    return rel if os.path.exists(rel) else os.path.join(HERE, rel)
HARNESS = os.path.abspath(os.environ.get("RN_HARNESS", _default("rn-harness")))
ROCQ = os.path.abspath(os.environ.get("RN_ROCQ", _default("rocq")))
WORK = os.path.abspath(os.environ.get("RN_WORK", os.path.join("work", "simpleplan_difftest")))
os.makedirs(WORK, exist_ok=True)


class Harness:
    def __init__(self):
        self.p = subprocess.Popen([HARNESS], stdin=subprocess.PIPE, stdout=subprocess.PIPE, text=True)

    def call(self, o):
        self.p.stdin.write(json.dumps(o) + "\n"); self.p.stdin.flush()
        return json.loads(self.p.stdout.readline())


# ------------------------------------------------------------------ generator
PATTERNS = ["aa", "aba", "abab", "a", "foo", "old_name", "foo bar", "x.y", "é", "日本", "né", "ab\r", "\rq", "a\nb",
            "😀", "oo", "-->", "$1", "(a)", "\t", "ñandú", "zz"]
REPLS = ["R", "", "new_name", "aa", "aaaa", "ü", "日", "x\ny", "\r", "$0", "foo", "😀😀", " "]
WORDS = ["x", "bar", "let", "//", "#", "SKIP", "TODO", "naïve", "日本語", "€", "q", "fo", "ol", "ab", "b", "é", "😀", "_", "."]
SEPS = [" ", " ", "", "", "\t", ",", "\r", "(", ")", "=", ";"]
EXCL = [None, None, None, "SKIP", "TODO|FIXME", "^#", "^\\s*//", "é", "q$", "^$", "\r", "a"]
JUNK = [b"\xff", b"\xc0\xaf", b"\xe2\x82", b"\xf0\x9f\x98", b"\xed\xa0\x80", b"\x80", b"\xc3", b"\xf4\x90\x80\x80",
        b"\xe0\x9f\xbf", b"\xf0\x8f\xbf\xbf", b"\xc2", b"\xf5", b"\xe1\x80", b"\xfe\xff"]


def overlapish(rng, pat):
    k = rng.randrange(5)
    if k == 0: return pat * rng.choice([2, 3])
    if k == 1: return pat + pat[1:] + pat[1:]                    # "aba" -> "ababa", "aa" -> "aaa"
    if k == 2: return pat[:-1] + pat                             # prefix glued to a full occurrence
    if k == 3: return pat + pat[:max(1, len(pat) // 2)]
    return pat[0] * rng.randrange(1, 6) if pat else "a"


def gen_line(rng, pat):
    parts = []
    if rng.random() < 0.12: return b""
    if rng.random() < 0.1: parts.append(rng.choice(["SKIP ", "# ", "// ", "TODO "]))
    for _ in range(rng.choice([1, 1, 2, 3, 4, 6])):
        r = rng.random()
        if r < 0.45: parts.append(pat)
        elif r < 0.65: parts.append(overlapish(rng, pat))
        else: parts.append(rng.choice(WORDS))
        parts.append(rng.choice(SEPS))
    b = "".join(parts).encode("utf-8").replace(b"\n", b" ") if rng.random() < 0.8 else "".join(parts).encode("utf-8")
    return b


def gen_file(rng, pat, bad_utf8, binaryish):
    nl = rng.choice([0, 1, 1, 2, 3, 4, 6])
    out = b""
    if rng.random() < 0.08: out += b"\xef\xbb\xbf"
    if binaryish == "utf16": out += b"\xff\xfe"
    if binaryish == "pdf": out += b"%PDF"
    for i in range(nl):
        line = gen_line(rng, pat)
        if bad_utf8 and rng.random() < 0.6:
            k = rng.randrange(len(line) + 1)
            line = line[:k] + rng.choice(JUNK) + line[k:]        # may also cut a multi-byte char in two
        if binaryish == "nul" and rng.random() < 0.5:
            k = rng.randrange(len(line) + 1); line = line[:k] + b"\x00" + line[k:]
        last = i == nl - 1
        eol = rng.choice([b"\n", b"\n", b"\n", b"\r\n", b"\r\n", b"\r\r\n", b"\r"])
        if last and rng.random() < 0.4: eol = rng.choice([b"", b"", b"\r"])
        out += line + eol
    return out


def gen_case(rng, idx):
    pat = rng.choice(PATTERNS)
    r = rng.random()
    if r < 0.03: pat = ""
    rep = rng.choice(REPLS)
    bad = rng.random() < 0.15
    binaryish = rng.choice([None] * 16 + ["nul", "pdf", "utf16"])
    files = []
    names = ["a.txt", "b/c.txt", "d.md"]
    for k in range(rng.choice([1, 1, 1, 2, 3])):
        files.append((names[k], gen_file(rng, pat if pat else "a", bad, binaryish if k == 0 else None)))
    return {"id": idx, "pattern": pat, "replacement": rep, "files": files, "excl": rng.choice(EXCL)}


# ------------------------------------------------------------------ exclusion oracle
def candidate_lines(content):
    """every byte string the planner could conceivably ask the exclude regex about: the pieces of the decoded text
    between line breaks, with and without a trailing '\\r' (a superset; the model only asks about some of them)"""
    text = content.decode("utf-8", errors="replace")
    cands = set()
    for piece in text.split("\n"):
        cands.add(piece)
        if piece.endswith("\r"): cands.add(piece[:-1])
    return cands


def excluded_lines(cs):
    if cs["excl"] is None: return []
    rx = re.compile(cs["excl"])
    out = set()
    for _, c in cs["files"]:
        for l in candidate_lines(c):
            if rx.search(l): out.add(l.encode("utf-8"))
    return sorted(out)


# ------------------------------------------------------------------ Coq emission
def cq_bytes(b): return "[" + ";".join(str(x) for x in b) + "]"

PRELUDE = """From RN Require Import Model.SimplePlan.
Open Scope N_scope.
Set Printing Width 100000000.
Set Printing Depth 100000000.
Definition nn (n : nat) : list N := [N.of_nat n].
Definition oo (o : option bytes) : list N := match o with None => [0] | Some x => 1 :: x end.
Definition enc_hunk (h : fhunk) : list (list N) :=
  [nn (fh_line h); nn (fh_col h); nn (fh_char h); nn (fh_start h); nn (fh_end h); fh_content h; fh_replace h;
   oo (fh_before h); oo (fh_after h)].
Definition enc_file (r : list fhunk * bool) : list (list N) :=
  [if snd r then 1 else 0] :: flat_map enc_hunk (fst r).
Definition enc_plan (r : option (list (list fhunk) * sstats)) : list (list N) :=
  match r with
  | None => [[0]]
  | Some (_, s) => [[1]; nn (st_files_scanned s); nn (st_total s); nn (st_files_with s)] ++
                   flat_map (fun kv => [fst kv; nn (snd kv)]) (st_by_variant s)
  end.
Definition memb (l : bytes) (ls : list bytes) : bool := existsb (beq l) ls.
"""


def run_coq(name, body):
    path = os.path.join(WORK, name + ".v")
    with open(path, "w") as f: f.write(PRELUDE + body)
    t0 = time.time()
    r = subprocess.run(["timeout", "600", "coqc", "-Q", ROCQ, "RN", "-w", "-notation-overridden", path],
                       capture_output=True, text=True, cwd=WORK)
    if r.returncode != 0:
        print(r.stdout[-2000:]); print(r.stderr[-4000:]); raise SystemExit("coqc failed on " + path)
    out = re.sub(r"\s+", " ", r.stdout)
    vals = [json.loads(m.group(1).replace(";", ",").replace("%N", ""))
            for m in re.finditer(r"= (\[.*?\]) : list \(list N\)", out)]
    return vals, time.time() - t0


def dec_file(v):
    has = bool(v[0][0]); hs = []
    body = v[1:]
    assert len(body) % 9 == 0
    for i in range(0, len(body), 9):
        f = body[i:i + 9]
        opt = lambda x: None if x[0] == 0 else bytes(x[1:])
        hs.append(dict(line=f[0][0], byte_offset=f[1][0], char_offset=f[2][0], start=f[3][0], end=f[4][0],
                       content=bytes(f[5]), replace=bytes(f[6]), line_before=opt(f[7]), line_after=opt(f[8])))
    return has, hs


def main():
    seed = int(sys.argv[1]) if len(sys.argv) > 1 else 20261001
    n = int(sys.argv[2]) if len(sys.argv) > 2 else 150
    rng = random.Random(seed)
    H = Harness()
    cases = [gen_case(rng, i) for i in range(n)]
    t0 = time.time()
    # ---- real planner
    for cs in cases:
        tree = [{"p": p, "k": "f", "c": c.hex(), "m": 420} for p, c in cs["files"]]
        req = {"op": "simple_plan_tree", "tree": tree, "pattern": cs["pattern"].encode().hex(),
               "replacement": cs["replacement"].encode().hex(), "regex": False}
        if cs["excl"] is not None: req["exclude_matching_lines"] = cs["excl"]
        cs["real"] = H.call(req)
    t_real = time.time() - t0
    # ---- model
    body = ""
    for cs in cases:
        i = cs["id"]
        body += "Definition ex_%d : bytes -> bool := fun l => memb l [%s].\n" % (i, ";".join(cq_bytes(x) for x in excluded_lines(cs)))
        pat = cq_bytes(cs["pattern"].encode()); rep = cq_bytes(cs["replacement"].encode())
        for _, c in cs["files"]:
            body += "Eval vm_compute in enc_file (process_file_content ex_%d %s %s false %s).\n" % (i, pat, rep, cq_bytes(c))
        body += "Eval vm_compute in enc_plan (create_simple_plan ex_%d %s %s false [%s]).\n" % (
            i, pat, rep, ";".join(cq_bytes(c) for _, c in cs["files"]))
    vals, t_coq = run_coq("cases_%d" % seed, body)
    assert len(vals) == sum(len(cs["files"]) + 1 for cs in cases), (len(vals), "results expected", sum(len(cs["files"]) + 1 for cs in cases))
    # ---- compare
    bad = []; compared = 0; feats = Counter(); k = 0
    for cs in cases:
        mfiles = [dec_file(v) for v in vals[k:k + len(cs["files"])]]; k += len(cs["files"])
        mplan = vals[k]; k += 1
        real = cs["real"]; problems = []
        pat_b = cs["pattern"].encode()
        if cs["pattern"] == "":
            feats["empty pattern"] += 1
            if not (real.get("ok") is False and "pattern is empty" in real.get("msg", "") and mplan == [[0]]):
                problems.append(("empty pattern", mplan, real))
        elif not real.get("ok"):
            problems.append(("real planner failed", real))
        else:
            plan = real["plan"]
            by_file = {}
            for h in plan["matches"]: by_file.setdefault(h["file"], []).append(h)
            for (name, content), (mhas, mh) in zip(cs["files"], mfiles):
                rh = [dict(line=h["line"], byte_offset=h["byte_offset"], char_offset=h["char_offset"], start=h["start"],
                           end=h["end"], content=h["content"].encode(), replace=h.get("replace", "").encode(),
                           line_before=None if h.get("line_before") is None else h["line_before"].encode(),
                           line_after=None if h.get("line_after") is None else h["line_after"].encode())
                      for h in by_file.pop(name, [])]
                rv = [h["variant"].encode() for h in plan["matches"] if h["file"] == name]
                if any(v != pat_b for v in rv): problems.append(("variant", name, rv))
                compared += len(rh)
                if rh != mh: problems.append(("hunks of " + name, mh, rh))
                if mhas != bool(rh): problems.append(("has_matches of " + name, mhas, len(rh)))
                # features
                try: content.decode("utf-8")
                except UnicodeDecodeError: feats["invalid UTF-8 file"] += 1
                if b"\r\n" in content: feats["CRLF"] += 1
                if re.search(rb"\r(?!\n)", content): feats["lone CR"] += 1
                if content and not content.endswith(b"\n"): feats["no final newline"] += 1
                if b"\n\n" in content or content.startswith(b"\n"): feats["empty line"] += 1
                if content.startswith(b"\xef\xbb\xbf"): feats["BOM"] += 1
                if b"\x00" in content or content.startswith(b"%PDF"): feats["binary-looking"] += 1
                if any(ord(ch) > 127 for ch in cs["pattern"]): feats["non-ASCII pattern"] += 1
                if len(rh) != len(set(h["line"] for h in rh)): feats["several hunks on a line"] += 1
            if by_file: problems.append(("real hunks in unknown files", list(by_file)))
            st = plan["stats"]
            rplan = [[1], [st["files_scanned"]], [st["total_matches"]], [st["files_with_matches"]]]
            for kk, vv in st["matches_by_variant"].items(): rplan += [list(kk.encode()), [vv]]
            if rplan != mplan: problems.append(("stats", mplan, rplan))
            if cs["excl"] is not None: feats["exclude option"] += 1
            if excluded_lines(cs): feats["some line excluded"] += 1
        if problems: bad.append((cs, problems))
    print("features:", dict(feats))
    print("real planner %.1fs, coqc %.1fs" % (t_real, t_coq))
    print("compared %d hunks in %d cases" % (compared, len(cases)))
    print("DISAGREEMENTS: %d" % len(bad))
    for cs, problems in bad[:6]:
        print("---- case", cs["id"], "pattern", repr(cs["pattern"]), "replacement", repr(cs["replacement"]), "exclude", repr(cs["excl"]))
        for name, c in cs["files"]: print("  file", name, repr(c))
        for pr in problems[:4]:
            print("  *", pr[0])
            if len(pr) == 3 and isinstance(pr[1], list) and isinstance(pr[2], list) and pr[0].startswith("hunks"):
                for a, b in zip(pr[1], pr[2]):
                    if a != b: print("     model:", a); print("     real: ", b)
                if len(pr[1]) != len(pr[2]): print("     model has %d hunks, real has %d" % (len(pr[1]), len(pr[2])))
            else:
                print("    ", pr[1:])
    return 1 if bad else 0


if __name__ == "__main__":
    sys.exit(main())
