#!/usr/bin/env python3
"""difftest_tail.py — differential test of Model/HunkTail.v (hunk_of_match) against the real
scanner.rs::generate_hunks.

For generated single-file trees:
  real hunks      = harness op scan_tree (scan_repository_multi end to end, styles passed explicitly)
  real pre-hunk   = harness op enhanced_matches (the matches BEFORE generate_hunks + the variant table)
  model           = hunk_pre / hunk_of_match evaluated with `Eval vm_compute` in generated cases_*.v
Oracles are instantiated from the real code:
  resolve         harness op resolve (AmbiguityResolver), asked for every exact match
  coercion_fires  harness op apply_coercion on the context the MODEL computed (phase 1: hunk_pre)
  coerce_variant  scanner.rs::apply_coercion_to_variant has no harness op: its detect_style is the
                  harness op coercion_detect; tokenize/render_tokens are ported below (ASCII)
  compound_note   detect_compound_coercion: two coercion_detect calls + the match of lines 985-1007
  line_excluded   python `re` on every line of the file (patterns are plain literals/alternations)
The harness binary is $RN_HARNESS (default ./rn-harness).  The model follows the FIXED scanner (context at
the match's own column); the original ./rn-harness predates that fix and disagrees on the 'shadow' kinds.
Compared per hunk: line, column, start, end, variant, content, replace, line_before, line_after,
coercion note flag; and per match whether it is filtered.
"""
import json, os, random, re, subprocess, sys, time
from collections import Counter

ROOT = os.path.dirname(os.path.abspath(__file__))
ROCQ = os.environ.get("RN_ROCQ", os.path.join(os.path.dirname(ROOT), "rocq"))
WORK = os.environ.get("RN_WORK", os.path.join(os.path.dirname(ROOT), "build", "hunktail_work"))
os.makedirs(WORK, exist_ok=True)

ALL = ["Snake", "Kebab", "Camel", "Pascal", "ScreamingSnake", "Title", "Train", "ScreamingTrain",
       "Dot", "LowerFlat", "UpperFlat", "Sentence", "LowerSentence", "UpperSentence"]
ALL_STYLES_ORDER = ["Snake", "Kebab", "Camel", "Pascal", "ScreamingSnake", "Train", "ScreamingTrain", "Title",
                    "Dot", "LowerFlat", "UpperFlat", "Sentence", "LowerSentence", "UpperSentence"]
CLI_DEFAULT = ["Snake", "Kebab", "Camel", "Pascal", "ScreamingSnake", "Train", "ScreamingTrain", "Title",
               "Sentence", "LowerSentence", "UpperSentence"]

# ------------------------------------------------------------------ harness
class Harness:
    def __init__(self):
        self.p = subprocess.Popen([os.environ.get("RN_HARNESS", os.path.join(ROOT, "rn-harness"))], stdin=subprocess.PIPE,
                                  stdout=subprocess.PIPE, text=True)
    def call(self, o):
        self.p.stdin.write(json.dumps(o) + "\n"); self.p.stdin.flush()
        return json.loads(self.p.stdout.readline())

H = Harness()
def hx(s): return s.encode("latin-1").hex()
def unhx(h): return bytes.fromhex(h).decode("latin-1")

_detect_cache = {}
def coercion_detect(s):
    if s not in _detect_cache:
        _detect_cache[s] = H.call({"op": "coercion_detect", "s": hx(s)})["ok"]
    return _detect_cache[s]

def real_apply_coercion(container, old, new):
    r = H.call({"op": "apply_coercion", "container": hx(container), "old": hx(old), "new": hx(new)})["ok"]
    return r != "none"

# ------------------------------------------------------------------ port: coercion.rs tokenize/render_tokens (ASCII)
def co_tokenize(s):
    toks = []; cur = ""; prev_lower = prev_upper = False; cons = 0
    for ch in s:
        if ch in "-_. ":
            if cur: toks.append(cur.lower()); cur = ""
            cons = 0; prev_lower = prev_upper = False
        elif ch.isupper():
            if prev_lower:
                if cur: toks.append(cur.lower()); cur = ""
            cur += ch; cons += 1; prev_upper = True; prev_lower = False
        elif ch.islower():
            if prev_upper and cons > 1:
                last = cur[-1]; cur = cur[:-1]
                if cur: toks.append(cur.lower())
                cur = last
            cur += ch; cons = 0; prev_lower = True; prev_upper = False
        elif ch.isalnum():
            cur += ch; cons = 0; prev_lower = prev_upper = False
        else:
            if cur: toks.append(cur.lower()); cur = ""
            cons = 0; prev_lower = prev_upper = False
    if cur: toks.append(cur.lower())
    return toks

def cap(w): return w[:1].upper() + w[1:]
def co_render(t, st):
    if not t: return ""
    if st in ("Snake", "Mixed"): return "_".join(t)
    if st == "Kebab": return "-".join(t)
    if st == "Camel": return t[0] + "".join(cap(w) for w in t[1:])
    if st == "Pascal": return "".join(cap(w) for w in t)
    if st == "ScreamingSnake": return "_".join(w.upper() for w in t)
    if st == "Title": return " ".join(cap(w) for w in t)
    if st == "Train": return "-".join(cap(w) for w in t)
    if st == "ScreamingTrain": return "-".join(w.upper() for w in t)
    if st == "Dot": return ".".join(t)
    if st == "LowerFlat": return "".join(t)
    if st == "UpperFlat": return "".join(w.upper() for w in t)
    if st == "Sentence": return " ".join([cap(t[0])] + t[1:])
    if st == "LowerSentence": return " ".join(t)
    if st == "UpperSentence": return " ".join(w.upper() for w in t)
    raise ValueError(st)

def strip_us(s):
    if s.startswith("__"): return s[2:]
    if s.startswith("_"): return s[1:]
    return s

def real_coerce_variant(container, old, new):
    st = coercion_detect(strip_us(container))
    if st in ("Mixed", "Dot"): return None
    return co_render(co_tokenize(new), st)

def real_compound_note(ctx, content, after):
    a = coercion_detect(ctx); b = coercion_detect(after)
    return a == b and a in ("Snake", "Kebab", "Pascal", "Camel", "ScreamingSnake", "Title")

# scan_repository_multi lines 305-337 and 494-514: the lines on which a token of the search term occurs
# (original / lower / upper / capitalised spelling, tokens of >= 3 bytes) are passed to
# find_enhanced_matches as additional candidate lines
def token_lines(search, content):
    toks = [unhx(t) for t in H.call({"op": "tokens", "s": hx(search)})["ok"]]
    pats = set()
    for t in toks:
        t = t.strip()
        if len(t) < 3: continue
        pats |= {t, t.lower(), t.upper(), t[:1].upper() + t[1:].lower()}
    hits = set()
    for pt in pats:
        for m in re.finditer(re.escape(pt), content):
            hits.add(content.count("\n", 0, m.start()) + 1)
    return sorted(hits)

# ------------------------------------------------------------------ generator
PAIRS = [("old_name", "new_name"), ("oldName", "brandNewThing"), ("user_id", "account_key"),
         ("foo", "bar"), ("foo", "bar_baz"), ("config", "app_settings"), ("old-name", "fresh-title"),
         ("OldName", "NewName"), ("API_CLIENT", "http_handler"), ("getUser", "fetchAccount"),
         ("foo_bar", "baz"), ("widget", "gadget_item"), ("deploy_request", "release_ticket"),
         ("tool", "kit"), ("Old Name", "New Title"), ("old_names", "new_titles")]

def words_of(term):
    s = re.sub(r"([a-z0-9])([A-Z])", r"\1 \2", term)
    return [w.lower() for w in re.split(r"[-_ .]+", s) if w]

def py_style(ws, st): return co_render(ws, st)

DELIMS = [" ", " ", " ", '"', "'", "(", ")", "[", "]", "{", "}", "/", ":", ",", ";", "=", "<", ">", "\t",
          ".", "!", "#", "::", " = ", ", ", "", "@", "$", "&"]
AFFIX = ["get", "set", "my", "impl", "x", "v2", "handler", "the", "ID", "Api", "FOO", "is"]

def gen_item(rng, ws):
    st = rng.choice(ALL)
    occ = py_style(ws, st)
    kind = rng.choice(["standalone"] * 5 + ["prefix", "suffix", "both", "us", "uus", "dotfile", "dotted",
                                             "digit", "hy_suffix", "mixed", "repeat", "shadow", "shadow2",
                                             "flatglue"])
    a = rng.choice(AFFIX); b = rng.choice(AFFIX)
    sep = rng.choice(["_", "-", "", ".", " "])
    if kind == "standalone": return kind, st, occ
    if kind == "prefix":
        return kind, st, (a + sep + (cap(occ) if sep == "" and rng.random() < .7 else occ))
    if kind == "suffix":
        return kind, st, occ + sep + (cap(b) if sep == "" and rng.random() < .7 else b)
    if kind == "both":
        return kind, st, a + sep + occ + sep + b
    if kind == "us": return kind, st, "_" + occ
    if kind == "uus": return kind, st, "__" + occ
    if kind == "dotfile": return kind, st, occ + rng.choice([".rs", ".txt", ".json", ".cfg", ".old"])
    if kind == "dotted": return kind, st, a + "." + occ + "." + b
    if kind == "digit": return kind, st, occ + rng.choice(["2", "_2", "-2"])
    if kind == "hy_suffix": return kind, st, occ + "-" + rng.choice(["specific", "based", "Like"])
    if kind == "mixed": return kind, st, a + "_" + occ + "-" + b
    if kind == "repeat": return kind, st, occ + rng.choice(DELIMS[:20]) + occ
    if kind == "shadow":  # the same text first occurs inside a longer identifier on the line
        return kind, st, a + rng.choice(["_", "-", ""]) + occ + " " + occ
    if kind == "shadow2":
        return kind, st, occ + rng.choice(["_", "-", ""]) + b + rng.choice([" ", "(", ","]) + occ
    if kind == "flatglue": return kind, st, a + occ + b
    raise ValueError(kind)

def gen_case(rng, idx):
    search, replace = rng.choice(PAIRS)
    ws = words_of(search)
    nlines = rng.choice([1, 1, 2, 3, 4, 6])
    lines = []; kinds = []
    for _ in range(nlines):
        if rng.random() < 0.12:
            lines.append(rng.choice(["", "// nothing here", "   ", "SKIP nothing", "x = 1;"])); continue
        parts = [rng.choice(["", "", "  ", "let ", "// ", "SKIP ", "# TODO "])]
        for _ in range(rng.choice([1, 1, 2, 3])):
            k, st, text = gen_item(rng, ws)
            kinds.append((k, st))
            parts.append(rng.choice(DELIMS)); parts.append(text); parts.append(rng.choice(DELIMS))
        lines.append("".join(parts))
    eol = rng.choice(["\n", "\n", "\n", "\r\n"])
    content = eol.join(lines) + (eol if rng.random() < 0.7 else "")
    r = rng.random()
    if r < 0.55: styles = list(CLI_DEFAULT)
    elif r < 0.7: styles = list(ALL)
    else:
        styles = [s for s in ALL if rng.random() < 0.5] or ["Snake"]
    opts = {"styles": styles, "coerce": rng.choice(["auto", "auto", "auto", "off"]),
            "enable_plural_variants": rng.random() < 0.15}
    if rng.random() < 0.2:
        opts["exclude_matching_lines"] = rng.choice(["SKIP", "TODO|FIXME", "^\\s*//", "^let ", "nothing"])
    if rng.random() < 0.25:
        cand = [py_style(ws, st) for st in ALL] + [py_style(words_of(replace), st) for st in ALL]
        opts["exclude_match"] = rng.sample(cand, rng.choice([1, 2, 4]))
        opts["_excl_from_matches"] = rng.random() < 0.6    # add a real variant/text after phase 0
    if rng.random() < 0.15:
        opts["ignore_ambiguous"] = True
    return {"id": idx, "search": search, "replace": replace, "content": content, "options": opts, "kinds": kinds}

# ------------------------------------------------------------------ Coq emission
def cq_bytes(s): return "[" + ";".join(str(ord(ch)) for ch in s) + "]"
def cq_bool(b): return "true" if b else "false"
def cq_opt_bytes(o): return "None" if o is None else "(Some %s)" % cq_bytes(o)

PRELUDE = """From RN Require Import Base.Bytes Model.StyleDef Model.CaseModel Model.Constraints.
From RN Require Import Gen.GenAcronyms Gen.GenStyles Model.Enhanced Model.HunkTail Proofs.HunkTailP2.
Open Scope N_scope.
Set Printing Width 100000000.
Set Printing Depth 100000000.
Definition nn (n : nat) : list N := [N.of_nat n].
Definition bb (b : bool) : list N := [if b then 1 else 0].
Definition enc_pre (p : option hpre) : list (list N) :=
  match p with
  | None => []
  | Some p => [bb (p_compound p); p_replace p; match p_ctx p with None => [0] | Some x => 1 :: x end; p_line p]
  end.
Definition enc_hunk (h : option thunk) : list (list N) :=
  match h with
  | None => []
  | Some h => [nn (t_line h); nn (t_col h); nn (t_start h); nn (t_end h); t_variant h; t_content h;
               t_replace h; t_before h; t_after h; bb (t_note h)]
  end.
"""

def run_coq(name, body):
    path = os.path.join(WORK, name + ".v")
    with open(path, "w") as f: f.write(PRELUDE + body)
    t0 = time.time()
    r = subprocess.run(["timeout", "900", "coqc", "-Q", ROCQ, "RN", "-w", "-notation-overridden", path],
                       capture_output=True, text=True, cwd=WORK)
    if r.returncode != 0:
        print(r.stdout[-2000:]); print(r.stderr[-4000:]); raise SystemExit("coqc failed on " + path)
    out = re.sub(r"\s+", " ", r.stdout)
    vals = []
    for m in re.finditer(r"= (\[.*?\]) : list \(list N\)", out):
        vals.append(json.loads(m.group(1).replace(";", ",").replace("%N", "")))
    return vals, time.time() - t0

def case_defs(cs):
    i = cs["id"]; o = cs["options"]
    s = "Definition c_%d : bytes := %s.\n" % (i, cq_bytes(cs["content"]))
    s += "Definition vm_%d : amap := [%s].\n" % (i, ";".join("(%s,%s)" % (cq_bytes(k), cq_bytes(v)) for k, v in cs["table"]))
    s += "Definition o_%d : hopts := {| o_ignore_ambiguous := %s; o_exclude_match := [%s]; o_coerce_auto := %s |}.\n" % (
        i, cq_bool(o.get("ignore_ambiguous", False)), ";".join(cq_bytes(x) for x in o.get("exclude_match", [])),
        cq_bool(o["coerce"] == "auto"))
    s += "Definition ex_%d : bytes -> bool := fun l => mem l [%s].\n" % (i, ";".join(cq_bytes(x) for x in cs["excluded_lines"]))
    return s

def cq_match(m): return "(mk_ematch %d %d %d %d %s %s)" % (m[0], m[1], m[2], m[3], cq_bytes(m[4]), cq_bytes(m[5]))

def dec(l): return "".join(chr(x) for x in l)

# ------------------------------------------------------------------ main
def main():
    seed = int(sys.argv[1]) if len(sys.argv) > 1 else 20261001
    target = int(sys.argv[2]) if len(sys.argv) > 2 else 1800
    rng = random.Random(seed)
    cases = []; nh = 0; idx = 0; skipped = Counter()
    t_start = time.time()
    while nh < target:
        cs = gen_case(rng, idx); idx += 1
        o = cs["options"]
        content = cs["content"]
        pl = o["enable_plural_variants"]
        req = {"op": "enhanced_matches", "content": hx(content), "search": hx(cs["search"]),
               "replace": hx(cs["replace"]), "styles": o["styles"], "plurals": pl}
        tl = token_lines(cs["search"], content)
        if tl: req["lines"] = tl
        em = H.call(req)
        if "ok" not in em: skipped["enhanced_matches error"] += 1; continue
        cs["table"] = [(unhx(k), unhx(v)) for k, v in em["table"]]
        cs["matches"] = [(m[0], m[1], m[2], m[3], unhx(m[4]), unhx(m[5])) for m in em["ok"]]
        if o.pop("_excl_from_matches", False) and cs["matches"]:
            m = rng.choice(cs["matches"]); o["exclude_match"].append(rng.choice([m[4], m[5]]))
        if o.get("ignore_ambiguous"):
            # scan_repository_multi prunes the TABLE (retain_unambiguous) before matching; the pre-hunk
            # matches of the harness op come from the unpruned table, so only keep the flag when the
            # pruning is a no-op
            amb = any(H.call({"op": "constraints", "s": hx(k), "styles": ALL_STYLES_ORDER})["ok"]["ambiguous"]
                      for k, _ in cs["table"])
            amb2 = any(H.call({"op": "constraints", "s": hx(m[4]), "styles": o["styles"]})["ok"]["ambiguous"]
                       for m in cs["matches"])   # line 559: retain(!is_ambiguous(variant, styles_slice))
            if amb or amb2: del o["ignore_ambiguous"]; skipped["ignore_ambiguous dropped (table/match pruning)"] += 1
        ropts = {k: v for k, v in o.items()}
        real = H.call({"op": "scan_tree", "tree": [{"p": "a.txt", "k": "f", "c": hx(content), "m": 420}],
                       "search": hx(cs["search"]), "replace": hx(cs["replace"]), "options": ropts})
        if not real.get("ok"): skipped["scan_tree error"] += 1; continue
        cs["real"] = real["plan"]["matches"]
        pat = o.get("exclude_matching_lines")
        lines = re.findall(r"[^\n]*\n|[^\n]+", content)
        cs["lines"] = lines
        cs["excluded_lines"] = sorted(set(l for l in lines if pat and re.search(pat, l)))
        # resolver oracle: asked for every exact match (the model only consults it when ambiguous)
        keys = set(k for k, _ in cs["table"])
        cs["resolve"] = []
        for m in cs["matches"]:
            st = "Snake"
            if m[4] in keys and m[0] - 1 < len(lines):
                r = H.call({"op": "resolve", "matched": hx(m[4]), "replacement": hx(cs["replace"]), "file": hx("a.txt"),
                            "content": hx(content), "line": hx(lines[m[0] - 1]), "column": m[1]})
                st = r["ok"]["style"]
            cs["resolve"].append(st)
        cases.append(cs); nh += len(cs["real"])
    print("generated %d cases, %d real hunks, %d pre-hunk matches (%.1fs)" % (
        len(cases), nh, sum(len(c["matches"]) for c in cases), time.time() - t_start))

    # ---- phase 1: hunk_pre (the context the model computes)
    CH = 60
    coq_time = 0.0
    for b in range(0, len(cases), CH):
        chunk = cases[b:b + CH]
        body = ""
        for cs in chunk:
            i = cs["id"]; body += case_defs(cs)
            for j, m in enumerate(cs["matches"]):
                body += ("Eval vm_compute in enc_pre (hunk_pre gen_acronyms (fun _ _ _ _ _ => %s) ex_%d o_%d vm_%d c_%d %s %s).\n"
                         % (cs["resolve"][j], i, i, i, i, cq_bytes(cs["replace"]), cq_match(m)))
        vals, dt = run_coq("pre_%d" % b, body); coq_time += dt
        k = 0
        for cs in chunk:
            cs["pre"] = vals[k:k + len(cs["matches"])]; k += len(cs["matches"])
        assert k == len(vals), (k, len(vals))
    # ---- oracle answers from the real code
    n_fire = n_note = n_ctx = 0
    for cs in cases:
        cs["orc"] = []
        for m, p in zip(cs["matches"], cs["pre"]):
            fires, cv, note = False, None, False
            if p and p[2][0] == 1:
                ctx = dec(p[2][1:]); r0 = dec(p[1]); n_ctx += 1
                if p[0] == [1]:
                    note = real_compound_note(ctx, m[4], r0); n_note += note
                else:
                    fires = real_apply_coercion(ctx, m[4], r0)
                    cv = real_coerce_variant(ctx, m[4], r0)
                    n_fire += fires
            cs["orc"].append((fires, cv, note))
    # ---- phase 2: hunk_of_match
    for b in range(0, len(cases), CH):
        chunk = cases[b:b + CH]
        body = ""
        for cs in chunk:
            i = cs["id"]; body += case_defs(cs)
            for j, m in enumerate(cs["matches"]):
                fires, cv, note = cs["orc"][j]
                if os.environ.get("MODEL_ORACLES"):
                    # the coercion oracles are the MODEL of coercion.rs (Proofs/HunkTailP2.v::hunk_of_match_m)
                    body += ("Eval vm_compute in enc_hunk (hunk_of_match_m gen_acronyms (fun _ _ _ _ _ => %s) ex_%d o_%d vm_%d c_%d %s %s).\n"
                             % (cs["resolve"][j], i, i, i, i, cq_bytes(cs["replace"]), cq_match(m)))
                else:
                    body += ("Eval vm_compute in enc_hunk (hunk_of_match gen_acronyms (fun _ _ _ _ _ => %s) (fun _ _ _ => %s) "
                         "(fun _ _ _ => %s) (fun _ _ _ => %s) ex_%d o_%d vm_%d c_%d %s %s).\n"
                         % (cs["resolve"][j], cq_bool(fires), cq_opt_bytes(cv), cq_bool(note), i, i, i, i,
                            cq_bytes(cs["replace"]), cq_match(m)))
        vals, dt = run_coq("post_%d" % b, body); coq_time += dt
        k = 0
        for cs in chunk:
            cs["model"] = vals[k:k + len(cs["matches"])]; k += len(cs["matches"])
        assert k == len(vals)
    # ---- compare
    bad = []; compared = 0; filtered = 0; unpaired_real = 0
    dist = Counter(); dist_style = Counter(); dist_opt = Counter(); dist_branch = Counter()
    for cs in cases:
        mh = [v for v in cs["model"] if v]
        filtered += len(cs["model"]) - len(mh)
        model = [dict(line=v[0][0], byte_offset=v[1][0], start=v[2][0], end=v[3][0], variant=dec(v[4]), content=dec(v[5]),
                      replace=dec(v[6]), line_before=dec(v[7]), line_after=dec(v[8]), note=bool(v[9][0])) for v in mh]
        real = [dict(line=h["line"], byte_offset=h["byte_offset"], start=h["start"], end=h["end"], variant=h["variant"],
                     content=h["content"], replace=h["replace"], line_before=h["line_before"], line_after=h["line_after"],
                     note=("coercion_applied" in h and h["coercion_applied"] is not None)) for h in cs["real"]]
        o = cs["options"]
        for k_, st in cs["kinds"]: dist[k_] += 1; dist_style[st] += 1
        dist_opt["coerce=" + o["coerce"]] += 1
        for f in ("exclude_matching_lines", "exclude_match", "ignore_ambiguous"):
            if o.get(f): dist_opt[f] += 1
        if o["enable_plural_variants"]: dist_opt["plurals"] += 1
        dist_opt["styles=" + ("cli" if o["styles"] == CLI_DEFAULT else "all" if o["styles"] == ALL else "subset")] += 1
        keys = set(k for k, _ in cs["table"])
        for m, p, orc in zip(cs["matches"], cs["pre"], cs["orc"]):
            if not p: dist_branch["filtered"] += 1
            elif p[0] == [1]: dist_branch["compound" + ("+note" if orc[2] else "")] += 1
            else:
                amb = H.call({"op": "constraints", "s": hx(m[4]), "styles": ALL_STYLES_ORDER})["ok"]["ambiguous"]
                dist_branch[("ambiguous exact" if amb else "exact") + ("+coerced" if orc[0] and orc[1] is not None else "")] += 1
        # the pre-hunk matches come from the harness op, the real hunks from the end-to-end scan: pair them by
        # span; a real hunk without a pre-hunk match (or vice versa) is an INPUT mismatch, counted separately
        spans = set((m[2], m[3], m[4]) for m in cs["matches"])
        rspans = set((h["start"], h["end"], h["variant"]) for h in real)
        real_p = [h for h in real if (h["start"], h["end"], h["variant"]) in spans]
        unpaired_real += len(real) - len(real_p)
        # a model hunk whose match the real scan did not have at all: only if the real scan has no hunk there AND the
        # model did not filter it -> still a disagreement unless the span is absent from the real plan for input reasons
        if model != real_p:
            bad.append((cs, model, real_p))
        compared += len(real_p)
    print("compared %d real hunks in %d cases; model filtered %d matches; coq time %.1fs" % (compared, len(cases), filtered, coq_time))
    print("contexts computed by the model and sent to the real apply_coercion: %d (fired %d, compound notes %d)" % (n_ctx, n_fire, n_note))
    print("item kinds:", dict(dist)); print("item styles:", dict(dist_style)); print("options:", dict(dist_opt))
    print("match branches:", dict(dist_branch)); print("skipped/adjusted:", dict(skipped))
    print("search terms:", dict(Counter(c["search"] for c in cases)))
    print("real hunks without a pre-hunk match from the harness op (not compared): %d" % unpaired_real)
    print("DISAGREEMENTS: %d" % len(bad))
    for cs, model, real in bad[:8]:
        print("---- case", cs["id"], repr(cs["search"]), "->", repr(cs["replace"]), cs["options"])
        print("content:", repr(cs["content"]))
        print("matches:", cs["matches"]); print("orc:", cs["orc"]); print("resolve:", cs["resolve"])
        for a, b_ in zip(model, real):
            if a != b_: print(" model:", a); print(" real: ", b_)
        if len(model) != len(real): print(" lengths", len(model), len(real)); print(" model", model); print(" real", real)
    return 1 if bad else 0

if __name__ == "__main__":
    sys.exit(main())
