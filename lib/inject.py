"""strace-based recording and injection (errors, SIGKILL, signals) at the mutating system calls of a
renamify command. Counters of strace's `when=` are per thread and per syscall, so a recording run
fixes (syscall, ordinal) pairs for the main thread first."""
import os
import re
import subprocess
from pathlib import Path

import cli
import core

TRACE_SET = ("openat,open,creat,write,pwrite64,writev,rename,renameat,renameat2,unlink,unlinkat,mkdir,mkdirat,"
             "rmdir,chmod,fchmod,fchmodat,symlink,symlinkat,link,linkat,truncate,ftruncate")

_ESC = re.compile(r'\\(x[0-9a-fA-F]{2}|[0-7]{1,3}|.)')


def c_unescape(s):
    out = bytearray()
    i = 0
    b = s.encode("latin1", "replace")
    while i < len(b):
        c = b[i]
        if c == 0x5c and i + 1 < len(b):
            n = b[i + 1:i + 2]
            if n == b"x":
                out.append(int(b[i + 2:i + 4], 16))
                i += 4
                continue
            m = re.match(rb"[0-7]{1,3}", b[i + 1:i + 4])
            if m:
                out.append(int(m.group(0), 8) & 255)
                i += 1 + len(m.group(0))
                continue
            out.append({b"n": 10, b"t": 9, b"r": 13, b'"': 34, b"\\": 92}.get(n, n[0]))
            i += 2
            continue
        out.append(c)
        i += 1
    return bytes(out).decode("utf-8", "surrogateescape")


LINE = re.compile(r"^(\d+)\s+(\w+)\((.*)\)\s+=\s+(-?\d+|\?)(.*)$")
STR = re.compile(r'"((?:[^"\\]|\\.)*)"')
FDPATH = re.compile(r"^(\d+)<([^>]*)>")


class Ev:
    __slots__ = ("pid", "sys", "args", "ret", "paths", "fdpath", "ordinal", "raw", "mutating", "cls", "flags")

    def __repr__(self):
        return f"Ev({self.sys}#{self.ordinal} {self.paths or self.fdpath} -> {self.ret} {self.cls})"


def parse_trace(text, root):
    """Returns (main_pid, events of all threads). ordinal = per (pid, syscall) 1-based count."""
    evs = []
    counts = {}
    main = None
    root = str(root)
    for ln in text.splitlines():
        if "<unfinished" in ln or "resumed>" in ln:
            # rare with the syscalls traced; count the unfinished half as the call
            m = re.match(r"^(\d+)\s+(\w+)\((.*)<unfinished", ln)
            if not m:
                continue
            pid, sysn, args, ret, rest = m.group(1), m.group(2), m.group(3), "?", ""
        else:
            m = LINE.match(ln)
            if not m:
                continue
            pid, sysn, args, ret, rest = m.groups()
        if main is None:
            main = pid
        counts[(pid, sysn)] = counts.get((pid, sysn), 0) + 1
        e = Ev()
        e.pid, e.sys, e.args, e.ret, e.raw = pid, sysn, args, ret, ln
        e.ordinal = counts[(pid, sysn)]
        e.paths = [c_unescape(s) for s in STR.findall(args)] if sysn not in ("write", "pwrite64", "writev") else []
        fm = FDPATH.match(args)
        e.fdpath = fm.group(2) if fm else None
        e.flags = args
        e.mutating, e.cls = classify(e, root)
        evs.append(e)
    return main, evs


def rel(p, root):
    if p is None:
        return None
    if p.startswith(root + "/"):
        return p[len(root) + 1:]
    if p == root:
        return ""
    return p


def classify(e, root):
    """(is_mutating, class) with class in user / state / lock / log / probe / other"""
    s = e.sys
    target = None
    if s in ("openat", "open", "creat"):
        if not re.search(r"O_WRONLY|O_RDWR|O_CREAT|O_TRUNC|O_APPEND", e.args) and s != "creat":
            return False, "read"
        target = e.paths[0] if e.paths else None
    elif s in ("write", "pwrite64", "writev", "ftruncate", "fchmod"):
        target = e.fdpath
        if target is None or not target.startswith("/") or target.startswith("/dev/") or "pipe:" in target or "socket:" in target:
            return False, "stdio"
    elif s in ("rename", "renameat", "renameat2", "link", "linkat", "symlink", "symlinkat"):
        target = e.paths[-1] if e.paths else None
    else:
        target = e.paths[0] if e.paths else None
    if target is None:
        return False, "other"
    if not target.startswith("/"):
        base = root
        # *at() calls with a directory fd: the path is relative to that directory
        if s.endswith("at") and e.fdpath and e.fdpath.startswith("/") and s not in ("write",):
            base = e.fdpath
        target = os.path.normpath(os.path.join(base, target))
    r = rel(target, root)
    if r is None or r.startswith("/"):
        return False, "outside"
    if r.startswith(".renamify/logs") or r == ".renamify/apply.log":
        return True, "log"
    if r == ".renamify/renamify.lock":
        return True, "lock"
    if r == ".renamify" or r.startswith(".renamify/"):
        return True, "state"
    if re.match(r"^\.tmp[A-Za-z0-9]{6}(/|$)", r):
        return True, "probe"
    return True, "user"


def strace_run(sb, args, inject=None, env=None, timeout=60, stdin=None, keep_trace=True, follow=True):
    """Run the CLI under strace in sandbox sb. inject: string for -e inject=..., or None.
    Returns (rc, stdout, stderr, trace_text)."""
    tf = sb.dir / "trace.txt"
    if tf.exists():
        tf.unlink()
    # follow=False: only the process itself is traced (and gets the injected signal), not its threads and child processes
    cmd = ["strace"] + (["-f"] if follow else []) + ["-y", "-s", "16", "-o", str(tf), "-e", "trace=" + TRACE_SET]
    if inject:
        for one in ([inject] if isinstance(inject, str) else inject):
            cmd += ["-e", "inject=" + one]
    cmd += [cli.cli_bin()] + list(args)
    e = dict(core.ENV)
    e.pop("RENAMIFY_YES", None)
    e.pop("NO_COLOR", None)
    e["RAYON_NUM_THREADS"] = "1"
    e["HOME"] = str(sb.dir / "home")
    (sb.dir / "home").mkdir(exist_ok=True)
    e["GIT_CONFIG_GLOBAL"] = "/dev/null"
    if env:
        e.update(env)
    try:
        p = subprocess.run(cmd, cwd=str(sb.root), env=e, input=stdin, stdout=subprocess.PIPE,
                           stderr=subprocess.PIPE, timeout=timeout)
        rc, out, err = p.returncode, p.stdout, p.stderr
    except subprocess.TimeoutExpired as ex:
        rc, out, err = 124, ex.stdout or b"", (ex.stderr or b"") + b"\nTIMEOUT"
    trace = tf.read_text(errors="replace") if tf.exists() else ""
    if not follow:
        # without -f strace does not prefix lines with the pid: give them one, the parsers expect it
        trace = "".join(("1 " + ln if not re.match(r"^\d+\s", ln) else ln) for ln in trace.splitlines(True))
    return rc, out, err, trace


def mutating_events(trace, root, classes=("user", "state", "lock", "probe")):
    main, evs = parse_trace(trace, root)
    return [e for e in evs if e.pid == main and e.mutating and e.cls in classes and not e.ret.startswith("-")]


def normalise_tmp(p):
    """a.12345.renamify.tmp -> a.PID.renamify.tmp"""
    return re.sub(r"\.\d+\.renamify\.tmp", ".PID.renamify.tmp", p)


def user_ops(events, root):
    """Canonical (kind, paths...) list of the user-tree mutating calls, comparable with the model trace."""
    out = []
    root = str(root)
    for e in events:
        if e.cls != "user":
            continue
        if e.sys in ("openat", "open", "creat"):
            out.append(("create", normalise_tmp(rel(os.path.normpath(os.path.join(root, e.paths[0])), root))))
        elif e.sys in ("write", "pwrite64", "writev"):
            out.append(("write", normalise_tmp(rel(e.fdpath, root))))
        elif e.sys in ("chmod", "fchmodat"):
            out.append(("chmod", normalise_tmp(rel(os.path.normpath(os.path.join(root, e.paths[0])), root))))
        elif e.sys == "fchmod":
            out.append(("chmod", normalise_tmp(rel(e.fdpath, root))))
        elif e.sys in ("rename", "renameat", "renameat2"):
            a, b = e.paths[0], e.paths[-1]
            out.append(("rename", normalise_tmp(rel(os.path.normpath(os.path.join(root, a)), root)),
                        normalise_tmp(rel(os.path.normpath(os.path.join(root, b)), root))))
        elif e.sys in ("unlink", "unlinkat"):
            kind = "rmdir" if "AT_REMOVEDIR" in e.args else "unlink"
            p = e.paths[0]
            if e.sys == "unlinkat" and e.fdpath and not p.startswith("/"):
                p = os.path.join(e.fdpath, p)
            out.append((kind, normalise_tmp(rel(os.path.normpath(os.path.join(root, p)), root))))
        elif e.sys in ("mkdir", "mkdirat"):
            out.append(("mkdir", rel(os.path.normpath(os.path.join(root, e.paths[0])), root)))
        elif e.sys == "rmdir":
            out.append(("rmdir", rel(os.path.normpath(os.path.join(root, e.paths[0])), root)))
        else:
            out.append((e.sys,) + tuple(e.paths))
    return out


def model_trace_ops(trace_sx):
    """model r_trace sexp -> same canonical form (write merges are handled by the caller)"""
    out = []
    for o in trace_sx:
        kind = o[0]
        def pth(x):
            return b"/".join(core.atom_bytes(c) for c in x).decode("utf-8", "surrogateescape")
        if kind == "rename":
            out.append(("rename", pth(o[1]), pth(o[2])))
        elif kind in ("write", "chmod"):
            out.append((kind, pth(o[1])))
        else:
            out.append((kind, pth(o[1])))
    return out


def collapse_writes(ops):
    """several write(2) calls on the same file in a row count as one model write"""
    out = []
    for o in ops:
        if o[0] == "write" and out and out[-1] == o:
            continue
        out.append(o)
    return out
