#!/usr/bin/env python3
"""difftest_coercion.py — Model/Coercion.v against the real coercion.rs through the harness
($RN_HARNESS, default ./rn-harness-fixed):
   co_apply_coercion  vs  op apply_coercion   (Some/None, the coerced string, and the reason string
                                               "coerced to X style" / "partial coercion to X style")
   co_detect_style    vs  op coercion_detect  (on every container / pattern / replacement used)
Triples (container, old, new): containers built around the pattern in all 14 styles with prefixes
(_ / __), affixes, extensions (.txt, .test.rs, ...), hyphen suffixes, dots, digits, mixed styles, two
occurrences, re-cased patterns, plus random ASCII strings."""
import json, os, random, re, subprocess, sys, time
from collections import Counter
ROOT = os.path.dirname(os.path.abspath(__file__))
ROCQ = os.environ.get("RN_ROCQ", os.path.join(os.path.dirname(ROOT), "rocq")); WORK = os.environ.get("RN_WORK", os.path.join(os.path.dirname(ROOT), "build", "difftest_work")); os.makedirs(WORK, exist_ok=True)
p = subprocess.Popen([os.environ.get("RN_HARNESS", os.path.join(ROOT, "rn-harness-fixed"))],
                     stdin=subprocess.PIPE, stdout=subprocess.PIPE, text=True)
def call(o):
    p.stdin.write(json.dumps(o) + "\n"); p.stdin.flush(); return json.loads(p.stdout.readline())
hx = lambda s: s.encode("latin-1").hex()
unhx = lambda h: bytes.fromhex(h).decode("latin-1")
STY = ["Snake", "Kebab", "Camel", "Pascal", "ScreamingSnake", "Title", "Train", "ScreamingTrain", "Dot",
       "LowerFlat", "UpperFlat", "Sentence", "LowerSentence", "UpperSentence", "Mixed"]
cap = lambda w: w[:1].upper() + w[1:]
def render(t, st):
    return {"Snake": "_".join(t), "Kebab": "-".join(t), "Camel": t[0] + "".join(map(cap, t[1:])),
            "Pascal": "".join(map(cap, t)), "ScreamingSnake": "_".join(w.upper() for w in t),
            "Title": " ".join(map(cap, t)), "Train": "-".join(map(cap, t)),
            "ScreamingTrain": "-".join(w.upper() for w in t), "Dot": ".".join(t),
            "LowerFlat": "".join(t), "UpperFlat": "".join(t).upper(),
            "Sentence": " ".join([cap(t[0])] + t[1:]), "LowerSentence": " ".join(t),
            "UpperSentence": " ".join(w.upper() for w in t)}[st]
WORDS = ["old", "name", "foo", "bar", "api", "id", "user", "tool", "x", "v2", "http", "cli", "get", "deploy", "a1"]
AFF = ["get", "set", "my", "impl", "x", "v2", "handler", "ID", "Api", "FOO", "is", "API", "Cli"]
EXT = [".txt", ".rs", ".test.rs", ".json", ".cfg", ".old", ".tar.gz", ".md", ".a", ".", ".d.ts", ".JPG", ".html"]
def term(rng): return [rng.choice(WORDS) for _ in range(rng.choice([1, 2, 2, 3]))]
def recase(rng, s): return "".join(rng.choice([ch.lower(), ch.upper(), ch]) for ch in s)
def gen(rng):
    ow = term(rng); nw = term(rng)
    so = rng.choice(STY[:14]); old = render(ow, so)
    new = render(nw, rng.choice(STY[:14]))
    kind = rng.choice(["same", "same_recased", "prefix", "suffix", "both", "us", "uus", "ext", "hy_suffix", "dotted",
                       "digit", "mixed", "twice", "other_style", "random", "absent", "space_punct", "empty"])
    occ = old if rng.random() < 0.7 else render(ow, rng.choice(STY[:14]))
    a, b = rng.choice(AFF), rng.choice(AFF); sep = rng.choice(["_", "-", "", ".", " "])
    if kind == "same": c = occ
    elif kind == "same_recased": c = rng.choice(["", "_", "__", "___"]) + recase(rng, old)
    elif kind == "prefix": c = a + sep + (cap(occ) if sep == "" and rng.random() < .6 else occ)
    elif kind == "suffix": c = occ + sep + (cap(b) if sep == "" and rng.random() < .6 else b)
    elif kind == "both": c = a + sep + occ + sep + b
    elif kind == "us": c = "_" + occ + rng.choice(["", "_x", "Bar", "-y"])
    elif kind == "uus": c = rng.choice(["__", "___"]) + occ + rng.choice(["", "_x", "Bar", "__"])
    elif kind == "ext": c = rng.choice(["", a + sep]) + occ + rng.choice(EXT)
    elif kind == "hy_suffix": c = rng.choice(["", a, a + "_", a + "."]) + occ + "-" + rng.choice(["specific", "based", "Like", "X", "2"])
    elif kind == "dotted": c = a + "." + occ + rng.choice([".", ""]) + b
    elif kind == "digit": c = occ + rng.choice(["2", "_2", "-2", "2x"])
    elif kind == "mixed": c = a + "_" + occ + "-" + b
    elif kind == "twice": c = occ + rng.choice(["_", "-", " ", ".", "", "And"]) + recase(rng, occ)
    elif kind == "other_style": c = render([a.lower()] + ow + [b.lower()], rng.choice(STY[:14]))
    elif kind == "random": c = "".join(rng.choice("abAB_-. 19/,(Zz") for _ in range(rng.randint(0, 12))) + rng.choice(["", occ])
    elif kind == "absent": c = render(term(rng), rng.choice(STY[:14]))
    elif kind == "space_punct": c = rng.choice(["", "(", "The "]) + render(ow, rng.choice(["Title", "Sentence", "UpperSentence", "LowerSentence"])) + rng.choice([",", " Item", ", Bar", " item", " API", ")"])
    elif kind == "empty":
        c = rng.choice(["", "_", "__", occ]); old = rng.choice(["", old]); new = rng.choice(["", new])
    return kind, c, old, new

PRELUDE = """From RN Require Import Base.Bytes Model.CaseModel Model.Coercion Gen.GenAcronyms.
Open Scope N_scope.
Set Printing Width 100000000. Set Printing Depth 100000000.
Definition sidx (s : cstyle) : N := match s with CSnake => 0 | CKebab => 1 | CCamel => 2 | CPascal => 3
 | CScreamingSnake => 4 | CTitle => 5 | CTrain => 6 | CScreamingTrain => 7 | CDot => 8 | CLowerFlat => 9
 | CUpperFlat => 10 | CSentence => 11 | CLowerSentence => 12 | CUpperSentence => 13 | CMixed => 14 end.
Definition enc (c o n : bytes) : list (list N) :=
  [sidx (co_detect_style gen_acronyms c); sidx (co_detect_style gen_acronyms o); sidx (co_detect_style gen_acronyms n)] ::
  match co_apply_coercion gen_acronyms c o n with
  | None => []
  | Some (r, partial, st) => [r; [if partial then 1 else 0; sidx st]]
  end.
"""
cq = lambda s: "[" + ";".join(str(ord(ch)) for ch in s) + "]"
def run_coq(name, body):
    path = os.path.join(WORK, name + ".v"); open(path, "w").write(PRELUDE + body)
    r = subprocess.run(["timeout", "900", "coqc", "-Q", ROCQ, "RN", "-w", "-notation-overridden", path],
                       capture_output=True, text=True, cwd=WORK)
    if r.returncode != 0: print(r.stderr[-3000:]); raise SystemExit("coqc failed")
    out = re.sub(r"\s+", " ", r.stdout)
    return [json.loads(m.group(1).replace(";", ",").replace("%N", "")) for m in re.finditer(r"= (\[.*?\]) : list \(list N\)", out)]

def main():
    seed = int(sys.argv[1]) if len(sys.argv) > 1 else 8; n = int(sys.argv[2]) if len(sys.argv) > 2 else 6000
    rng = random.Random(seed); triples = [gen(rng) for _ in range(n)]
    t0 = time.time(); vals = []
    for b in range(0, n, 1500):
        vals += run_coq("coer_%d" % b, "".join("Eval vm_compute in enc %s %s %s.\n" % (cq(c), cq(o), cq(nw)) for _, c, o, nw in triples[b:b + 1500]))
    coq_t = time.time() - t0
    bad = 0; kinds = Counter(); res = Counter(); dbad = 0
    for (kind, c, o, nw), v in zip(triples, vals):
        kinds[kind] += 1
        real = call({"op": "apply_coercion", "container": hx(c), "old": hx(o), "new": hx(nw)})["ok"]
        if len(v) == 1: model = "none"
        else: model = {"some": hx("".join(map(chr, v[1]))), "why": ("partial coercion to %s style" if v[2][0] else "coerced to %s style") % STY[v[2][1]]}
        res["none" if real == "none" else real["why"].split(" to ")[0]] += 1
        if model != real:
            bad += 1
            if bad <= 10: print("APPLY MISMATCH", kind, repr(c), repr(o), repr(nw), "model", model if model == "none" else (unhx(model["some"]), model["why"]), "real", real if real == "none" else (unhx(real["some"]), real["why"]))
        for s, d in zip((c, o, nw), v[0]):
            rd = call({"op": "coercion_detect", "s": hx(s)})["ok"]
            if rd != STY[d]:
                dbad += 1
                if dbad <= 10: print("DETECT MISMATCH", repr(s), "model", STY[d], "real", rd)
    print("triples %d (coq %.1fs); kinds %s" % (n, coq_t, dict(kinds)))
    print("real answers:", dict(res))
    print("apply_coercion disagreements: %d; detect_style disagreements (3 per triple): %d" % (bad, dbad))
    return 1 if bad or dbad else 0
if __name__ == "__main__": sys.exit(main())
