#!/usr/bin/env python3
"""simpleplanrx_difftest.py <seed> <n> — differential test of Model/SimplePlanRx.v against the real planner behind
`renamify replace` in its default (REGEX) mode: scanner.rs::create_simple_plan / process_file_content, is_regex = true.

  real   = harness op simple_plan_tree with "regex": true (create_simple_plan end to end on a materialised tree)
  model  = process_file_content_regex / create_simple_plan_regex of Model/SimplePlanRx.v, evaluated with `Eval vm_compute`
           in a generated cases file compiled with coqc -Q $RN_ROCQ RN
  oracle = [rx_caps] (what Regex::captures_iter yields on one line: span of group 0 and of the groups 1..) is DATA in the
           generated cases file: a table line -> captures computed here with python `re` on a regex subset on which python
           and the regex crate agree (literals, classes, + ? *, \\d \\w \\s \\b ^ $, groups, alternation).  The one known
           difference is handled here: python (>= 3.7) yields an empty match right after a non-empty one ("x*" on "axb":
           0..0, 1..2, 2..2, 3..3), the regex crate does not (0..0, 1..2, 3..3); such matches are dropped from the table.
           [line_excluded]: python `re` as in simpleplan_difftest.py.
  The EXPANSION of the replacement ($1 ...) is NOT oracle data: the code does it by hand (one str::replace per
  participating group) and the model restates that (SimplePlanRx.expand); it is compared like every other field, and
  checked a third time against a python re-implementation of the loop.  The script also counts the hunks whose
  replacement differs from what the regex crate's own `Captures::expand` / `Regex::replace` would give (`${1}`, `$10`,
  `$$`, `$0`, non-participating groups): informational, that is the code's documented-syntax gap, not a disagreement.

Generated inputs (1-3 files per case): several matches per line, matches of different lengths, group references, groups
that do not participate, group text that contains a placeholder, non-ASCII text and patterns, CRLF, "\\r\\r\\n", lone CR, no
final newline, empty lines, a BOM, excluded lines, patterns that match the empty string (x*, \\d*, ^, $, \\b), invalid
UTF-8 and binary-looking files (left out), the empty pattern.
Compared per hunk: line, byte_offset, char_offset, start, end, variant, content, replace, line_before, line_after; per
file: the hunk list and has_matches; per case: files_scanned, total_matches, matches_by_variant, files_with_matches.
Two more checks when the replacement has no line break (C15):
  * on the real code alone: for every line with hunks, the added line of the real diff preview (harness op render_diff)
    is that line of the file after the real apply (apply_tree);
  * the model of the preview as the code has it, SimplePlanRxP.diff_after_real, against the real preview.

env: RN_HARNESS (default ./rn-harness), RN_ROCQ (default ./rocq), RN_WORK (default ./work/simpleplanrx_difftest).
Output: `compared <k> hunks in <n> cases`, `DISAGREEMENTS: <d>` (details of the first few); exit 1 when d > 0.
"""
import json, os, random, re, subprocess, sys, time
from collections import Counter

HERE = os.path.dirname(os.path.abspath(__file__))
def _default(rel):
    return rel if os.path.exists(rel) else os.path.join(HERE, rel)
HARNESS = os.path.abspath(os.environ.get("RN_HARNESS", _default("rn-harness")))
ROCQ = os.path.abspath(os.environ.get("RN_ROCQ", _default("rocq")))
WORK = os.path.abspath(os.environ.get("RN_WORK", os.path.join("work", "simpleplanrx_difftest")))
os.makedirs(WORK, exist_ok=True)


class Harness:
    def __init__(self):
        self.p = subprocess.Popen([HARNESS], stdin=subprocess.PIPE, stdout=subprocess.PIPE, text=True)

    def call(self, o):
        self.p.stdin.write(json.dumps(o) + "\n"); self.p.stdin.flush()
        return json.loads(self.p.stdout.readline())


# ------------------------------------------------------------------ generator
# (regex, sample texts that contain matches)
PATTERNS = [
    ("foo", ["foo", "foofoo", "xfoo"]),
    ("old_name", ["old_name", "old_names", "my_old_name"]),
    ("[_-]", ["a_b", "a-b", "_", "--", "x_y-z"]),
    ("[_-]+", ["a__b", "a-_-b", "_", "---"]),
    ("fo+", ["fo", "foo", "fooo", "f", "fofoo"]),
    ("colou?r", ["color", "colour", "colouur", "colorcolour"]),
    (r"(\d+)", ["12", "7", "a1b22c333", "v10"]),
    (r"v(\d+)\.(\d+)", ["v1.2", "v10.22", "v1.", "v3.4v5.6"]),
    (r"(\w+)@(\w+)", ["bob@site", "é@日本", "a@b c@d", "@x"]),
    ("foo|bar", ["foo", "bar", "foobar", "barfoo", "ba"]),
    ("(foo)|(bar)", ["foo", "bar", "foobar", "bafoo"]),
    ("([a-z]+)_([a-z]+)", ["old_name", "a_b", "x_y_z", "_a", "snake_case here_too"]),
    ("x*", ["axb", "xx", "x", "abc", "xxaxx"]),
    (r"\d*", ["a1b", "123", "ab", "1a22"]),
    ("[_-]?", ["a_b", "--", "ab"]),
    ("^", ["abc", "x"]),
    ("$", ["abc", "x"]),
    (r"\b", ["ab cd", "x", "é y"]),
    ("é+", ["é", "éé", "caféé au lait é"]),
    ("日本", ["日本", "日本語", "日日本本"]),
    ("(é|ü)x", ["éx", "üx", "éxüx", "ex"]),
    ("[éü]", ["é", "ü", "éü", "naïve é"]),
    ("naïve", ["naïve", "naïvenaïve"]),
    (r"(\$2)(b)", ["$2b", "$2b$2b", "$2 b"]),
    (r"(\$)(\d)", ["$1", "$2$1", "$12"]),
    ("a.c", ["abc", "aéc", "a😀c", "ac", "abcaxc"]),
    (r"\s+", ["a b", "a  b", "a\tb", " "]),
    (r"\.", ["a.b", "..", "v1.2.3"]),
    ("(a)(b)?", ["a", "ab", "aab", "ba"]),
    ("(ab)*c", ["c", "abc", "ababc", "abab"]),
    ("(a)(b)(c)(d)(e)(f)(g)(h)(i)(j)", ["abcdefghij", "xabcdefghijabcdefghij"]),
    ("😀+", ["😀", "😀😀", "a😀b😀😀"]),
]
REPLS = ["R", "", "$1", "<$1>", "${1}", "$2$1", "$10", "$1$1", "$0", "$$", "[$1|$2]", "ü$1", "$3", "$1é", "x$", "$",
         "$11", "$2", "a\nb", "$1_$2", "日$2本", "$10$1", "\r", "$ 1", "$1$2$3$4$5$6$7$8$9$10"]
WORDS = ["x", "bar", "let", "//", "#", "SKIP", "TODO", "naïve", "日本語", "€", "q", "fo", "ol", "ab", "b", "é", "😀", "_", ".",
         "1", "$1", "$2"]
SEPS = [" ", " ", "", "", "\t", ",", "\r", "(", ")", "=", ";"]
EXCL = [None, None, None, "SKIP", "TODO|FIXME", "^#", "^\\s*//", "é", "q$", "^$", "\r", "a"]
JUNK = [b"\xff", b"\xc0\xaf", b"\xe2\x82", b"\xf0\x9f\x98", b"\xed\xa0\x80", b"\x80", b"\xc3"]


def gen_line(rng, samples):
    parts = []
    if rng.random() < 0.12: return b""
    if rng.random() < 0.1: parts.append(rng.choice(["SKIP ", "# ", "// ", "TODO "]))
    for _ in range(rng.choice([1, 1, 2, 3, 4, 6])):
        r = rng.random()
        if r < 0.65: parts.append(rng.choice(samples))
        else: parts.append(rng.choice(WORDS))
        parts.append(rng.choice(SEPS))
    return "".join(parts).encode("utf-8").replace(b"\n", b" ")


def gen_file(rng, samples, bad_utf8, binaryish):
    nl = rng.choice([0, 1, 1, 2, 3, 4, 6])
    out = b""
    if rng.random() < 0.08: out += b"\xef\xbb\xbf"
    if binaryish == "utf16": out += b"\xff\xfe"
    if binaryish == "pdf": out += b"%PDF"
    for i in range(nl):
        line = gen_line(rng, samples)
        if bad_utf8 and rng.random() < 0.6:
            k = rng.randrange(len(line) + 1)
            line = line[:k] + rng.choice(JUNK) + line[k:]
        if binaryish == "nul" and rng.random() < 0.5:
            k = rng.randrange(len(line) + 1); line = line[:k] + b"\x00" + line[k:]
        last = i == nl - 1
        eol = rng.choice([b"\n", b"\n", b"\n", b"\r\n", b"\r\n", b"\r\r\n", b"\r"])
        if last and rng.random() < 0.4: eol = rng.choice([b"", b"", b"\r"])
        out += line + eol
    return out


def gen_case(rng, idx):
    pat, samples = rng.choice(PATTERNS)
    if rng.random() < 0.02: pat = ""
    rep = rng.choice(REPLS)
    if "(" in pat and "$" not in rep and rng.random() < 0.7: rep = rng.choice([r for r in REPLS if "$" in r])
    bad = rng.random() < 0.08
    binaryish = rng.choice([None] * 20 + ["nul", "pdf", "utf16"])
    files = []
    names = ["a.txt", "b/c.txt", "d.md"]
    for k in range(rng.choice([1, 1, 1, 2, 3])):
        files.append((names[k], gen_file(rng, samples, bad and k == 0, binaryish if k == 0 else None)))
    return {"id": idx, "pattern": pat, "replacement": rep, "files": files, "excl": rng.choice(EXCL)}


# ------------------------------------------------------------------ oracles
def candidate_lines(content):
    """every string the planner could conceivably pass to a regex: the pieces of the text between line breaks, with and
    without a trailing '\\r' (a superset; the model only asks about some of them).  Files that are not UTF-8 are never
    scanned."""
    try: text = content.decode("utf-8")
    except UnicodeDecodeError: return set()
    cands = set()
    for piece in text.split("\n"):
        cands.add(piece)
        if piece.endswith("\r"): cands.add(piece[:-1])
    return cands


def excluded_lines(cs):
    if cs["excl"] is None: return []
    rx = re.compile(cs["excl"])
    out = set()
    for _, c in cs["files"]:
        for l in candidate_lines(c):
            if rx.search(l): out.add(l.encode("utf-8"))
    return sorted(out)


def boff(line, k):
    return len(line[:k].encode("utf-8"))


def captures_iter(rx, line):
    """Regex::captures_iter(line) emulated with python re: [(start, end, [group spans or None]) ...] in BYTE offsets"""
    out = []; last_end = None
    for m in rx.finditer(line):
        s, e = m.span(0)
        if s == e and last_end is not None and s == last_end:
            continue                                   # the regex crate does not report an empty match adjacent to the previous one
        last_end = e
        groups = []
        for i in range(1, rx.groups + 1):
            a, b = m.span(i)
            groups.append(None if a < 0 else (boff(line, a), boff(line, b)))
        out.append((boff(line, s), boff(line, e), groups))
    return out


def caps_table(cs):
    if cs["pattern"] == "": return []
    rx = re.compile(cs["pattern"])
    tbl = {}
    for _, c in cs["files"]:
        for l in candidate_lines(c):
            caps = captures_iter(rx, l)
            if caps: tbl[l.encode("utf-8")] = caps
    return sorted(tbl.items())


def py_expand(line_b, groups, replacement):
    """the loop of scanner.rs: one str.replace per participating group, ascending"""
    text = replacement
    for i, g in enumerate(groups, start=1):
        if g is not None:
            text = text.replace("$%d" % i, line_b[g[0]:g[1]].decode("utf-8"))
    return text


def crate_expand(line_b, groups, whole, replacement):
    """what regex::Captures::expand would produce ($n, ${n}, $$; missing / non-participating groups are empty)"""
    out = ""; i = 0; r = replacement
    def grp(name):
        if name.isdigit():
            k = int(name)
            if k == 0: return whole
            if 1 <= k <= len(groups) and groups[k - 1] is not None:
                a, b = groups[k - 1]; return line_b[a:b].decode("utf-8")
        return ""
    while i < len(r):
        if r[i] != "$": out += r[i]; i += 1; continue
        if r[i + 1:i + 2] == "$": out += "$"; i += 2; continue
        if r[i + 1:i + 2] == "{":
            j = r.find("}", i + 2)
            if j < 0: out += "$"; i += 1; continue
            out += grp(r[i + 2:j]); i = j + 1; continue
        m = re.match(r"[0-9A-Za-z_]+", r[i + 1:])
        if not m: out += "$"; i += 1; continue
        out += grp(m.group(0)); i += 1 + len(m.group(0))
    return out



# ------------------------------------------------------------------ C15 on the real code: preview line == applied line
def str_lines(content_b):
    """str::lines() on bytes: split_inclusive('\\n'), strip the '\\n' and then one '\\r' (a final line without '\\n' keeps its '\\r')"""
    out = []
    pieces = content_b.split(b"\n")
    for i, raw in enumerate(pieces):
        last = i == len(pieces) - 1
        if last:
            if raw != b"": out.append(raw)
        else:
            out.append(raw[:-1] if raw.endswith(b"\r") else raw)
    return out


def parse_render_diff(text):
    """{file: {line_no: after_text}} from preview::render_plan(Diff, no colour)"""
    res = {}; cur = None; block = None
    lines = text.split("\n"); i = 0
    while i < len(lines):
        ln = lines[i]
        if ln.startswith("=== RENAMES"): break
        if ln.startswith("--- ") and i + 1 < len(lines) and lines[i + 1].startswith("+++ "):
            cur = res.setdefault(ln[4:], {}); i += 2; continue
        m = re.match(r"@@ line (\d+) @@$", ln)
        if m and cur is not None:
            n = int(m.group(1)); i += 1; parts = []
            while i < len(lines) and lines[i] != "":
                if lines[i][0] in "+ ": parts.append(lines[i][1:])
                i += 1
            cur[n] = "".join(parts)
            continue
        i += 1
    return res


def preview_vs_apply(H, cs, plan):
    """the added line the diff preview shows for every line with hunks == that line of the file after the real apply"""
    problems = []; checked = 0
    shown = parse_render_diff(H.call({"op": "render_diff", "plan": plan})["ok"])
    plan2 = dict(plan); plan2["paths"] = []
    tree = [{"p": p, "k": "f", "c": c.hex(), "m": 420} for p, c in cs["files"]]
    a = H.call({"op": "apply_tree", "tree": tree, "plan": plan2, "backups": False})
    if not a.get("ok"): return [("real apply failed", a.get("msg"))], 0, shown
    after = {e["p"]: bytes.fromhex(e["c"]) for e in a["tree"] if e.get("k") == "f"}
    for name, _ in cs["files"]:
        want = {h["line"] for h in plan["matches"] if h["file"] == name}
        got = shown.get(name, {})
        if set(got) != want: problems.append(("preview shows lines %r, plan has hunks on %r" % (sorted(got), sorted(want)), name)); continue
        alines = str_lines(after[name])
        for n in sorted(want):
            checked += 1
            # a last line without '\n' that became empty is no line at all for str::lines
            applied = alines[n - 1] if n - 1 < len(alines) else (b"" if n - 1 == len(alines) else None)
            if applied is None or got[n].encode() != applied:
                problems.append(("line %d of %s: preview %r, after apply %r" % (n, name, got[n], applied), name))
    return problems, checked, shown


# ------------------------------------------------------------------ Coq emission
def cq_bytes(b): return "[" + ";".join(str(x) for x in b) + "]"
def cq_span(g): return "None" if g is None else "Some (%d,%d)%%nat" % g
def cq_caps(c): return "((%d,%d)%%nat, [%s])" % (c[0], c[1], ";".join(cq_span(g) for g in c[2]))

PRELUDE = """From RN Require Import Model.SimplePlan Model.SimplePlanRx Proofs.SimplePlanRxP.
Open Scope N_scope.
Set Printing Width 100000000.
Set Printing Depth 100000000.
Definition nn (n : nat) : list N := [N.of_nat n].
Definition oo (o : option bytes) : list N := match o with None => [0] | Some x => 1 :: x end.
Definition enc_hunk (r : rxhunk) : list (list N) :=
  let h := rx_fh r in
  [nn (fh_line h); nn (fh_col h); nn (fh_char h); nn (fh_start h); nn (fh_end h); rx_variant r; fh_content h; fh_replace h;
   oo (fh_before h); oo (fh_after h)].
Definition enc_file (r : list rxhunk * bool) : list (list N) :=
  [if snd r then 1 else 0] :: flat_map enc_hunk (fst r).
Definition enc_plan (r : option (list (list rxhunk) * sstats)) : list (list N) :=
  match r with
  | None => [[0]]
  | Some (_, s) => [[1]; nn (st_files_scanned s); nn (st_total s); nn (st_files_with s)] ++
                   flat_map (fun kv => [fst kv; nn (snd kv)]) (st_by_variant s)
  end.
Fixpoint group_lines (hs : list fhunk) : list (list fhunk) :=
  match hs with
  | [] => []
  | h :: hs' => match group_lines hs' with
                | (x :: g) :: gs => if Nat.eqb (fh_line x) (fh_line h) then (h :: x :: g) :: gs else [h] :: (x :: g) :: gs
                | _ => [[h]]
                end
  end.
(* what preview/diff.rs shows per line with hunks: SimplePlanRxP.diff_after_real (the code's guard) *)
Definition enc_preview (r : list rxhunk * bool) : list (list N) :=
  [7] :: flat_map (fun g => match g with h :: _ => [nn (fh_line h); diff_after_real g] | [] => [] end)
                  (group_lines (map rx_fh (fst r))).
Definition memb (l : bytes) (ls : list bytes) : bool := existsb (beq l) ls.
"""
NF = 10   # encoded fields per hunk


def run_coq(name, body):
    path = os.path.join(WORK, name + ".v")
    with open(path, "w") as f: f.write(PRELUDE + body)
    t0 = time.time()
    r = subprocess.run(["timeout", "900", "coqc", "-Q", ROCQ, "RN", "-w", "-notation-overridden", path],
                       capture_output=True, text=True, cwd=WORK)
    if r.returncode != 0:
        print(r.stdout[-2000:]); print(r.stderr[-4000:]); raise SystemExit("coqc failed on " + path)
    out = re.sub(r"\s+", " ", r.stdout)
    vals = [json.loads(m.group(1).replace(";", ",").replace("%N", ""))
            for m in re.finditer(r"= (\[.*?\]) : list \(list N\)", out)]
    return vals, time.time() - t0


def dec_file(v):
    has = bool(v[0][0]); hs = []
    body = v[1:]
    assert len(body) % NF == 0
    for i in range(0, len(body), NF):
        f = body[i:i + NF]
        opt = lambda x: None if x[0] == 0 else bytes(x[1:])
        hs.append(dict(line=f[0][0], byte_offset=f[1][0], char_offset=f[2][0], start=f[3][0], end=f[4][0],
                       variant=bytes(f[5]), content=bytes(f[6]), replace=bytes(f[7]), line_before=opt(f[8]),
                       line_after=opt(f[9])))
    return has, hs


def main():
    seed = int(sys.argv[1]) if len(sys.argv) > 1 else 20261001
    n = int(sys.argv[2]) if len(sys.argv) > 2 else 150
    rng = random.Random(seed)
    H = Harness()
    cases = [gen_case(rng, i) for i in range(n)]
    t0 = time.time()
    # ---- real planner
    for cs in cases:
        tree = [{"p": p, "k": "f", "c": c.hex(), "m": 420} for p, c in cs["files"]]
        req = {"op": "simple_plan_tree", "tree": tree, "pattern": cs["pattern"].encode().hex(),
               "replacement": cs["replacement"].encode().hex(), "regex": True}
        if cs["excl"] is not None: req["exclude_matching_lines"] = cs["excl"]
        cs["real"] = H.call(req)
    t_real = time.time() - t0
    # ---- model
    body = ""
    for cs in cases:
        i = cs["id"]
        cs["table"] = caps_table(cs)
        body += "Definition ex_%d : bytes -> bool := fun l => memb l [%s].\n" % (i, ";".join(cq_bytes(x) for x in excluded_lines(cs)))
        body += "Definition caps_%d : bytes -> list caps := caps_of_table [%s].\n" % (
            i, ";".join("(%s, [%s])" % (cq_bytes(l), ";".join(cq_caps(c) for c in caps)) for l, caps in cs["table"]))
        pat = cq_bytes(cs["pattern"].encode()); rep = cq_bytes(cs["replacement"].encode())
        for _, c in cs["files"]:
            body += "Eval vm_compute in enc_file (process_file_content_regex ex_%d caps_%d %s %s false %s).\n" % (i, i, pat, rep, cq_bytes(c))
            body += "Eval vm_compute in enc_preview (process_file_content_regex ex_%d caps_%d %s %s false %s).\n" % (i, i, pat, rep, cq_bytes(c))
        body += "Eval vm_compute in enc_plan (create_simple_plan_regex ex_%d caps_%d %s %s false [%s]).\n" % (
            i, i, pat, rep, ";".join(cq_bytes(c) for _, c in cs["files"]))
    vals, t_coq = run_coq("cases_%d" % seed, body)
    assert len(vals) == sum(2 * len(cs["files"]) + 1 for cs in cases), (len(vals), "results expected", sum(2 * len(cs["files"]) + 1 for cs in cases))
    # ---- compare
    bad = []; compared = 0; feats = Counter(); k = 0; c15_lines = 0; prev_lines = 0
    for cs in cases:
        mfiles = [dec_file(v) for v in vals[k:k + 2 * len(cs["files"]):2]]
        mprev = [{v[j][0]: bytes(v[j + 1]) for j in range(1, len(v), 2)} for v in vals[k + 1:k + 2 * len(cs["files"]):2]]
        k += 2 * len(cs["files"])
        mplan = vals[k]; k += 1
        real = cs["real"]; problems = []
        pat_b = cs["pattern"].encode()
        table = dict(cs["table"])
        if cs["pattern"] == "":
            feats["empty pattern"] += 1
            if not (real.get("ok") is False and "pattern is empty" in real.get("msg", "") and mplan == [[0]]):
                problems.append(("empty pattern", mplan, real))
        elif not real.get("ok"):
            problems.append(("real planner failed", real))
        else:
            plan = real["plan"]
            by_file = {}
            for h in plan["matches"]: by_file.setdefault(h["file"], []).append(h)
            for (name, content), (mhas, mh) in zip(cs["files"], mfiles):
                rh = [dict(line=h["line"], byte_offset=h["byte_offset"], char_offset=h["char_offset"], start=h["start"],
                           end=h["end"], variant=h["variant"].encode(), content=h["content"].encode(),
                           replace=h.get("replace", "").encode(),
                           line_before=None if h.get("line_before") is None else h["line_before"].encode(),
                           line_after=None if h.get("line_after") is None else h["line_after"].encode())
                      for h in by_file.pop(name, [])]
                if any(h["variant"] != pat_b for h in rh): problems.append(("variant", name, [h["variant"] for h in rh]))
                compared += len(rh)
                if rh != mh: problems.append(("hunks of " + name, mh, rh))
                if mhas != bool(rh): problems.append(("has_matches of " + name, mhas, len(rh)))
                # third opinion on the expansion, and the distance to the crate's own expand
                for h in rh:
                    caps = table.get(h["line_before"], [])
                    hit = [c for c in caps if c[0] == h["byte_offset"] and c[1] - c[0] == len(h["content"])]
                    if not hit: problems.append(("real hunk not in the oracle table", h)); continue
                    c = hit[0]
                    if py_expand(h["line_before"], c[2], cs["replacement"]).encode() != h["replace"]:
                        problems.append(("python re-implementation of the expansion loop differs", h))
                    if crate_expand(h["line_before"], c[2], h["content"].decode(), cs["replacement"]).encode() != h["replace"]:
                        feats["hunks whose replace differs from Captures::expand"] += 1
                    if h["start"] == h["end"]: feats["empty-match hunks"] += 1
                    if any(g is None for g in c[2]): feats["hunks with a non-participating group"] += 1
                # features
                try: content.decode("utf-8")
                except UnicodeDecodeError: feats["invalid UTF-8 file"] += 1
                if b"\r\n" in content: feats["CRLF"] += 1
                if re.search(rb"\r(?!\n)", content): feats["lone CR"] += 1
                if content and not content.endswith(b"\n"): feats["no final newline"] += 1
                if b"\n\n" in content or content.startswith(b"\n"): feats["empty line"] += 1
                if content.startswith(b"\xef\xbb\xbf"): feats["BOM"] += 1
                if b"\x00" in content or content.startswith(b"%PDF"): feats["binary-looking"] += 1
                if any(ord(ch) > 127 for ch in cs["pattern"]): feats["non-ASCII pattern"] += 1
                if any(h["char_offset"] != h["byte_offset"] for h in rh): feats["files with byte column != char column"] += 1
                if len(rh) != len(set(h["line"] for h in rh)): feats["several hunks on a line"] += 1
                if len(set(len(h["content"]) for h in rh)) > 1: feats["matches of different lengths"] += 1
                if len(set(h["replace"] for h in rh)) > 1: feats["different replace texts in one file"] += 1
            if by_file: problems.append(("real hunks in unknown files", list(by_file)))
            st = plan["stats"]
            rplan = [[1], [st["files_scanned"]], [st["total_matches"]], [st["files_with_matches"]]]
            for kk, vv in st["matches_by_variant"].items(): rplan += [list(kk.encode()), [vv]]
            if rplan != mplan: problems.append(("stats", mplan, rplan))
            if cs["excl"] is not None: feats["exclude option"] += 1
            if excluded_lines(cs): feats["some line excluded"] += 1
            if "$" in cs["replacement"]: feats["replacement with $"] += 1
            # C15 on the real code alone (no model): preview vs apply, when the replacement cannot change the line structure
            if "\n" not in cs["replacement"] and "\r" not in cs["replacement"] and plan["matches"]:
                pr, nchk, shown = preview_vs_apply(H, cs, plan)
                c15_lines += nchk
                problems += [("REAL preview vs REAL apply: " + x[0], x[1]) for x in pr]
                # the model of the preview (diff_after_real) against the real preview
                for (name, _), mp in zip(cs["files"], mprev):
                    rp = {n: t.encode() for n, t in shown.get(name, {}).items()}
                    prev_lines += len(rp)
                    if rp != mp: problems.append(("preview of " + name + ": model diff_after_real vs real render_diff", mp, rp))
        if problems: bad.append((cs, problems))
    print("features:", dict(feats))
    print("real planner %.1fs, coqc %.1fs" % (t_real, t_coq))
    print("real preview line == real applied line checked on %d lines with hunks" % c15_lines)
    print("model preview (diff_after_real) == real preview checked on %d lines with hunks" % prev_lines)
    print("compared %d hunks in %d cases" % (compared, len(cases)))
    print("DISAGREEMENTS: %d" % len(bad))
    for cs, problems in bad[:6]:
        print("---- case", cs["id"], "pattern", repr(cs["pattern"]), "replacement", repr(cs["replacement"]), "exclude", repr(cs["excl"]))
        for name, c in cs["files"]: print("  file", name, repr(c))
        for pr in problems[:4]:
            print("  *", pr[0])
            if len(pr) == 3 and isinstance(pr[1], list) and isinstance(pr[2], list) and pr[0].startswith("hunks"):
                for a, b in zip(pr[1], pr[2]):
                    if a != b: print("     model:", a); print("     real: ", b)
                if len(pr[1]) != len(pr[2]): print("     model has %d hunks, real has %d" % (len(pr[1]), len(pr[2])))
            else:
                print("    ", pr[1:])
    return 1 if bad else 0


if __name__ == "__main__":
    sys.exit(main())
