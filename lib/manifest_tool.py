"""Maintain MANIFEST.json: python3 lib/manifest_tool.py add <id> <<< '{"text":..., "note":..., "technique":...}'"""
import json
import sys
from pathlib import Path

V = Path(__file__).resolve().parent.parent
M = V / "MANIFEST.json"


def main():
    cmd, pid = sys.argv[1], sys.argv[2]
    m = json.loads(M.read_text())
    if cmd == "add":
        d = json.loads(sys.stdin.read())
        m["checks"] = [c for c in m["checks"] if c["property_id"] != pid]
        m["checks"].append({
            "property_id": pid, "quick_cmd": f"./check {pid} --tier quick",
            "thorough_cmd": f"./check {pid} --tier thorough", "evidence_file": f"/verif/evidence/{pid}.json",
            "replay_cmd_template": f"./check {pid} --replay {{path}}", "engine": "rocq",
            "level_claimed": {"category": d.get("category", "proof"), "text": d["text"],
                              "design_ref": f"DESIGN.md section 7, {pid}"},
            "level_note": d["note"], "technique": d["technique"]})
        m["checks"].sort(key=lambda c: c["property_id"])
        m["not_applicable"] = [x for x in m.get("not_applicable", []) if x["property_id"] != pid]
        for e in m.get("engines", []):
            if pid not in e["serves_properties"]:
                e["serves_properties"] = sorted(e["serves_properties"] + [pid])
    M.write_text(json.dumps(m, indent=1))


main()
