"""Sandboxed runs of the real renamify binary (built from /repo's working tree)."""
import hashlib
import json
import os
import shutil
import stat
import subprocess
import tempfile
import time
from pathlib import Path

import core

SBX_ROOT = core.BUILD / "sbx"

_cli_path = None


def _limit_memory():
    """address-space limit for every CLI run of the checks (default 6 GB, RN_MEM_LIMIT_GB): a plan is quadratic in the length of a line for
    patterns that match everywhere (`replace . x` on a 150 kB line asked for 64 GB and the kernel killed it - and could have killed anything
    else); with the limit the allocation fails inside the process, which aborts with 'memory allocation of N bytes failed'"""
    import resource
    gb = int(os.environ.get("RN_MEM_LIMIT_GB", "6"))
    try:
        resource.setrlimit(resource.RLIMIT_AS, (gb << 30, gb << 30))
    except Exception:
        pass


def cli_bin():
    global _cli_path
    if _cli_path is None:
        p, out = core.build_cli()
        if p is None:
            raise RuntimeError("CLI build failed:\n" + out[-3000:])
        _cli_path = str(p)
    return _cli_path


class Sandbox:
    """A scratch working tree. Tree entries: {"p": rel, "k": "f"|"d"|"l", "c": bytes, "m": mode, "t": target}"""

    def __init__(self, tree=None):
        SBX_ROOT.mkdir(parents=True, exist_ok=True)
        self.dir = Path(tempfile.mkdtemp(prefix="s", dir=SBX_ROOT))
        self.root = self.dir / "w"
        self.root.mkdir()
        if tree:
            self.materialize(tree)

    def materialize(self, tree):
        dirs = []
        for e in tree:
            p = self.root / e["p"]
            k = e.get("k", "f")
            if k == "d":
                p.mkdir(parents=True, exist_ok=True)
                dirs.append((p, e))
            elif k == "l":
                p.parent.mkdir(parents=True, exist_ok=True)
                os.symlink(e["t"], p)
            else:
                p.parent.mkdir(parents=True, exist_ok=True)
                c = e.get("c", b"")
                if isinstance(c, str):
                    c = c.encode()
                p.write_bytes(c)
                if "m" in e:
                    os.chmod(p, e["m"])
        for p, e in reversed(dirs):
            if "m" in e:
                os.chmod(p, e["m"])

    def run(self, args, env=None, stdin=None, timeout=60, cwd=None, bin=None):
        e = dict(core.ENV)
        e.pop("RENAMIFY_YES", None)
        e.pop("NO_COLOR", None)
        e["HOME"] = str(self.dir / "home")
        (self.dir / "home").mkdir(exist_ok=True)
        e["XDG_CONFIG_HOME"] = str(self.dir / "home" / ".config")
        e["GIT_CONFIG_GLOBAL"] = "/dev/null"
        e["GIT_CONFIG_SYSTEM"] = "/dev/null"
        if env:
            e.update(env)
        try:
            p = subprocess.run([bin or cli_bin()] + list(args), cwd=(cwd if isinstance(cwd, bytes) else str(cwd or self.root)), env=e,
                               input=stdin, stdout=subprocess.PIPE, stderr=subprocess.PIPE,
                               timeout=timeout, preexec_fn=_limit_memory)
            return p.returncode, p.stdout, p.stderr
        except subprocess.TimeoutExpired as ex:
            return 124, ex.stdout or b"", (ex.stderr or b"") + b"\nTIMEOUT"

    def snapshot(self, state=False, root=None):
        """{relpath: ("f", mode, sha256hex, size) | ("d", mode) | ("l", target)}; without .renamify
        unless state=True"""
        root = Path(root or self.root)
        out = {}

        def walk(d):
            try:
                ents = sorted(os.scandir(d), key=lambda x: x.name)
            except OSError:
                return
            for ent in ents:
                rel = os.path.relpath(ent.path, root)
                if not state and (rel == ".renamify" or rel.startswith(".renamify/")):
                    continue
                st = os.lstat(ent.path)
                if stat.S_ISLNK(st.st_mode):
                    out[rel] = ("l", os.readlink(ent.path))
                elif stat.S_ISDIR(st.st_mode):
                    out[rel] = ("d", stat.S_IMODE(st.st_mode))
                    walk(ent.path)
                else:
                    with open(ent.path, "rb") as f:
                        b = f.read()
                    out[rel] = ("f", stat.S_IMODE(st.st_mode), hashlib.sha256(b).hexdigest(), len(b))
        walk(root)
        return out

    def read(self, rel):
        return (self.root / rel).read_bytes()

    def tree_entries(self, state=False):
        """Snapshot in tree-entry form with contents (for feeding the model / the harness)."""
        out = []
        snap = self.snapshot(state=state)
        for rel, v in sorted(snap.items()):
            if v[0] == "f":
                out.append({"p": rel, "k": "f", "c": self.read(rel), "m": v[1]})
            elif v[0] == "d":
                out.append({"p": rel, "k": "d", "m": v[1]})
            else:
                out.append({"p": rel, "k": "l", "t": v[1]})
        return out

    def history(self):
        p = self.root / ".renamify" / "history.json"
        if not p.exists():
            return None
        try:
            return json.loads(p.read_text())
        except Exception:
            return "UNPARSABLE"

    def cleanup(self):
        def onerr(func, path, exc):
            try:
                os.chmod(os.path.dirname(path), 0o700)
                os.chmod(path, 0o700)
                func(path)
            except Exception:
                pass
        shutil.rmtree(self.dir, onerror=onerr)

    def __enter__(self):
        return self

    def __exit__(self, *a):
        self.cleanup()


def diff_snap(a, b):
    """Human-readable differences between two snapshots."""
    out = []
    for k in sorted(set(a) | set(b)):
        if a.get(k) != b.get(k):
            out.append((k, a.get(k), b.get(k)))
    return out


def tree_json(tree):
    """Tree entries with bytes -> hex for JSON (replay files / harness requests)."""
    out = []
    for e in tree:
        e2 = dict(e)
        if "c" in e2:
            c = e2["c"]
            if isinstance(c, str):
                c = c.encode()
            e2["c"] = c.hex()
        out.append(e2)
    return out


def tree_from_json(tree):
    out = []
    for e in tree:
        e2 = dict(e)
        if "c" in e2:
            e2["c"] = bytes.fromhex(e2["c"])
        out.append(e2)
    return out
