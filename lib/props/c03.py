"""C03 — Every plan is internally consistent with the files it describes."""
import json

import core
import cli
import gen
import applylib as al

LEVEL = "proof"
EXPLANATION = ("Theorems (Props/C03.v): the literal alternation scan of pattern.rs only reports real, ordered, non-overlapping "
               "occurrences of the variants; the hunk the planners build for a span (line, column, character offset, "
               "before/after line context) is consistent with the file for every content and span; and a plan that is "
               "consistent with a file (the boolean predicate file_consistent, defined in Coq) is a well-formed edit list, "
               "so apply performs exactly the reference splice. The Gallina matcher is run against pattern::find_matches / "
               "is_boundary; the extracted predicate file_consistent is evaluated on every plan produced by the real "
               "planners (scan_repository_multi, create_simple_plan literal and regex, CLI plan/search/rename/replace JSON) "
               "against the bytes on disk, next to an independent Python implementation; summary counts are recomputed. "
               "Partial: the compound (identifier-level) matcher and user regexes are oracles here: their output is "
               "validated plan by plan, not modelled.")
ASSUMPTIONS = ["regex / aho-corasick crates", "compound matcher output validated per plan (not modelled)",
               "file contents are valid UTF-8 in the consistency stream (invalid UTF-8 is C16's stream)"]


def fh_sx(h, with_term=True):
    return [h["line"], h["byte_offset"], h["char_offset"], h["start"], h["end"], h["content"].encode("utf-8"),
            h.get("replace", "").encode("utf-8"),
            ["some", h["line_before"].encode("utf-8")] if h.get("line_before") is not None else None,
            ["some", h["line_after"].encode("utf-8")] if h.get("line_after") is not None else None]


def py_hunk_problems(c, h, with_term):
    """independent check of one hunk against the file bytes"""
    probs = []
    s, e = h["start"], h["end"]
    content = h["content"].encode("utf-8")
    if not (0 <= s < e <= len(c)) or c[s:e] != content:
        probs.append(f"bytes at [{s},{e}) are {c[s:e][:30]!r}, recorded {content[:30]!r}")
        return probs
    for off in (s, e):
        if off < len(c) and (c[off] & 0xC0) == 0x80:
            probs.append(f"offset {off} is inside a character")
    line = c[:s].count(b"\n") + 1
    ls = c.rfind(b"\n", 0, s) + 1
    le = c.find(b"\n", s)
    full = c[ls:] if le < 0 else c[ls:le + 1]
    ctx = full
    if not with_term:
        if ctx.endswith(b"\r\n"):
            ctx = ctx[:-2]
        elif ctx.endswith(b"\n"):
            ctx = ctx[:-1]
    col = s - ls
    if h["line"] != line:
        probs.append(f"line {h['line']} but the match is on line {line}")
    if h["byte_offset"] != col:
        probs.append(f"byte_offset {h['byte_offset']} but the column is {col}")
    try:
        chars = len(full[:col].decode("utf-8"))
        if h["char_offset"] != chars:
            probs.append(f"char_offset {h['char_offset']} but {chars} characters precede the match")
    except UnicodeDecodeError:
        pass
    if h.get("line_before") is not None and h["line_before"].encode("utf-8") != ctx:
        probs.append("line_before is not the file's line")
    after = ctx[:col] + h.get("replace", "").encode("utf-8") + ctx[col + len(content):]
    if h.get("line_after") is not None and h["line_after"].encode("utf-8") != after:
        probs.append("line_after is not the line with this match replaced")
    return probs


def check_plan(R, M, tree_d, plan, with_term, label, out, ctx):
    by_file = {}
    for h in plan.get("matches", []):
        by_file.setdefault(h["file"], []).append(h)
    total = 0
    for f, hs in by_file.items():
        total += len(hs)
        v = tree_d.get(f)
        if v is None or v[0] != "f":
            out["fail"].append({"why": f"{label}: plan names {f} which is not a file of the tree", **ctx})
            continue
        c = v[2]
        # order / overlap
        prev = 0
        for h in hs:
            if h["start"] < prev:
                out["fail"].append({"why": f"{label}: matches of {f} are not ordered / overlap at {h['start']}", **ctx})
                break
            prev = h["end"]
        for h in hs:
            pr = py_hunk_problems(c, h, with_term)
            if pr:
                out["fail"].append({"why": f"{label}: {f}: " + "; ".join(pr[:2]), "hunk": h, **ctx})
                break
        # the Coq predicate, extracted
        m = M.ask("file_consistent", with_term, c, [fh_sx(h) for h in hs])
        if not isinstance(m, list) or m[0] not in ("true", "false"):
            out["dis"].append({"why": "model error on file_consistent", "resp": repr(m)[:200], **ctx})
        else:
            py_ok = not any(py_hunk_problems(c, h, with_term) for h in hs) and all(hs[i]["end"] <= hs[i + 1]["start"] for i in range(len(hs) - 1))
            if (m[0] == "true") != py_ok:
                out["dis"].append({"why": "Coq predicate file_consistent and the Python oracle disagree", "file": f,
                                   "coq": m[0], "python": py_ok, "per_hunk": m[1], **ctx})
            elif m[0] != "true" and not any(x["why"].startswith(label) for x in out["fail"]):
                out["fail"].append({"why": f"{label}: {f}: plan is not consistent with the file (Coq predicate file_consistent = false)", **ctx})
    st = plan.get("stats", {})
    if st:
        if st.get("total_matches") != len(plan.get("matches", [])):
            out["fail"].append({"why": f"{label}: stats.total_matches = {st.get('total_matches')} but {len(plan.get('matches', []))} matches are listed", **ctx})
        if st.get("files_with_matches") != len(by_file):
            out["fail"].append({"why": f"{label}: stats.files_with_matches = {st.get('files_with_matches')} but matches are listed for {len(by_file)} files", **ctx})
        if sum(st.get("matches_by_variant", {}).values()) != len(plan.get("matches", [])):
            out["fail"].append({"why": f"{label}: matches_by_variant sums to {sum(st.get('matches_by_variant', {}).values())}, {len(plan.get('matches', []))} listed", **ctx})
        else:
            cnt = {}
            for h in plan.get("matches", []):
                cnt[h["variant"]] = cnt.get(h["variant"], 0) + 1
            if cnt != st.get("matches_by_variant", {}):
                out["fail"].append({"why": f"{label}: matches_by_variant does not equal the per-variant counts of the listed matches", **ctx})
    out["hunks"] += total
    return total


def scenario(g, i):
    a, b = g.term_pair()
    r = g.r
    tree = g.tree(a, depth=3, symlinks=False)
    s = gen.render(a, "Snake")
    tree += [{"p": "multi.txt", "k": "f", "c": ("é" + s + " " + s + "," + gen.render(a, "Camel") + " x" + s + "\r\n" + "☃ " + gen.render(a, "Pascal") + " " + s + "\nlast " + s).encode(), "m": 0o644},
             ]
    tree += [{"p": "cr.txt", "k": "f", "m": 0o644, "c": ("first\nlet x = 1;\r let " + s + " = " + s + " + 1;\nnext " + gen.render(a, "Camel") + "\r" + s + " " + s + "\n").encode()}]
    tree += [{"p": "bom.txt", "k": "f", "m": 0o644,
              "c": ("\ufeff" + s + " = Acme." + s + ".Core;\n\u00a0" + s + " " + s + "\n\u200b" + gen.render(a, "Pascal") + " " + s + " \n  " + s + "  " + s + "  \n").encode()}]
    if i % 5 == 0:
        tree += [{"p": "long.txt", "k": "f", "c": (("x" * 1500) + " " + s + " " + ("y" * 1500) + " " + s + "\n").encode(), "m": 0o644}]
    seen, out = set(), []
    for e in tree:
        if e["p"] not in seen:
            seen.add(e["p"])
            out.append(e)
    return out, a, b


LIB_DEFAULT = ["Snake", "Kebab", "Camel", "Pascal", "ScreamingSnake", "Train"]


def enhanced_stream(R, H, M, g, out, quick):
    """Model/Enhanced.v (identifier extractor + find_enhanced_matches) against compound_scanner.rs on generated ASCII content:
    every field of every match, for several style lists, with and without additional candidate lines."""
    r = g.r
    stats = {"identifier_cases": 0, "enhanced_cases": 0, "identifiers": 0, "matches": 0, "exact": 0, "compound": 0, "with_lines": 0,
             "style_lists": {}}
    frag = ["Old Name here", "The {T} Thing", "{s}-", "{s}.", "a.{s}.b", "lo..get_{s}_hi", "x.{c}.y", "{p}2", "{S}_X", "Get-{t}-X {T}",
            "{s} {s}_y", "{T} {t}", "{k}--{k}", "__{s}__", "\t{s}\t", "{c}{P}", "v2_{s}_3d", "{s}s", "{P}s", "{f}", "{F}"]
    for i in range(150 if quick else 6000):
        a, b = g.term_pair()
        sets = [list(gen.DEFAULT_STYLES), LIB_DEFAULT, [r.choice(gen.STYLES14)], list(gen.STYLES14),
                [x for x in gen.DEFAULT_STYLES if x != "Title"], LIB_DEFAULT + ["Title", "Dot"], r.sample(gen.STYLES14, r.randint(1, 6)), []]
        k = r.randrange(len(sets))
        styles = sets[k]
        stats["style_lists"][str(k)] = stats["style_lists"].get(str(k), 0) + 1
        text = g.content(a, styles=gen.STYLES14, nlines=r.randint(0, 5), p_match=0.7).decode("utf-8")
        fm = {"s": gen.render(a, "Snake"), "S": gen.render(a, "ScreamingSnake"), "c": gen.render(a, "Camel"), "P": gen.render(a, "Pascal"),
              "p": gen.render(a, "Pascal"), "k": gen.render(a, "Kebab"), "t": gen.render(a, "Train"), "T": gen.render(a, "Title"),
              "f": gen.render(a, "LowerFlat"), "F": gen.render(a, "UpperFlat")}
        extra_lines = [r.choice(frag).format(**fm) for _ in range(r.randint(0, 3))]
        eol = r.choice(["\n", "\r\n"])
        text = text + eol.join(extra_lines) + (eol if r.random() < 0.6 else "")
        content = "".join(ch if ord(ch) < 128 else "e" for ch in text).encode()
        # identifiers
        hr = H.ask({"op": "identifiers", "s": core.hx(content), "content": core.hx(content), "styles": styles})
        mr = M.ask("identifiers", styles, content)
        stats["identifier_cases"] += 1
        R.case(("ident", tuple(styles), content), nontrivial=bool(hr.get("ok")))
        if "ok" in hr:
            impl = [(x[0], x[1], bytes.fromhex(x[2])) for x in hr["ok"]]
            mod = [(int(x[0]), int(x[1]), core.atom_bytes(x[2])) for x in mr] if isinstance(mr, list) and (not mr or isinstance(mr[0], list)) else ("ERR", mr)
            stats["identifiers"] += len(impl)
            if impl != mod:
                out["dis"].append({"why": "IdentifierExtractor::find_all differs from the model", "styles": styles,
                                   "content": content.decode(), "impl": repr(impl)[:500], "model": repr(mod)[:500]})
        else:
            out["fail"].append({"why": "IdentifierExtractor::find_all panicked: " + str(hr)[:200], "content": content.decode(), "styles": styles})
        # the whole matcher
        typed = ["Snake", "Snake", "Kebab", "Camel", "Pascal", "ScreamingSnake", "Title", "LowerSentence"]
        search, replace = gen.render(a if r.random() < 0.85 else a[:1], r.choice(typed)), gen.render(b, r.choice(typed))
        req = {"op": "enhanced_matches", "content": core.hx(content), "search": core.hx(search), "replace": core.hx(replace),
               "styles": styles, "plurals": r.random() < 0.5}
        lines = None
        if r.random() < 0.4:
            lines = sorted(set(r.randint(0, 9) for _ in range(r.randint(0, 4))))
            req["lines"] = lines
            stats["with_lines"] += 1
        er = H.ask(req)
        stats["enhanced_cases"] += 1
        R.case(("enh", tuple(styles), content, search, replace, repr(lines)), nontrivial=bool(er.get("ok")))
        if "ok" not in er:
            out["fail"].append({"why": "find_enhanced_matches panicked: " + str(er)[:200], "content": content.decode(), "styles": styles,
                                "search": search, "replace": replace})
            continue
        keys = [bytes.fromhex(kv[0]) for kv in er["table"]]
        em = M.ask("enhanced", content, search.encode(), replace.encode(), keys, styles, None if lines is None else ["some", lines])
        impl = [(x[0], x[1], x[2], x[3], bytes.fromhex(x[4]), bytes.fromhex(x[5])) for x in er["ok"]]
        mod = [(int(x[0]), int(x[1]), int(x[2]), int(x[3]), core.atom_bytes(x[4]), core.atom_bytes(x[5])) for x in em] \
            if isinstance(em, list) and (not em or isinstance(em[0], list)) else ("ERR", em)
        stats["matches"] += len(impl)
        stats["exact"] += sum(1 for x in impl if x[4] == x[5])
        stats["compound"] += sum(1 for x in impl if x[4] != x[5])
        if impl != mod:
            out["dis"].append({"why": "find_enhanced_matches differs from the model", "styles": styles, "search": search, "replace": replace,
                               "lines": lines, "content": content.decode(), "impl": repr(impl)[:600], "model": repr(mod)[:600]})
        # the proved consequences, observed on the real output as well: ordered, disjoint, inside the file
        for x, y in zip(impl, impl[1:]):
            if not (x[2] < x[3] <= y[2]):
                out["fail"].append({"why": "the matches handed to generate_hunks overlap or are out of order", "content": content.decode(),
                                    "styles": styles, "search": search, "replace": replace, "matches": repr(impl)[:600]})
                break
    return stats


def run(R):
    R.trusted += ["Coq 8.16.1 kernel", "harness (scan_tree, simple_plan_tree, find_matches, is_boundary)", "extraction + modelrun.ml",
                  "Python oracle (independent)"]
    proved = R.prove()
    hp, hlog = core.build_harness()
    mp, mlog = core.build_model()
    if hp is None or mp is None:
        R.violation("harness or model driver does not build", {"log": (hlog + mlog)[-3000:]}, has_input=False)
        return
    H, M = core.Harness([str(hp)]), core.Model([str(mp)])
    g = gen.G(R.seed * 1103515245 % (2**31) + 3)
    r = g.r
    quick = R.tier == "quick"
    out = {"fail": [], "dis": [], "hunks": 0, "plans": 0, "by_planner": {}}
    # (1) matcher correspondence: model find_matches / is_boundary vs pattern.rs
    for i in range(120 if quick else 4000):
        a, b = g.term_pair()
        variants = [gen.render(a, st).encode() for st in r.sample(gen.STYLES14, r.randint(1, 8))]
        if r.random() < 0.3:
            variants.append(a[0].encode())
        content = g.content(a, nlines=r.randint(0, 6), p_match=0.7)
        if r.random() < 0.3:
            content = content.replace(b" ", r.choice([b"_", b"-", b".", b"X", b"1", b"  "]), r.randint(0, 3))
        hr = H.ask({"op": "find_matches", "variants": [core.hx(v) for v in variants], "content": core.hx(content)})
        mr = M.ask("find_matches", variants, content)
        R.case(("fm", tuple(variants), content), nontrivial=bool(hr.get("ok")))
        impl = [(x[0], x[1], x[2], x[3], bytes.fromhex(x[4])) for x in hr.get("ok", [])] if "ok" in hr else ("ERR", hr)
        mod = [(int(x[0]), int(x[1]), int(x[2]), int(x[3]), core.atom_bytes(x[4])) for x in mr] if isinstance(mr, list) else ("ERR", mr)
        if impl != mod:
            out["dis"].append({"why": "find_matches differs from the model", "variants": [v.decode() for v in variants],
                               "content": content.decode("utf-8", "replace"), "impl": repr(impl)[:500], "model": repr(mod)[:500]})
        if i < 1:
            R.sample({"find_matches": [v.decode() for v in variants], "content": content.decode("utf-8", "replace")[:200], "matches": len(impl) if isinstance(impl, list) else impl})
    # (2) plans of the real planners against the bytes
    n = 40 if quick else 1500
    for i in range(n):
        tree, a, b = scenario(g, i)
        tj = cli.tree_json(tree)
        td = al.tree_dict(tree)
        st = r.choice(["Snake", "Kebab", "Camel", "Pascal", "Title"])
        search, replace = gen.render(a, st), gen.render(b, r.choice(["Snake", "Camel"]))
        opts = {}
        if i % 4 == 1:
            opts["styles"] = r.sample(gen.STYLES14, r.randint(1, 6))
        if i % 4 == 2:
            opts["enable_plural_variants"] = False
        if i % 5 == 3:
            opts["no_acronyms"] = True
        # options that drop matches after they were found: the summary must still count what is listed
        if i % 3 == 0:
            opts["exclude_match"] = [gen.render(a, r.choice(["Snake", "ScreamingSnake", "Camel", "Pascal", "Kebab"]))]
        if i % 3 == 1:
            opts["exclude_matching_lines"] = r.choice(["^last", "x" + gen.render(a, "Snake"), "[A-Z]", gen.render(a, "Snake") + "$", "."])
        if i % 8 == 6:
            opts["ignore_ambiguous"] = True
        roots = None
        if i % 6 == 5:
            dirs = [e["p"] for e in tree if e.get("k") == "d"]
            if dirs:
                roots = [dirs[0]]
        req = {"op": "scan_tree", "tree": tj, "search": core.hx(search), "replace": core.hx(replace if i % 7 else ""), "options": opts}
        if roots:
            req["roots"] = roots
        sr = H.ask(req)
        ctx = {"tree": tj, "search": search, "replace": replace, "options": opts, "roots": roots}
        if sr.get("ok"):
            out["plans"] += 1
            out["by_planner"]["scan"] = out["by_planner"].get("scan", 0) + 1
            nh = check_plan(R, M, td, sr["plan"], True, "case-aware planner", out, ctx)
            R.case(("scan", json.dumps(tj, sort_keys=True), search, replace, json.dumps(opts, sort_keys=True)), nontrivial=nh > 0)
        # replace planner: literal and regex
        lit = gen.render(a, "Snake")
        for is_regex, pat, rep in ((False, lit, "Z" + replace), (True, lit[:-1] + "[a-z]", "<$0>" if False else "R"), (True, "(" + a[0] + ")_(" + a[1] + ")", "$2_$1")):
            sreq = {"op": "simple_plan_tree", "tree": tj, "pattern": core.hx(pat), "replacement": core.hx(rep), "regex": is_regex}
            if i % 2:
                # lines dropped by the filter still count as lines of the file
                sreq["exclude_matching_lines"] = r.choice(["^x", "^last", "é", "^$", "[0-9]"])
            pr = H.ask(sreq)
            if pr.get("ok"):
                out["plans"] += 1
                k = "replace_regex" if is_regex else "replace_literal"
                out["by_planner"][k] = out["by_planner"].get(k, 0) + 1
                nh = check_plan(R, M, td, pr["plan"], False, "replace planner", out, {**ctx, "pattern": pat, "regex": is_regex})
                R.case(("simple", json.dumps(tj, sort_keys=True), pat, rep, is_regex), nontrivial=nh > 0)
    # (3) CLI JSON of plan / search / rename --dry-run / replace --dry-run
    for i in range(4 if quick else 40):
        tree, a, b = scenario(g, i)
        search, replace = gen.render(a, "Snake"), gen.render(b, "Snake")
        with cli.Sandbox(tree) as sb:
            td = al.tree_dict(sb.tree_entries())
            filt = [["--exclude-match", gen.render(a, "Camel")], ["--exclude-matching-lines", "^last|x" + search], ["--ignore-ambiguous"],
                    ["--exclude-matching-lines", "."]][i % 4]
            for label, args, wt in (("cli plan", ["plan", search, replace, "--dry-run", "--output", "json", "--quiet"], True),
                                    ("cli plan filtered", ["plan", search, replace, "--dry-run", "--output", "json", "--quiet"] + filt, True),
                                    ("cli rename --dry-run filtered", ["rename", search, replace, "--dry-run", "--output", "json", "--quiet"] + filt, True),
                                    ("cli search", ["search", search, "--output", "json", "--quiet"], True),
                                    ("cli rename --dry-run", ["rename", search, replace, "--dry-run", "--output", "json", "--quiet"], True),
                                    ("cli replace --dry-run", ["replace", "--no-regex", search, replace, "--dry-run", "--output", "json"], False),
                                    ("cli replace --dry-run filtered", ["replace", "--no-regex", search, replace, "--dry-run", "--output", "json",
                                                                        "--exclude-matching-lines", "^x|^last|é"], False)):
                rc, o, e = sb.run(["--no-auto-init", "-y"] + args)
                if rc != 0 or not o.strip():
                    continue
                try:
                    doc = json.loads(o.decode("utf-8"))
                except Exception:
                    continue
                plan = doc.get("plan", doc) if isinstance(doc, dict) else None
                if not isinstance(plan, dict) or "matches" not in plan:
                    continue
                plan = al.relativize(plan, sb.root)
                out["plans"] += 1
                out["by_planner"][label] = out["by_planner"].get(label, 0) + 1
                nh = check_plan(R, M, td, plan, wt, label, out, {"tree": cli.tree_json(tree), "search": search, "replace": replace})
                R.case((label, search, replace, i), nontrivial=nh > 0)
    est = enhanced_stream(R, H, M, g, out, quick)
    H.close()
    M.close()
    # Model/SimplePlan.v (the planner behind `replace`, literal mode) against the real create_simple_plan, hunk by hunk and stats
    env = dict(core.ENV, RN_HARNESS=str(hp), RN_ROCQ=str(core.ROCQ), RN_WORK=str(core.BUILD / "simpleplan_work"))
    rc, txt, dt = core.sh(["python3", str(core.VERIF / "lib" / "simpleplan_difftest.py"), str(R.seed + 31), "100" if quick else "1500"],
                          env=env, timeout=3000)
    m1 = __import__("re").search(r"compared (\d+) hunks in (\d+) cases", txt)
    m2 = __import__("re").search(r"DISAGREEMENTS: (\d+)", txt)
    spt = {"hunks_compared": int(m1.group(1)) if m1 else 0, "cases": int(m1.group(2)) if m1 else 0,
           "disagreements": int(m2.group(1)) if m2 else None}
    if not m1 or not m2 or int(m1.group(1)) == 0:
        out["dis"].append({"why": "the simple-planner differential run did not complete", "log": txt[-1500:]})
    elif int(m2.group(1)) > 0:
        out["dis"].append({"why": "Model/SimplePlan.v differs from scanner.rs::create_simple_plan", "log": txt[txt.find("DISAGREEMENTS"):][:2500]})
    # the regex mode of the same planner (Model/SimplePlanRx.v): the oracle table comes from Python's re on a pattern subset on which it
    # agrees with the regex crate; everything else - line handling, offsets, the code's own $i expansion, stats, the preview - is compared
    rc, txt, dt = core.sh(["python3", str(core.VERIF / "lib" / "simpleplanrx_difftest.py"), str(R.seed + 37), "80" if quick else "1200"],
                          env=dict(env, RN_WORK=str(core.BUILD / "simpleplanrx_work")), timeout=3000)
    m1 = __import__("re").search(r"compared (\d+) hunks in (\d+) cases", txt)
    m2 = __import__("re").search(r"DISAGREEMENTS: (\d+)", txt)
    sprx = {"hunks_compared": int(m1.group(1)) if m1 else 0, "cases": int(m1.group(2)) if m1 else 0,
            "disagreements": int(m2.group(1)) if m2 else None}
    if not m1 or not m2 or int(m1.group(1)) == 0:
        out["dis"].append({"why": "the regex-mode simple-planner differential run did not complete", "log": txt[-1500:]})
    elif int(m2.group(1)) > 0:
        out["dis"].append({"why": "Model/SimplePlanRx.v differs from scanner.rs::create_simple_plan (regex mode)", "log": txt[txt.find("DISAGREEMENTS"):][:2500]})
    R.coverage["input_distribution"] = {"plans": out["plans"], "hunks_checked": out["hunks"], "by_planner": out["by_planner"],
                                        "enhanced_matcher_stream": est, "simple_planner_model": spt, "simple_planner_regex_model": sprx}
    R.disagreements = len(out["dis"])
    for f in out["fail"][:3]:
        R.violation(f["why"], {"kind": "impl_failure", **f})
    if out["fail"]:
        return
    if not proved:
        R.violation("proof obligation of Props/C03.v no longer checks (no inconsistent plan found)",
                    {"kind": "proof_broken", **getattr(R, "broken", {})}, has_input=False)
    elif out["dis"]:
        R.violation("matcher model / implementation correspondence broke (no inconsistent plan found)",
                    {"kind": "correspondence", "first": out["dis"][:3], "count": len(out["dis"])}, has_input=False)


def replay(R, obj):
    hp, _ = core.build_harness()
    mp, _ = core.build_model()
    H, M = core.Harness([str(hp)]), core.Model([str(mp)])
    out = {"fail": [], "dis": [], "hunks": 0, "plans": 0, "by_planner": {}}
    if "tree" in obj and "search" in obj:
        tree = cli.tree_from_json(obj["tree"])
        td = al.tree_dict(tree)
        if "pattern" in obj:
            pr = H.ask({"op": "simple_plan_tree", "tree": obj["tree"], "pattern": core.hx(obj["pattern"]), "replacement": core.hx("R"), "regex": obj.get("regex", False)})
            if pr.get("ok"):
                check_plan(R, M, td, pr["plan"], False, "replace planner", out, {})
        else:
            req = {"op": "scan_tree", "tree": obj["tree"], "search": core.hx(obj["search"]), "replace": core.hx(obj["replace"]), "options": obj.get("options") or {}}
            if obj.get("roots"):
                req["roots"] = obj["roots"]
            sr = H.ask(req)
            if sr.get("ok"):
                check_plan(R, M, td, sr["plan"], True, "case-aware planner", out, {})
    print(json.dumps({"failures": [f["why"] for f in out["fail"]]}, indent=1))
    return 1 if out["fail"] else 0
