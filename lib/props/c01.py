"""C01 — Undo restores the exact pre-apply tree."""
import json
import core
import cli
import gen
import applylib as al

LEVEL = "proof"
EXPLANATION = ("Theorems (Props/C01.v): the patch-header rewrite keeps the body of every diffy patch intact (for all "
               "bodies, including lines that look like headers), the reversal order of directory renames returns every "
               "nested entry, and undo after apply is the identity on the user view of the model under the stated guards. "
               "The models of replace_patch_headers and of the rename reversal are run against the implementation; CLI "
               "scenarios (diff-like lines, CRLF/mixed endings, no final newline, empty files, non-ASCII text, nested "
               "renamed directories, symlinks, modes) check snapshot(before apply) = snapshot(after undo). Partial: the "
               "Myers diff inside diffy is an oracle (sampled by the harness).")
ASSUMPTIONS = ["diffy::create_patch/apply are inverse on the exact text (oracle, sampled)", "POSIX semantics of Model/Fs.v"]

CMDS = ("rename", "plan_apply", "replace")


def scenario(g, i):
    a, b = g.term_pair()
    r = g.r
    s = gen.render(a, "Snake")
    tree = g.tree(a, depth=4, p_dir_match=0.5, p_file_match=0.5)
    extra = [
        {"p": "sql_" + s + ".sql", "k": "f", "c": ("-- " + s + " comment\nselect 1;\n++ " + s + "\n--- " + s + "\n+++ " + s + "\n@@ " + s + " @@\n").encode(), "m": 0o644},
        {"p": "crlf.txt", "k": "f", "c": ("a " + s + "\r\nb\r\n" + s + "\r\n").encode(), "m": 0o644},
        {"p": "mixed.txt", "k": "f", "c": ("a " + s + "\r\nb " + s + "\n" + s).encode(), "m": 0o600},
        {"p": "nonl.txt", "k": "f", "c": ("x\n" + s).encode(), "m": 0o755},
        {"p": "empty.txt", "k": "f", "c": b"", "m": 0o644},
        {"p": "uni.txt", "k": "f", "c": ("café " + s + " ☃\n\\ No newline at end of file\n" + s + "\n").encode(), "m": 0o644},
    ]
    if i % 3 == 0:
        extra += [{"p": f"{s}_a", "k": "d", "m": 0o755}, {"p": f"{s}_a/{s}_b", "k": "d", "m": 0o755},
                  {"p": f"{s}_a/{s}_b/{s}_c", "k": "d", "m": 0o755},
                  {"p": f"{s}_a/{s}_b/{s}_c/{s}_f.txt", "k": "f", "c": (s + "\n").encode(), "m": 0o644},
                  {"p": f"{s}_a/{s}_b/plain.txt", "k": "f", "c": ("-- " + s + "\n").encode(), "m": 0o644}]
    if i % 4 == 1:
        extra += [{"p": "dangling_" + s, "k": "l", "t": "nowhere/" + s}, {"p": "ln_to_file", "k": "l", "t": "crlf.txt"}]
    if i % 5 == 2:
        extra += [{"p": "sp ace " + s + ".txt", "k": "f", "c": (s + "\n").encode(), "m": 0o644}]
    if i % 4 == 2:
        # symlinks named with the term that point at directories the same operation renames (shallower / same depth / deeper)
        extra += [{"p": "pkg", "k": "d", "m": 0o755}, {"p": "pkg/" + s + "_dir", "k": "d", "m": 0o755},
                  {"p": "pkg/" + s + "_dir/readme.md", "k": "f", "c": (s + " docs\n").encode(), "m": 0o644},
                  {"p": s + "_link", "k": "l", "t": "pkg/" + s + "_dir"}, {"p": "pkg/a_" + s + "_ln", "k": "l", "t": s + "_dir"},
                  {"p": "pkg/" + s + "_dir/up_" + s, "k": "l", "t": ".."}]
    if i % 3 == 1:
        # names that need quoting in a unified-diff header or in a shell: quote, backslash, tab, apostrophe, leading dash, unicode
        odd = ['we"ird ' + s + '.txt', "back\\slash_" + s + ".txt", "tab\t" + s + ".txt", "it's_" + s + ".md", "-dash " + s, "ünï_" + s + ".txt",
               s + ' "q" dir']
        nm = odd[(i // 3) % len(odd)]
        if nm.endswith("dir"):
            extra += [{"p": nm, "k": "d", "m": 0o755}, {"p": nm + "/in\\ner " + s + ".txt", "k": "f", "c": (s + " inside\n").encode(), "m": 0o644}]
        else:
            extra += [{"p": nm, "k": "f", "c": ("x " + s + " y\n").encode(), "m": 0o644}]
    seen, out = set(), []
    forced = [e for e in extra if any(ch in e["p"] for ch in '"\\\t\'') or e["p"].startswith("-") or "ünï" in e["p"] or e["p"].startswith("pkg") or e["p"].endswith("_link")]
    for e in tree + r.sample(extra, r.randint(3, len(extra))) + forced:
        if e["p"] not in seen:
            seen.add(e["p"])
            out.append(e)
    st = r.choice(["Snake", "Kebab", "Camel", "Pascal"])
    repl = gen.render(b, st) if r.random() < 0.7 else gen.render(a + b[:1], st)
    if r.random() < 0.08:
        repl = ""
    return out, s, repl


def run_cmd(sb, cmd, search, replace):
    base = ["--no-auto-init", "-y"]
    if cmd == "rename":
        extra = ["--no-rename-paths"] if replace == "" else []
        return sb.run(base + ["rename", search, replace] + extra)
    if cmd == "plan_apply":
        extra = ["--no-rename-paths"] if replace == "" else []
        rc, o, e = sb.run(["--no-auto-init", "plan", search, replace, "--quiet"] + extra)
        if rc != 0:
            return rc, o, e
        return sb.run(base + ["apply"])
    return sb.run(base + ["replace", "--no-regex", search, replace if replace else "zz"])


def one(R, tree, search, replace, cmd, fails, stats):
    with cli.Sandbox(tree) as sb:
        before = sb.snapshot()
        rc, o, e = run_cmd(sb, cmd, search, replace)
        mid = sb.snapshot()
        R.case((cmd, search, replace, repr(sorted(before.items()))), nontrivial=(mid != before))
        if rc != 0:
            stats["apply_failed"] += 1
            return
        stats["applied"] += 1
        if mid == before:
            stats["noop"] += 1
            return
        rc2, o2, e2 = sb.run(["--no-auto-init", "-y", "undo", "latest"])
        after = sb.snapshot()
        if len(R.coverage["samples"]) < 3:
            R.sample({"cmd": cmd, "search": search, "replace": replace, "files": sorted(before)[:10], "undo_rc": rc2})
        if rc2 != 0 or after != before:
            fails.append({"why": "undo did not restore the pre-apply tree" if rc2 == 0 else "undo of a successful apply failed",
                          "cmd": cmd, "undo_rc": rc2, "undo_stderr": e2.decode("utf-8", "replace")[-500:],
                          "diff": repr(cli.diff_snap(before, after))[:1500], "tree": cli.tree_json(tree),
                          "search": search, "replace": replace})


def occupied_variant(tree, search, replace, r, k):
    """the same tree with an unplanned entry sitting at the destination of one planned rename (file, empty directory, symlink to
    the renamed entry, dangling symlink). The unchanged code refuses such an apply (counted as apply_failed); should a variant
    of the code let it through, undo has to bring the occupant back as well."""
    if replace == "":
        return None
    with cli.Sandbox(tree) as sb:
        rc, o, e = sb.run(["--no-auto-init", "plan", search, replace, "--dry-run", "--output", "json", "--quiet"])
        if rc != 0:
            return None
        try:
            doc = json.loads(o.decode("utf-8"))
            plan = al.relativize(doc.get("plan", doc), sb.root)
        except Exception:
            return None
    paths = [p for p in plan.get("paths", []) if p.get("new_path")]
    if not paths:
        return None
    ren = r.choice(paths)
    dest = ren["new_path"]
    names = {e["p"] for e in tree}
    if dest in names or search.lower().replace("_", "") in dest.rsplit("/", 1)[-1].lower().replace("_", "").replace("-", ""):
        return None      # the occupant would itself be renamed (replacement contains the term)
    if k % 5 == 4:
        # the SOURCE becomes a symlink whose target is its own planned destination, where a regular file sits (an alias left by a
        # manual rename): canonicalising the source lands on the occupant
        src = next((e for e in tree if e["p"] == ren["path"]), None)
        if src is None or src["k"] != "f" or any(e["p"].startswith(ren["path"] + "/") for e in tree):
            return None
        t2 = [e for e in tree if e["p"] != ren["path"]]
        return t2 + [{"p": ren["path"], "k": "l", "t": dest.rsplit("/", 1)[-1]}, {"p": dest, "k": "f", "c": b"the real file\n", "m": 0o640}]
    occ = [{"p": dest, "k": "l", "t": ren["path"].rsplit("/", 1)[-1]}, {"p": dest, "k": "f", "c": b"occupant\n", "m": 0o640},
           {"p": dest, "k": "d", "m": 0o755}, {"p": dest, "k": "l", "t": "nowhere"}][k % 5 % 4]
    return tree + [occ]


def temp_name_bystanders(R, g, fails, stats):
    """undo writes each restored file through <stem>.<pid>.renamify.tmp beside it. An entry that already carries that name for the undo
    process's pid (a leftover of a crashed run, the user's own file, a symlink) is not in the plan: whatever undo does, it must survive,
    and so must whatever a symlink of that name points at. The pid is known in advance: bash writes the entry, then execs renamify."""
    for j in range(3 if R.tier == "quick" else 24):
        a, b = g.term_pair()
        s, t = gen.render(a, "Snake"), gen.render(b, "Snake")
        tree = [{"p": "d", "k": "d", "m": 0o755}, {"p": "d/notes.txt", "k": "f", "c": (f"see {s} here\n").encode(), "m": 0o640},
                {"p": "d/y.txt", "k": "f", "c": b"bystander y\n", "m": 0o600}, {"p": f"{s}_file.txt", "k": "f", "c": b"plain\n", "m": 0o644}]
        kind = j % 3
        make = ['printf "PRECIOUS USER DATA\\n" > "d/notes.$$.renamify.tmp"', 'ln -s y.txt "d/notes.$$.renamify.tmp"',
                'ln -s nowhere "d/notes.$$.renamify.tmp"'][kind]
        with cli.Sandbox(tree) as sb:
            rc, o, e = sb.run(["--no-auto-init", "-y", "rename", s, t])
            if rc != 0:
                continue
            before = sb.snapshot()
            script = make + '; echo $$ > ../pid_of_undo; exec "$0" "$@"'
            rcu, ou, eu = sb.run(["-c", script, cli.cli_bin(), "--no-auto-init", "-y", "undo", "latest"], bin="/bin/bash")
            try:
                pid = int((sb.root.parent / "pid_of_undo").read_text())
            except Exception:
                continue
            after = sb.snapshot()
            stats["undo_temp_name_bystander_runs"] = stats.get("undo_temp_name_bystander_runs", 0) + 1
            R.case(("undo_temp_name", s, kind), nontrivial=True)
            occ = f"d/notes.{pid}.renamify.tmp"
            want_occ = [("f", None), ("l", "y.txt"), ("l", "nowhere")][kind]
            got = after.get(occ)
            ok_occ = got is not None and got[0] == want_occ[0] and (want_occ[1] is None or got[1] == want_occ[1])
            if kind == 0 and ok_occ:
                ok_occ = (sb.root / occ).read_bytes() == b"PRECIOUS USER DATA\n"
            if not ok_occ or after.get("d/y.txt") != before.get("d/y.txt"):
                fails.append({"why": f"undo (exit {rcu}) destroyed an entry that is not in the plan: it carried the name undo uses for its temporary file "
                                     f"({['a user file', 'a symlink to the bystander d/y.txt', 'a dangling symlink'][kind]})", "tree": cli.tree_json(tree),
                              "search": s, "replace": t, "occupant_now": repr(got)[:120], "y_before": repr(before.get("d/y.txt")),
                              "y_now": repr(after.get("d/y.txt")), "stderr": eu.decode("utf-8", "replace")[-300:]})


def run(R):
    R.trusted += ["Coq 8.16.1 kernel", "harness (patch_headers, diffy ops)", "extraction + modelrun.ml"]
    proved = R.prove()
    g = gen.G(R.seed * 15485863 + 1)
    n = 24 if R.tier == "quick" else 400
    fails, stats = [], {"applied": 0, "apply_failed": 0, "noop": 0}
    for i in range(n):
        tree, search, replace = scenario(g, i)
        one(R, tree, search, replace, CMDS[i % 3], fails, stats)
        if i % 3 != 2:
            t2 = occupied_variant(tree, search, replace, g.r, stats.get("occupied_destination_variants", 0))
            if t2 is not None:
                stats["occupied_destination_variants"] = stats.get("occupied_destination_variants", 0) + 1
                one(R, t2, search, replace, CMDS[i % 3], fails, stats)
    temp_name_bystanders(R, g, fails, stats)
    R.coverage["input_distribution"] = stats
    dis = tie(R, g)
    R.disagreements = len(dis)
    if stats["applied"] - stats["noop"] < n // 3:
        fails.append({"why": "too few scenarios applied successfully: the undo runs are vacuous", **stats})
    for f in fails[:3]:
        R.violation(f["why"], {"kind": "impl_failure", **f})
    if fails:
        return
    if not proved:
        R.violation("proof obligation of Props/C01.v no longer checks (no failing input found)",
                    {"kind": "proof_broken", **getattr(R, "broken", {})}, has_input=False)
    elif dis:
        R.violation("patch/undo model vs implementation correspondence broke (no failing input found)",
                    {"kind": "correspondence", "first": dis[:3], "count": len(dis)}, has_input=False)


def tie(R, g):
    """model vs implementation: (a) replace_patch_headers on real diffy patches of generated text pairs,
    including diff-like lines; (b) diffy parse of the rewritten patch; (c) undo_core on real apply results."""
    dis = []
    hp, hlog = core.build_harness()
    mp, mlog = core.build_model()
    if hp is None or mp is None:
        return [{"why": "harness or model driver does not build", "log": (hlog + mlog)[-2000:]}]
    H, M = core.Harness([str(hp)]), core.Model([str(mp)])
    r = g.r
    n = 150 if R.tier == "quick" else 4000
    names = ["a.txt", "dir/b c.sql", "x/y/z.rs", "café.md", "we\"ird.txt", "tab\tname", "back\\slash", "-- dash.sql", "+++ plus"]
    for i in range(n):
        a, b2 = g.term_pair()
        before = g.content(a, nlines=r.randint(0, 7), p_match=0.6)
        s, nn = gen.render(a, "Snake").encode(), gen.render(b2, "Snake").encode()
        after = before.replace(s, nn).replace(gen.render(a, "Camel").encode(), gen.render(b2, "Camel").encode())
        frm, to = r.choice(names), r.choice(names)
        d0 = H.ask({"op": "diffy", "a": core.hx(after), "b": core.hx(before)})
        if "text" not in d0:
            continue
        text = bytes.fromhex(d0["text"])
        ph = H.ask({"op": "patch_headers", "patch": core.hx(text), "from": core.hx(frm), "to": core.hx(to)})
        impl = bytes.fromhex(ph["ok"]) if "ok" in ph else None
        m = M.ask("rewrite_headers", frm.encode(), to.encode(), text)
        mod = core.atom_bytes(m) if isinstance(m, str) and m.startswith("x") else None
        R.case(("hdr", before, after, frm, to), nontrivial=(before != after))
        if impl != mod:
            dis.append({"why": "replace_patch_headers differs from the model", "patch": text.decode("utf-8", "replace"),
                        "from": frm, "to": to, "impl": repr(impl)[:600], "model": repr(mod)[:600]})
            continue
        # (b) parse + apply of the rewritten patch on the implementation; model predicts whether the header parses
        d1 = H.ask({"op": "diffy", "a": core.hx(after), "b": core.hx(before), "from": core.hx(frm), "to": core.hx(to)})
        mb = M.ask("diffy_body", impl)
        model_parses = isinstance(mb, list) and mb and mb[0] == "some"
        impl_parses = not (d1.get("ok") is False and d1.get("stage") == "parse")
        if model_parses != impl_parses:
            dis.append({"why": "diffy header parsing differs from the model", "from": frm, "to": to,
                        "impl": {k: d1.get(k) for k in ("ok", "stage", "msg")}, "model_parses": model_parses})
        elif impl_parses and d1.get("ok") is not True:
            dis.append({"why": "oracle hypothesis Hdiff fails: diffy does not invert its own patch", "from": frm, "to": to,
                        "a": after.decode("utf-8", "replace"), "b": before.decode("utf-8", "replace"),
                        "impl": {k: d1.get(k) for k in ("ok", "stage", "msg")}})
    # (c) undo_core vs the real undo
    for i in range(8 if R.tier == "quick" else 120):
        tree, search, replace = scenario(g, i * 3)   # i*3: includes the nested-directory family
        if replace == "":
            continue
        with cli.Sandbox(tree) as sb:
            before_entries = sb.tree_entries()
            rc, o, e = sb.run(["--no-auto-init", "-y", "rename", search, replace])
            if rc != 0:
                continue
            hist = sb.history() or []
            if not hist or hist == "UNPARSABLE":
                continue
            pid = hist[-1]["id"]
            try:
                plan = al.relativize(json.loads((sb.root / ".renamify" / "plans" / f"{pid}.json").read_text()), sb.root)
            except Exception:
                continue
            mid_entries = sb.tree_entries()
            rc2, o2, e2 = sb.run(["--no-auto-init", "-y", "undo", pid])
            real = al.tree_dict(sb.tree_entries())
            orig = al.tree_dict(before_entries)
            rs = [[al.split_path(x["path"]), al.split_path(x.get("new_path", "")), x["kind"] == "dir"] for x in plan["paths"]]
            patched = sorted({(h.get("original_file") or h["file"]) for h in plan["matches"] if h.get("patch_hash")})
            restore = [[al.split_path(p), ["some", orig[p][2]] if p in orig and orig[p][0] == "f" else None] for p in patched]
            created = [al.split_path(al.relativize({"matches": [], "paths": [{"path": d, "kind": "dir"}]}, sb.root)["paths"][0]["path"])
                       for d in (plan.get("created_directories") or [])]
            m = M.ask("undo_core", rs, restore, created, al.fs_sx([x for x in mid_entries]))
            R.case(("undo_core", search, replace, repr(sorted(orig))), nontrivial=bool(rs))
            if not isinstance(m, list) or m[0] not in ("true", "false"):
                dis.append({"why": "undo model error", "resp": repr(m)[:300]})
                continue
            mfs = al.user_only(al.fs_from_sx(m[1]))
            if (m[0] == "true") != (rc2 == 0) or mfs != real:
                dis.append({"why": "undo_core differs from the real undo", "model_ok": m[0], "undo_rc": rc2,
                            "diff": repr(al.diff_dict(mfs, real)), "tree": cli.tree_json(tree), "search": search, "replace": replace})
    H.close()
    M.close()
    return dis


def replay(R, obj):
    fails, stats = [], {"applied": 0, "apply_failed": 0, "noop": 0}
    if "tree" in obj:
        one(R, cli.tree_from_json(obj["tree"]), obj["search"], obj["replace"], obj.get("cmd", "rename"), fails, stats)
    print(json.dumps({"failures": [(f["why"], f["diff"][:400], f["undo_stderr"][-200:]) for f in fails], "stats": stats}, indent=1))
    return 1 if fails else 0
