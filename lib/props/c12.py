"""C12 — The workspace lock gives mutual exclusion."""
import json
import os
import subprocess
import tempfile
import time
from pathlib import Path

import core
import cli
import gen

LEVEL = "proof"
EXPLANATION = ("Theorems (Props/C12.v) over a small-step model of lock.rs for any number of processes and any interleaving "
               "at file-system-call granularity: the full mutual-exclusion statement is refuted by two machine-checked "
               "schedules (stale-lock take-over by two processes; a three-process schedule without any stale lock in which "
               "a lock read just before its owner exits is later removed as 'orphaned'); it is proved for two fresh "
               "processes under every interleaving and crash (finite reachable set computed and shown closed inside "
               "Coq, lifted to all schedules by induction); the table 'which command takes the lock' and the stale "
               "timeout are regenerated from the source. Model schedules are replayed on real renamify processes through "
               "feature-gated scheduling points, and every mutating command is run against a live holder.")
ASSUMPTIONS = ["kill(pid,0) truthful; pid reuse not modelled", "create_new (O_EXCL) atomic",
               "real schedulers are driven through the hooks, not observed in the wild"]

OP_OF_PC = {"start": "exists", "sawexists": "read", "remove": "remove", "create": "create", "write": "write",
            "dropcheck": "drop_exists", "dropremove": "drop_remove"}


class Proc:
    def __init__(self, idx, sb, sched, delay=30):
        self.idx = idx
        self.n = 0
        self.sched = sched
        env = dict(core.ENV)
        env.pop("RENAMIFY_YES", None)
        env.pop("NO_COLOR", None)
        env["RENAMIFY_VERIF_SCHED_DIR"] = str(sched)
        env["RENAMIFY_VERIF_PROC"] = str(idx)
        env["HOME"] = str(sb.dir / "home")
        self.p = subprocess.Popen([cli.cli_bin(), "--no-auto-init", "test-lock", "--delay", str(delay)],
                                  cwd=str(sb.root), env=env, stdout=subprocess.PIPE, stderr=subprocess.PIPE)
        self.pid = self.p.pid

    def waiting_at(self, timeout=10.0):
        """name of the scheduling point the process is blocked at, or None when it has exited"""
        f = self.sched / f"{self.idx}.at.{self.n}"
        t0 = time.time()
        while time.time() - t0 < timeout:
            if f.exists():
                try:
                    s = f.read_text()
                    if s:
                        return s
                except OSError:
                    pass
            if self.p.poll() is not None:
                # it may have announced just before exiting
                if f.exists():
                    return f.read_text()
                return None
            time.sleep(0.001)
        return "TIMEOUT"

    def release(self):
        (self.sched / f"{self.idx}.go.{self.n}").write_text("go")
        self.n += 1

    def finish(self):
        try:
            out, err = self.p.communicate(timeout=10)
        except subprocess.TimeoutExpired:
            self.p.kill()
            out, err = self.p.communicate()
        return self.p.returncode, err.decode("utf-8", "replace")


def lock_class(sb, pidmap, now0):
    p = sb.root / ".renamify" / "renamify.lock"
    if not p.exists():
        return None
    s = p.read_text(errors="replace").strip()
    if s == "":
        return "empty"
    parts = s.split(":")
    if len(parts) != 2:
        return "nocolon"
    try:
        pid = int(parts[0])
        int(parts[1])
    except ValueError:
        return "garbagecolon"
    return ["valid", pidmap.get(pid, pid)]


def model_lock_class(l):
    if l == "none":
        return None
    c = l[1]
    if isinstance(c, str):
        return c
    return ["valid", int(c[1])]


INIT_STATES = ["absent", "stale", "orphaned", "empty", "nocolon"]


MODEL_NOW = 1000      # the model's clock (unary nat): real timestamps are mapped to it


def init_lock(kind, now):
    """(model initial content sexp, text to write or None)"""
    if kind == "absent":
        return None, None
    if kind == "stale":
        return ["some", ["valid", 99, 0]], f"999999:{now - 1000}"
    if kind == "orphaned":
        return ["some", ["valid", 99, MODEL_NOW]], f"999999:{now}"
    if kind == "empty":
        return ["some", "empty"], ""
    if kind == "nocolon":
        return ["some", "nocolon"], "garbage"
    raise ValueError(kind)


def gen_schedule(M, r, init, now, pids, maxlen=60):
    """random walk over the model; a decision step always follows its read immediately"""
    evs = []
    must = None
    for _ in range(maxlen):
        tr = M.ask("lock_trace", init, MODEL_NOW, pids, [99], evs)
        w = tr[-1]
        procs = {int(p): pc for p, pc in w[2]}
        live = [p for p, pc in procs.items() if not (isinstance(pc, list) and pc[0] == "done")]
        if not live:
            break
        if must is not None and must in live:
            p = must
        else:
            p = r.choice(live)
        evs.append(["step", p])
        pc = procs[p]
        must = p if pc == "sawexists" else None    # after the read comes the decision
        if isinstance(pc, list) and pc[0] == "read":
            must = None
    return evs


def replay_schedule(M, kind, pids, evs, now):
    """run the schedule on real processes; returns dict with model/real observations"""
    init, text = init_lock(kind, now)
    tr = M.ask("lock_trace", init, MODEL_NOW, pids, [99], evs)
    if tr[-1] == "invalid":
        return {"skip": "invalid schedule"}
    with cli.Sandbox([{"p": "a.txt", "k": "f", "c": b"hello\n"}]) as sb:
        (sb.root / ".renamify").mkdir()
        if text is not None:
            (sb.root / ".renamify" / "renamify.lock").write_text(text)
        sched = Path(tempfile.mkdtemp(prefix="sched", dir=sb.dir))
        procs = {p: Proc(p, sb, sched) for p in pids}
        pidmap = {procs[p].pid: p for p in pids}
        pidmap[999999] = 99
        mism = []
        foreign = []
        crit = set()
        max_overlap = 0
        for i, ev in enumerate(evs):
            p = int(ev[1])
            before = tr[i]
            pc = {int(q): c for q, c in before[2]}[p]
            if isinstance(pc, list) and pc[0] == "read":
                continue                      # the decision: no system call of its own
            if pc == "critical":
                # the command body finishes: the process proceeds to Drop on its own
                at = procs[p].waiting_at()
                if at != "drop_exists":
                    mism.append({"step": i, "proc": p, "model": "critical->drop", "real_at": at})
                crit.discard(p)
                continue
            want = OP_OF_PC.get(pc if isinstance(pc, str) else None)
            at = procs[p].waiting_at()
            if at != want:
                mism.append({"step": i, "proc": p, "model_pc": pc, "expected_point": want, "real_at": at})
                break
            procs[p].release()
            # wait until the call has been made: the process reaches its next point or exits
            nxt = procs[p].waiting_at()
            after_pc = {int(q): c for q, c in tr[i + 1][2]}[p]
            if pc == "create" and after_pc == "critical":
                crit.add(p)
                max_overlap = max(max_overlap, len(crit))
            if isinstance(after_pc, list) and after_pc[0] == "done" and after_pc[1] != "true":
                # the model says this process has given up without ever holding the lock: the real one must leave without another
                # file-system step of the lock protocol; whatever it still does is let through here, BEFORE the lock is compared,
                # so that a loser's clean-up that removes the winner's lock is seen while the winner is running
                for _ in range(8):
                    if nxt in (None, "TIMEOUT"):
                        break
                    mism.append({"step": i, "proc": p, "model": "gave up (done without the lock)", "real_at": nxt,
                                 "why": "a process that failed to acquire performs further lock-protocol steps"})
                    procs[p].release()
                    nxt = procs[p].waiting_at()
            real_lock = lock_class(sb, pidmap, now)
            model_lock = model_lock_class(tr[i + 1][0])
            # direct oracle: a running holder's lock is never removed or replaced by another process
            for h in list(crit):
                if h != p and real_lock != ["valid", h]:
                    foreign.append({"step": i, "by": p, "holder": h, "op": want, "lock_now": real_lock})
            if real_lock != model_lock:
                mism.append({"step": i, "proc": p, "op": want, "model_lock": model_lock, "real_lock": real_lock})
                break
        # let everything run to completion
        results = {}
        for p in pids:
            t0 = time.time()
            while procs[p].p.poll() is None and time.time() - t0 < 5:
                at = procs[p].waiting_at(timeout=0.05)
                if at not in (None, "TIMEOUT"):
                    procs[p].release()
            rc, err = procs[p].finish()
            results[p] = {"rc": rc, "acquired": "Lock acquired" in err}
        final = tr[-1]
        model_done = {int(q): c for q, c in final[2]}
        model_crit_max = max(len(w[4]) for w in tr if w != "invalid")
        for p in pids:
            c = model_done[p]
            if isinstance(c, list) and c[0] == "done":
                if (c[1] == "true") != results[p]["acquired"]:
                    mism.append({"proc": p, "model_acquired": c[1], "real": results[p]})
        return {"mismatches": mism, "foreign_removals": foreign, "max_overlap_real": max_overlap, "max_overlap_model": model_crit_max,
                "results": results, "kind": kind}


def live_holder_commands(R, fails, stats):
    """every mutating command, started while a live holder runs, must fail without touching the tree"""
    tree = [{"p": "old_name.txt", "k": "f", "c": b"old_name one\nsecond old_name\n", "m": 0o644},
            {"p": "d/old_name_x.rs", "k": "f", "c": b"fn old_name() {}\n", "m": 0o644}]
    for cmd in ("plan", "plan_out_dot", "plan_out_abs", "plan_out_updown", "rename", "apply", "undo", "redo", "replace"):
        with cli.Sandbox(tree) as sb:
            # prepare state so that the command would otherwise succeed
            if cmd == "apply":
                sb.run(["--no-auto-init", "plan", "old_name", "new_name", "--quiet"])
            if cmd in ("undo", "redo"):
                sb.run(["--no-auto-init", "-y", "rename", "old_name", "new_name"])
            if cmd == "redo":
                sb.run(["--no-auto-init", "-y", "undo", "latest"])
            before = sb.snapshot()
            hist_before = sb.history()
            holder = subprocess.Popen([cli.cli_bin(), "--no-auto-init", "test-lock", "--delay", "3000"], cwd=str(sb.root),
                                      stdout=subprocess.PIPE, stderr=subprocess.PIPE, env=dict(core.ENV, HOME=str(sb.dir / "home")))
            t0 = time.time()
            while not (sb.root / ".renamify" / "renamify.lock").exists() and time.time() - t0 < 5:
                time.sleep(0.01)
            time.sleep(0.05)
            (sb.root / "d").mkdir(exist_ok=True)
            args = {"plan": ["plan", "old_name", "new_name", "--quiet"], "rename": ["-y", "rename", "old_name", "new_name"],
                    # the same plan file of the workspace, spelled differently
                    "plan_out_dot": ["plan", "old_name", "new_name", "--quiet", "--plan-out", "./.renamify/plan.json"],
                    "plan_out_abs": ["plan", "old_name", "new_name", "--quiet", "--plan-out", str(sb.root / ".renamify" / "plan.json")],
                    "plan_out_updown": ["plan", "old_name", "new_name", "--quiet", "--plan-out", "d/../.renamify/plan.json"],
                    "apply": ["-y", "apply"], "undo": ["-y", "undo", "latest"], "redo": ["-y", "redo", "latest"],
                    "replace": ["-y", "replace", "--no-regex", "old_name", "zz"]}[cmd]
            rc, o, e = sb.run(["--no-auto-init"] + args)
            after = sb.snapshot()
            lock_there = (sb.root / ".renamify" / "renamify.lock").exists()
            holder.kill()
            holder.wait()
            stats["live_holder_runs"] += 1
            R.case(("live_holder", cmd), nontrivial=True)
            if rc == 0 or after != before or sb.history() != hist_before or not lock_there:
                fails.append({"why": f"'{cmd}' ran while another renamify process held the lock" if rc == 0 or after != before
                              else f"'{cmd}' removed the lock of a running holder",
                              "cmd": cmd, "rc": rc, "stderr": e.decode("utf-8", "replace")[-300:],
                              "tree_changed": after != before, "lock_still_there": lock_there})


def commands_hold_lock(R, fails, stats):
    """every mutating command as the HOLDER: in its recorded system-call trace the lock file is created before the first
    change to the tree or to renamify's state and removed only after the last one (a lock taken and dropped at once, or
    released before the history entry is written, lets a second process in while the first is still working); and it is
    gone afterwards, also when the command ends with an error"""
    import inject
    tree = [{"p": "old_name.txt", "k": "f", "c": b"old_name one\nsecond old_name\n", "m": 0o644},
            {"p": "d", "k": "d", "m": 0o755}, {"p": "d/old_name_x.rs", "k": "f", "c": b"fn old_name() {}\n", "m": 0o644},
            {"p": "old_name_dir", "k": "d", "m": 0o755}, {"p": "old_name_dir/in_old_name.txt", "k": "f", "c": b"oldName\n", "m": 0o600}]
    for cmd in ("rename", "apply", "undo", "redo", "replace", "apply_stale"):
        with cli.Sandbox(tree) as sb:
            if cmd in ("apply", "apply_stale"):
                sb.run(["--no-auto-init", "plan", "old_name", "new_name", "--quiet"])
            if cmd == "apply_stale":
                (sb.root / "old_name.txt").write_bytes(b"changed behind the plan's back\n")
            if cmd in ("undo", "redo"):
                sb.run(["--no-auto-init", "-y", "rename", "old_name", "new_name"])
            if cmd == "redo":
                sb.run(["--no-auto-init", "-y", "undo", "latest"])
            args = {"rename": ["-y", "rename", "old_name", "new_name"], "apply": ["-y", "apply"], "apply_stale": ["-y", "apply"],
                    "undo": ["-y", "undo", "latest"], "redo": ["-y", "redo", "latest"],
                    "replace": ["-y", "replace", "--no-regex", "old_name", "zz"]}[cmd]
            rc, o, e, trace = inject.strace_run(sb, ["--no-auto-init"] + args)
            evs = inject.mutating_events(trace, sb.root, classes=("user", "state", "lock"))
            stats["holder_traces"] = stats.get("holder_traces", 0) + 1
            R.case(("holder_trace", cmd), nontrivial=True)
            lock_idx = [k for k, ev in enumerate(evs) if ev.cls == "lock"]
            # the lock protocol's own temp file and the creation of .renamify/ itself are not work done under the lock
            work_idx = [k for k, ev in enumerate(evs) if ev.cls == "user" or
                        (ev.cls == "state" and "renamify.lock" not in ev.raw and not (ev.sys == "mkdir" and ev.raw.split('"')[1].rstrip("/").rsplit("/", 1)[-1] == ".renamify"))]
            ctx = {"cmd": cmd, "rc": rc, "events": [f"{ev.cls}:{ev.sys}" for ev in evs][:60]}
            if (sb.root / ".renamify" / "renamify.lock").exists():
                fails.append({"why": f"the lock file is still there after '{cmd}' exited (status {rc})", **ctx})
                continue
            if cmd == "apply_stale":
                if rc == 0:
                    continue
            elif rc != 0:
                fails.append({"why": f"'{cmd}' failed in the holder-trace scenario: {e.decode('utf-8', 'replace')[-200:]}", **ctx})
                continue
            # the lock is gone once the holder has exited after SIGINT / SIGTERM - also after two of them - and, for a holder that
            # goes on working after the signal (the handlers only set flags), it stays in place until the work is done
            if cmd != "apply_stale" and work_idx:
                ev = evs[work_idx[min(1, len(work_idx) - 1)]]
                labels = [("SIGINT once", f"{ev.sys}:signal=SIGINT:when={ev.ordinal}"), ("SIGTERM once", f"{ev.sys}:signal=SIGTERM:when={ev.ordinal}")]
                if cmd in ("rename", "undo"):
                    labels += [("SIGINT twice", f"{ev.sys}:signal=SIGINT:when={ev.ordinal}..{ev.ordinal + 1}"),
                               ("SIGTERM then SIGINT", [f"{ev.sys}:signal=SIGTERM:when={ev.ordinal}", f"{ev.sys}:signal=SIGINT:when={ev.ordinal + 1}"])]
                for label, inj in labels:
                    with cli.Sandbox(tree) as sb3:
                        if cmd == "apply":
                            sb3.run(["--no-auto-init", "plan", "old_name", "new_name", "--quiet"])
                        if cmd in ("undo", "redo"):
                            sb3.run(["--no-auto-init", "-y", "rename", "old_name", "new_name"])
                        if cmd == "redo":
                            sb3.run(["--no-auto-init", "-y", "undo", "latest"])
                        rc3, o3, e3, tr3 = inject.strace_run(sb3, ["--no-auto-init"] + args, inject=inj)
                        stats["holder_signal_runs"] = stats.get("holder_signal_runs", 0) + 1
                        R.case(("holder_signal", cmd, label), nontrivial=True)
                        if (sb3.root / ".renamify" / "renamify.lock").exists():
                            fails.append({"why": f"the lock file is still there after '{cmd}' was interrupted ({label}) and exited with status {rc3}",
                                          "cmd": cmd, "inject": inj, "rc": rc3, "stderr": e3.decode("utf-8", "replace")[-300:]})
                            continue
                        ev3 = inject.mutating_events(tr3, sb3.root, classes=("user", "state", "lock"))
                        l3 = [k for k, x in enumerate(ev3) if x.cls == "lock"]
                        w3 = [k for k, x in enumerate(ev3) if x.cls == "user" or
                              (x.cls == "state" and "renamify.lock" not in x.raw and not (x.sys == "mkdir" and x.raw.split('"')[1].rstrip("/").rsplit("/", 1)[-1] == ".renamify"))]
                        if l3 and w3 and l3[-1] < w3[-1]:
                            fails.append({"why": f"'{cmd}' interrupted by {label} removed its lock file and then went on changing the workspace: "
                                                 "a second process can enter while the first is still working", "cmd": cmd, "inject": inj, "rc": rc3,
                                          "events": [f"{x.cls}:{x.sys}" for x in ev3][:60]})
            if not work_idx:
                continue
            if not lock_idx:
                fails.append({"why": f"'{cmd}' changed the workspace without ever creating the lock file", **ctx})
            elif lock_idx[0] > work_idx[0]:
                fails.append({"why": f"'{cmd}' started changing the workspace before it had created the lock file", **ctx})
            elif lock_idx[-1] < work_idx[-1] or len(lock_idx) < 2:
                fails.append({"why": f"'{cmd}' removed its lock file before it had finished (changes to the tree or to the history "
                                     "follow the removal): a second process can enter while the first is still working", **ctx})


def run(R):
    R.trusted += ["Coq 8.16.1 kernel + vm_compute", "translators/gen_lock.py", "feature-gated sched_point hooks in lock.rs",
                  "extraction + modelrun.ml"]
    proved = R.prove()
    mp, mlog = core.build_model()
    if mp is None:
        R.violation("model driver does not build", {"log": mlog[-3000:]}, has_input=False)
        return
    M = core.Model([str(mp)])
    g = gen.G(R.seed * 7 + 12)
    r = g.r
    fails, dis, known = [], [], {}
    stats = {"schedules": 0, "by_init": {}, "live_holder_runs": 0, "overlap_real": 0}
    now = int(time.time())
    nsched = 10 if R.tier == "quick" else 120
    # the refutation schedule of the theorem first (two processes, stale lock)
    fixed = [("stale", [1, 2], [["step", 1], ["step", 2], ["step", 1], ["step", 1], ["step", 2], ["step", 2],
                                ["step", 1], ["step", 1], ["step", 2], ["step", 2]])]
    # both pass the existence check, one wins the creation, the loser must fail without touching the winner's lock
    fixed.append(("absent", [1, 2], [["step", 1], ["step", 2], ["step", 1], ["step", 2], ["step", 1], ["step", 1], ["step", 1]]))
    fixed.append(("absent", [1, 2, 3], [["step", 1], ["step", 2], ["step", 3], ["step", 2], ["step", 1], ["step", 3],
                                        ["step", 2], ["step", 2], ["step", 2]]))
    cases = list(fixed)
    for i in range(nsched):
        kind = INIT_STATES[i % len(INIT_STATES)]
        pids = [1, 2] if i % 4 else [1, 2, 3]
        init, _ = init_lock(kind, now)
        cases.append((kind, pids, gen_schedule(M, r, init, now, pids)))
    for kind, pids, evs in cases:
        res = replay_schedule(M, kind, pids, evs, now)
        if "skip" in res:
            continue
        stats["schedules"] += 1
        stats["by_init"][kind] = stats["by_init"].get(kind, 0) + 1
        R.case(("sched", kind, tuple(pids), json.dumps(evs)), nontrivial=True)
        if len(R.coverage["samples"]) < 3:
            R.sample({"init": kind, "pids": pids, "schedule": [int(e[1]) for e in evs], "result": res["results"],
                      "max_overlap_real": res["max_overlap_real"]})
        if res["mismatches"]:
            dis.append({"why": "real processes did not follow the model schedule", "init": kind, "pids": pids,
                        "schedule": evs, "mismatches": res["mismatches"][:4]})
        if res.get("foreign_removals"):
            if kind in ("stale", "orphaned"):
                known["stale_takeover_race"] = True
            else:
                fails.append({"why": "a running holder's lock file was removed by another process", "init": kind, "pids": pids,
                              "schedule": evs, "detail": res["foreign_removals"][:3]})
        if res["max_overlap_real"] > 1:
            stats["overlap_real"] += 1
            if kind in ("stale", "orphaned"):
                known["stale_takeover_race"] = True
            else:
                fails.append({"why": "two real processes were inside the lock at the same time", "init": kind, "pids": pids,
                              "schedule": evs, "results": res["results"]})
    live_holder_commands(R, fails, stats)
    commands_hold_lock(R, fails, stats)
    M.close()
    R.coverage["input_distribution"] = stats
    R.disagreements = len(dis)
    listed = {f["class"]: f for f in core.known_findings("C12")}
    for cls in sorted(known):
        if cls in listed:
            R.known(cls, listed[cls]["what"])
        else:
            fails.append({"why": f"violation class {cls} is not a listed known finding"})
    for f in fails[:3]:
        R.violation(f["why"], {"kind": "impl_failure", **f})
    if fails:
        return
    if not proved:
        R.violation("proof obligation of Props/C12.v no longer checks (no unlisted failing schedule found)",
                    {"kind": "proof_broken", **getattr(R, "broken", {})}, has_input=False)
    elif dis:
        R.violation("lock model / real process correspondence broke (no unlisted failing schedule found)",
                    {"kind": "correspondence", "first": dis[:3], "count": len(dis)}, has_input=False)


def replay(R, obj):
    print(json.dumps(obj, indent=1)[:3000])
    if "schedule" in obj:
        mp, _ = core.build_model()
        M = core.Model([str(mp)])
        res = replay_schedule(M, obj["init"], obj["pids"], obj["schedule"], int(time.time()))
        print(json.dumps(res, indent=1, default=str)[:2000])
        return 1 if res.get("max_overlap_real", 0) > 1 else 0
    return 1
