"""C18 — Case conversion is a consistent algebra.
Proof: Props/C18.v over Model/CaseModel.v (tokenizer, to_style, detect_style, variant maps) with the
acronym table and style lists regenerated from the source. Tie: model vs implementation on a bounded-
exhaustive neutral stream and a random non-neutral stream; the laws are also evaluated on the
implementation against an independent Python renderer."""
import itertools
import json
import core
import gen

LEVEL = "proof"
EXPLANATION = ("Round-trip / detection / idempotence / variant-table theorems are proved in Rocq for word lists "
               "of any length over neutral words (side condition on the acronym table stated and checked by "
               "vm_compute against the table regenerated from acronym.rs). The Gallina tokenizer, renderer, "
               "detector and both variant-map builders are run against the implementation on every check. "
               "Partial: ASCII only; the pluraliser is an oracle whose answers are taken from the implementation.")
ASSUMPTIONS = ["pluralizer crate is an oracle (its answers for the words used are fed to the model)",
               "ASCII model of to_lowercase/to_uppercase", "translator gen_styles.py"]

ACR_WORDS = ["api", "id", "http", "url", "css", "ui", "ssl", "ssh", "ram", "pin", "oauth", "k8s", "s3", "2fa", "ide", "ip"]


def b(s):
    return s.encode()


class Tie:
    def __init__(self, R, H, M):
        self.R, self.H, self.M = R, H, M
        self.dis = []
        self.fail = []
        self.hist = {}

    def bump(self, k):
        self.hist[k] = self.hist.get(k, 0) + 1

    def tokens(self, s):
        r = self.H.ask({"op": "tokens", "s": core.hx(s)})
        m = self.M.ask("tokens", "default", s)
        impl = [bytes.fromhex(x) for x in r.get("ok", [])] if "ok" in r else ("ERR", r)
        mod = [core.atom_bytes(x) for x in m[1]] if isinstance(m, list) and m and m[0] == "some" else ("ERR", m)
        if impl != mod:
            self.dis.append({"fn": "parse_to_tokens", "input": s.decode("latin1"), "impl": repr(impl), "model": repr(mod)})
        return impl

    def to_style(self, ws, st):
        r = self.H.ask({"op": "to_style", "ws": [core.hx(w) for w in ws], "style": st})
        m = self.M.ask("to_style", "default", [w for w in ws], st)
        impl = bytes.fromhex(r["ok"]) if "ok" in r else ("ERR", r)
        mod = core.atom_bytes(m) if isinstance(m, str) and m.startswith("x") else ("ERR", m)
        if impl != mod:
            self.dis.append({"fn": "to_style", "input": [w.decode("latin1") for w in ws], "style": st,
                             "impl": repr(impl), "model": repr(mod)})
        return impl

    def detect(self, s):
        r = self.H.ask({"op": "detect_style", "s": core.hx(s)})
        m = self.M.ask("detect_style", "default", s)
        impl = r.get("ok") if "ok" in r else ("ERR", r)
        mod = (m[1] if isinstance(m, list) else None) if m != "none" else None
        if impl != mod:
            self.dis.append({"fn": "detect_style", "input": s.decode("latin1"), "impl": repr(impl), "model": repr(mod)})
        return impl

    def vmap(self, which, search, repl, styles):
        req = {"op": "variant_map", "which": which, "search": core.hx(search), "replace": core.hx(repl), "plurals": False}
        if styles is not None:
            req["styles"] = styles
        r = self.H.ask(req)
        impl = [(bytes.fromhex(k), bytes.fromhex(v)) for k, v in r.get("ok", [])] if "ok" in r else ("ERR", r)
        st = None if styles is None else ["some", styles]
        if which == "core":
            if styles is None:
                return impl  # needs the ambiguity oracle; law-only on the implementation
            m = self.M.ask("vmap_core", "default", [], [], False, False, search, repl, st)
        else:
            m = self.M.ask("vmap_scan", "default", [], [], False, search, repl, st)
        mod = [(core.atom_bytes(k), core.atom_bytes(v)) for k, v in m] if isinstance(m, list) and (not m or isinstance(m[0], list)) else ("ERR", m)
        if impl != mod:
            self.dis.append({"fn": "variant_map_" + which, "search": search.decode("latin1"), "replace": repl.decode("latin1"),
                             "styles": styles, "impl": repr(impl)[:800], "model": repr(mod)[:800]})
        return impl


def laws_on_impl(T, ws, st, R):
    """direct oracle: the three laws on the implementation, expectation from the Python renderer"""
    expect = gen.render(ws, st).encode()
    bws = [b(w) for w in ws]
    got = T.to_style(bws, st)
    key = ("law", tuple(ws), st)
    R.case(key, nontrivial=len(ws) >= 2)
    if got != expect:
        T.fail.append({"law": "render", "words": ws, "style": st, "impl": repr(got), "expected": expect.decode()})
        return
    toks = T.tokens(expect)
    if st in gen.VISIBLE:
        if not isinstance(toks, list) or [t.lower() for t in toks] != bws:
            T.fail.append({"law": "roundtrip parse(render ws) = ws", "words": ws, "style": st, "impl_tokens": repr(toks)})
        if len(ws) >= 2:
            d = T.detect(expect)
            if d != st:
                T.fail.append({"law": "detect(render ws) = style", "words": ws, "style": st, "impl": repr(d)})
    if isinstance(toks, list):
        again = T.to_style(toks, st)
        if again != expect:
            T.fail.append({"law": "idempotent", "words": ws, "style": st, "impl": repr(again)})


def table_law(T, sw, rw, styles, R, which, typed=("Snake", "Snake")):
    """the terms are typed in any style that keeps word boundaries visible; the table must not depend on how they were typed"""
    search = gen.render(sw, typed[0]).encode()
    repl = gen.render(rw, typed[1]).encode()
    m = T.vmap(which, search, repl, styles)
    R.case(("table", which, tuple(sw), tuple(rw), tuple(styles), typed), nontrivial=True)
    if not isinstance(m, list):
        T.fail.append({"law": "variant table", "which": which, "search": search.decode(), "replace": repl.decode(), "impl": repr(m)})
        return
    d = dict(m)
    for st in styles:
        if st not in gen.VISIBLE and (len(sw) < 2 or len(rw) < 2):
            continue            # a one-word term has the same flat and snake / kebab / camel spelling: the first inserted wins
        k = gen.render(sw, st).encode()
        v = gen.render(rw, st).encode()
        if d.get(k) != v:
            T.fail.append({"law": "variant table maps style to same style", "which": which, "style": st,
                           "search": search.decode(), "replace": repl.decode(), "key": k.decode(),
                           "impl_value": repr(d.get(k)), "expected": v.decode()})


def rand_nonneutral(r):
    parts = []
    for _ in range(r.randint(1, 4)):
        k = r.randrange(8)
        if k == 0:
            w = r.choice(ACR_WORDS).upper()
        elif k == 1:
            w = r.choice(ACR_WORDS)
        elif k == 2:
            w = r.choice(gen.VOCAB).capitalize()
        elif k == 3:
            w = r.choice(gen.VOCAB) + str(r.randint(0, 99))
        elif k == 4:
            w = r.choice(ACR_WORDS).capitalize()
        elif k == 5:
            w = "".join(r.choice("aAbBzZ09_-. $é") for _ in range(r.randint(1, 6)))
        elif k == 6:
            w = r.choice(gen.VOCAB).upper()
        else:
            w = r.choice(gen.VOCAB)
        parts.append(w)
    return r.choice(["", "_", "-", ".", " ", ""]).join(parts)


def run(R):
    R.trusted += ["Coq 8.16.1 kernel + vm_compute", "translators/gen_styles.py (style lists, acronym table)",
                  "harness crate", "ExtrOcamlBasic extraction + ocaml/modelrun.ml", "pluralizer (oracle)"]
    proved = R.prove()
    hp, hlog = core.build_harness()
    if hp is None:
        R.violation("harness does not build against the current tree", {"log": hlog[-3000:]}, has_input=False)
        return
    mp, mlog = core.build_model()
    if mp is None:
        R.violation("extracted model does not build", {"log": mlog[-3000:]}, has_input=False)
        return
    H, M = core.Harness([str(hp)]), core.Model([str(mp)])
    T = Tie(R, H, M)
    g = gen.G(R.seed * 104729 + 18)
    r = g.r
    quick = R.tier == "quick"
    # (a) bounded exhaustive neutral stream: word sequences of length 1..3 over a vocabulary x 14 styles
    vocab = gen.VOCAB[:8] if quick else gen.VOCAB[:16]
    n_seq = 0
    for n in (1, 2, 3):
        seqs = list(itertools.product(vocab, repeat=n))
        if quick and n == 3:
            seqs = r.sample(seqs, 120)
        for ws in seqs:
            n_seq += 1
            for st in gen.STYLES14:
                laws_on_impl(T, list(ws), st, R)
    R.sample({"neutral": ["foo", "bar"], "style": "Train", "rendered": gen.render(["foo", "bar"], "Train")})
    # longer random sequences over the whole vocabulary
    for _ in range(60 if quick else 1500):
        ws = [r.choice(gen.VOCAB) for _ in range(r.randint(2, 7))]
        laws_on_impl(T, ws, r.choice(gen.STYLES14), R)
    # (b) variant tables, ordered pairs
    pairs = 60 if quick else 1500
    for i in range(pairs):
        sw, rw = g.term_pair()
        styles = r.sample(gen.STYLES14, r.randint(1, 14)) if i % 3 else list(gen.DEFAULT_STYLES)
        typed = ("Snake", "Snake") if i % 2 == 0 else (r.choice(gen.VISIBLE), r.choice(gen.VISIBLE))
        table_law(T, sw, rw, styles, R, "core", typed)
        table_law(T, sw, rw, styles, R, "scanner", typed)
    # (c) non-neutral stream: only model = implementation is demanded
    nn = 1500 if quick else 40000
    for i in range(nn):
        s = rand_nonneutral(r).encode("utf-8")
        toks = T.tokens(s)
        T.detect(s)
        R.case(("nn", s), nontrivial=True)
        T.bump("nonneutral")
        if isinstance(toks, list) and toks:
            T.to_style(toks, r.choice(gen.STYLES14))
        if i < 2:
            R.sample({"non_neutral": s.decode("utf-8", "replace"), "impl_tokens": [t.decode("latin1") for t in toks] if isinstance(toks, list) else repr(toks)})
    # (d) acronym-bearing word lists rendered in every visible style: model = implementation on the rendering, its tokens and
    # its detected style; and where the model (the description of the unchanged code) recognises the rendered name as that
    # style and parses it back to the same words, the implementation has to as well (the laws, beyond the neutral vocabulary)
    two_letter = [w for w in ACR_WORDS if len(w) == 2]
    for i in range(120 if quick else 4000):
        ws = []
        for _ in range(r.randint(2, 4)):
            k = r.randrange(6)
            ws.append(r.choice(gen.VOCAB) if k < 2 else r.choice(ACR_WORDS).upper() if k == 2 else r.choice(two_letter).upper() if k == 3
                      else r.choice(ACR_WORDS) if k == 4 else r.choice(gen.VOCAB).upper())
        bws = [w.encode() for w in ws]
        for st in gen.VISIBLE:
            rendered = T.to_style(bws, st)
            T.bump("acronym_renderings")
            if not isinstance(rendered, bytes):
                continue
            R.case(("acr", tuple(ws), st), nontrivial=True)
            mdet = M.ask("detect_style", "default", rendered)
            mdet = (mdet[1] if isinstance(mdet, list) else None) if mdet != "none" else None
            idet = T.detect(rendered)
            if mdet == st and idet != st:
                T.fail.append({"law": "the rendered multi-word name is recognised as that style (acronym-bearing words)", "words": ws, "style": st,
                               "rendered": rendered.decode("latin1"), "impl_detected": repr(idet)})
            mt = M.ask("tokens", "default", rendered)
            mtoks = [core.atom_bytes(x).lower() for x in mt[1]] if isinstance(mt, list) and mt and mt[0] == "some" else None
            itoks = T.tokens(rendered)
            if mtoks == [w.lower() for w in bws] and (not isinstance(itoks, list) or [t.lower() for t in itoks] != mtoks):
                T.fail.append({"law": "roundtrip parse(render ws) = ws (acronym-bearing words)", "words": ws, "style": st,
                               "rendered": rendered.decode("latin1"), "impl_tokens": repr(itoks)})
    # (e) the variant table on acronym-bearing terms typed in a hump style: where the model's table (the unchanged code) maps the
    # search term as typed to the replacement as typed, the implementation's table has to as well
    for i in range(60 if quick else 2000):
        mk = lambda: [r.choice(gen.VOCAB) if r.random() < 0.5 else r.choice(ACR_WORDS).upper() for _ in range(r.randint(2, 3))]
        sw, rw = mk(), mk()
        if sw[0].isupper():
            sw[0] = r.choice(gen.VOCAB)
        if rw[0].isupper():
            rw[0] = r.choice(gen.VOCAB)
        st = r.choice(["Camel", "Pascal"])
        sm = M.ask("to_style", "default", [w.encode() for w in sw], st)
        rm = M.ask("to_style", "default", [w.encode() for w in rw], st)
        if not (isinstance(sm, str) and sm.startswith("x") and isinstance(rm, str) and rm.startswith("x")):
            continue
        search, repl = core.atom_bytes(sm), core.atom_bytes(rm)
        styles = list(gen.DEFAULT_STYLES)
        for which in ("core", "scanner"):
            impl = T.vmap(which, search, repl, styles)
            mt = M.ask("vmap_core" if which == "core" else "vmap_scan", "default", [], [], *( [False, False] if which == "core" else [False]), search, repl, ["some", styles])
            T.bump("acronym_tables")
            R.case(("acr_table", which, search, repl), nontrivial=True)
            mod = {core.atom_bytes(k): core.atom_bytes(v) for k, v in mt} if isinstance(mt, list) and (not mt or isinstance(mt[0], list)) else {}
            if mod.get(search) == repl and isinstance(impl, list) and dict(impl).get(search) != repl:
                T.fail.append({"law": "the variant table maps the search term in the style it was typed in to the replacement in that style "
                                      "(acronym-bearing terms)", "which": which, "style": st, "search": search.decode(), "replace": repl.decode(),
                               "impl_value": repr(dict(impl).get(search))})
    # variant maps on non-neutral terms (model = impl)
    for _ in range(80 if quick else 2000):
        s1, s2 = rand_nonneutral(r).encode(), rand_nonneutral(r).encode()
        styles = r.sample(gen.STYLES14, r.randint(1, 14))
        T.vmap("core", s1, s2, styles)
        T.vmap("scanner", s1, s2, styles)
        T.vmap("scanner", s1, s2, None)
    R.coverage["input_distribution"] = {"neutral_sequences": n_seq, "styles": 14, "table_pairs": pairs,
                                        "nonneutral_strings": nn}
    R.disagreements = len(T.dis)
    H.close()
    M.close()
    for f in T.fail[:3]:
        R.violation("a case-algebra law fails on the implementation", {"kind": "impl_failure", **f})
    if T.fail:
        return
    if not proved:
        R.violation("proof obligation of Props/C18.v no longer checks (laws still hold on every implementation case explored)",
                    {"kind": "proof_broken", **getattr(R, "broken", {})}, has_input=False)
    elif T.dis:
        R.violation("model/implementation correspondence broke for the case model (laws still hold on the neutral stream)",
                    {"kind": "correspondence", "first": T.dis[:5], "count": len(T.dis)}, has_input=False)


def replay(R, obj):
    hp, _ = core.build_harness()
    mp, _ = core.build_model()
    H, M = core.Harness([str(hp)]), core.Model([str(mp)])
    T = Tie(R, H, M)
    if "words" in obj and "style" in obj:
        laws_on_impl(T, obj["words"], obj["style"], R)
    elif "search" in obj:
        sw = obj["search"].split("_")
        rw = obj["replace"].split("_")
        table_law(T, sw, rw, [obj["style"]], R, obj.get("which", "core"))
    print(json.dumps({"failures": T.fail, "disagreements": T.dis}, indent=1)[:3000])
    return 1 if T.fail else 0
