"""C04 — A failed apply changes nothing."""
import json
import re
import core
import cli
import gen
import inject
import applylib as al

LEVEL = "proof"
EXPLANATION = ("Theorems (Props/C04.v) over the apply model with a universally quantified fault position: what rollback "
               "really guarantees (every rename performed so far is reverted: paths are where they were), the full "
               "statement refuted by machine-checked witnesses (content edits are not rolled back; a failure in the "
               "history/backup tail leaves the tree applied), and the guarded fragment that does hold. The model is "
               "aligned with the real system-call sequence recorded by strace and, for every mutating call of every "
               "scenario, an injected EIO/ENOSPC/EACCES run must match the model's prediction; stale-plan perturbations "
               "are replayed as well. Known findings are matched by call-site class.")
ASSUMPTIONS = ["strace injection semantics (error on the n-th call of the main thread)", "single faults only",
               "POSIX semantics of Model/Fs.v"]

TMP = re.compile(r"\.\d+\.renamify\.tmp$")


def norm_snap(s):
    return {inject.normalise_tmp(k): v for k, v in s.items()}


def fresh(tree, search, replace, extra=()):
    sb = cli.Sandbox(tree)
    rc, o, e = sb.run(["--no-auto-init", "plan", search, replace, "--quiet"] + list(extra))
    if rc != 0:
        sb.cleanup()
        return None, None
    try:
        plan = al.relativize(json.loads((sb.root / ".renamify/plan.json").read_text()), sb.root)
    except Exception:
        sb.cleanup()
        return None, None
    return sb, plan


def hist_ids(sb):
    h = sb.history()
    if h is None:
        return []
    if h == "UNPARSABLE":
        return "UNPARSABLE"
    return [e.get("id") for e in h]


def classify(before, after, full, content_only, plan):
    """None when after == before; else the known class name or 'other'"""
    if after == before:
        return None
    if after == full:
        return "late_failure_tree_applied"
    edited = {h["file"] for h in plan["matches"]}
    ok = True
    for p in set(before) | set(after):
        if after.get(p) == before.get(p):
            continue
        if p in edited and after.get(p) == content_only.get(p):
            continue          # complete new content at the original path
        if p.endswith(".PID.renamify.tmp") and p not in before:
            continue          # leftover temp file
        ok = False
    return "content_edits_not_rolled_back" if ok else "other"


def scenario(g, i):
    a, b = g.term_pair()
    tree = g.tree(a, depth=3, symlinks=False, nfiles=g.r.randint(2, 4))
    s = gen.render(a, "Snake")
    tree += [{"p": f"zz_{s}.txt", "k": "f", "c": (s + " one\n").encode(), "m": 0o644},
             {"p": "aa_plain.txt", "k": "f", "c": ("x " + s + " y\n" + s + "\n").encode(), "m": 0o600}]
    if i % 2 == 0:
        tree += [{"p": f"{s}_dir", "k": "d", "m": 0o755},
                 {"p": f"{s}_dir/{s}_in.txt", "k": "f", "c": (gen.render(a, "Camel") + "\n").encode(), "m": 0o644}]
    if i % 3 != 2:
        # renamed symbolic links that do not resolve when a rollback reaches them: one dangling from the start, one whose (relative)
        # target is renamed by the same plan
        tree += [{"p": f"{s}_dangling", "k": "l", "t": "nowhere"}, {"p": f"ln_{s}", "k": "l", "t": f"zz_{s}.txt"}]
    seen, out = set(), []
    for e in tree:
        if e["p"] not in seen:
            seen.add(e["p"])
            out.append(e)
    return out, s, gen.render(b, "Snake")


def read_opt(sb, rel):
    try:
        return sb.read(rel)
    except OSError:
        return None


def logical_failures(R, g, fails, stats):
    """Commands that fail for a reason inside renamify's own logic (no injected fault): a plan applied a second time by id or
    from its file after an undo, redo of something not undone, undo of something already undone, a rename in the same second,
    an occupied destination, an invalid pattern. Whatever exit status != 0 they report, tree and history must be as before."""
    quick = R.tier == "quick"
    for i in range(3 if quick else 16):
        a, b = g.term_pair()
        s, t = gen.render(a, "Snake"), gen.render(b, "Snake")
        tree = [{"p": "notes.txt", "k": "f", "c": (f"use {s} here\n{gen.render(a, 'Camel')}\n").encode(), "m": 0o644},
                {"p": "src", "k": "d", "m": 0o755},
                {"p": f"src/{s}.rs", "k": "f", "c": (f"fn {s}() {{}}\n").encode(), "m": 0o644},
                {"p": f"src/{s}_dir", "k": "d", "m": 0o755},
                {"p": f"src/{s}_dir/inner_{s}.txt", "k": "f", "c": b"plain\n", "m": 0o600}]
        G = ["--no-auto-init", "-y"]
        scripts = {
            "reapply_by_id_after_undo": [G + ["rename", s, t], G + ["undo", "latest"], "APPLY_FIRST_ID"],
            "reapply_by_id_after_undo_redo_undo": [G + ["rename", s, t], G + ["undo", "latest"], G + ["redo", "latest"], G + ["undo", "latest"], "APPLY_FIRST_ID"],
            "reapply_plan_file_after_undo": [G + ["plan", s, t, "--plan-out", "saved_plan.json", "--quiet"], G + ["apply", "saved_plan.json"],
                                             G + ["undo", "latest"], G + ["apply", "saved_plan.json"]],
            "reapply_plan_file_directly": [G + ["plan", s, t, "--plan-out", "saved_plan.json", "--quiet"], G + ["apply", "saved_plan.json"],
                                           G + ["apply", "saved_plan.json"]],
            "redo_not_undone": [G + ["rename", s, t], G + ["redo", "latest"]],
            "undo_twice": [G + ["rename", s, t], G + ["undo", "latest"], "UNDO_FIRST_ID"],
            "redo_twice": [G + ["rename", s, t], G + ["undo", "latest"], G + ["redo", "latest"], "REDO_FIRST_ID"],
            "same_second_repeat": [G + ["rename", s, t], G + ["undo", "latest"], G + ["rename", s, t], G + ["undo", "latest"], G + ["rename", s, t]],
            "occupied_destination": ["OCCUPY", G + ["rename", s, t]],
            "dir_destination_dangling_link": ["OCCUPY_DIR_LINK", G + ["rename", s, t]],
            "dir_destination_file": ["OCCUPY_DIR_FILE", G + ["rename", s, t]],
            "apply_without_plan": [G + ["apply"]],
            "unknown_id": [G + ["rename", s, t], G + ["undo", "0123456789abcdef"], G + ["redo", "0123456789abcdef"], G + ["apply", "0123456789abcdef"]],
            "invalid_regex": [G + ["replace", "(" + s, t]],
        }
        scripts["non_utf8_names"] = ["NONUTF8", G + ["rename", s, t], G + ["undo", "latest"]]
        # a file the scanner plans but apply cannot read: text in a legacy encoding (Latin-1) with a match, sorted after the others;
        # the same with plan + apply, and with replace
        scripts["non_utf8_content"] = ["LATIN1", G + ["rename", s, t]]
        scripts["non_utf8_content_plan_apply"] = ["LATIN1", G + ["plan", s, t, "--quiet"], G + ["apply"]]
        scripts["non_utf8_content_replace"] = ["LATIN1", G + ["replace", "--no-regex", s, t]]
        for name, script in scripts.items():
            with cli.Sandbox(tree) as sb:
                first_id = None
                for step, cmd in enumerate(script):
                    if cmd == "OCCUPY":
                        (sb.root / "src" / f"{t}.rs").write_bytes(b"occupant\n")
                        continue
                    if cmd in ("OCCUPY_DIR_LINK", "OCCUPY_DIR_FILE"):
                        import os
                        dest = sb.root / "src" / f"{t}_dir"
                        if cmd == "OCCUPY_DIR_LINK":
                            os.symlink("../not-mounted-yet", dest)
                        else:
                            dest.write_bytes(b"a file where the directory wants to go\n")
                        continue
                    if cmd == "LATIN1":
                        (sb.root / "zz_legacy.txt").write_bytes(b"caf\xe9 uses " + s.encode() + b" too\n")
                        continue
                    if cmd == "NONUTF8":
                        # names that are not valid UTF-8 (legal on Linux) cannot be written into plan.json / history.json
                        import os
                        rb = os.fsencode(str(sb.root))
                        with open(rb + b"/" + s.encode() + b"_\xff.txt", "wb") as fh:
                            fh.write((s + " in a file with a raw byte in its name\n").encode())
                        with open(rb + b"/plain_\xfe.txt", "wb") as fh:
                            fh.write(("uses " + s + "\n").encode())
                        os.mkdir(rb + b"/" + s.encode() + b"_d\xff")
                        with open(rb + b"/" + s.encode() + b"_d\xff/in_" + s.encode() + b".txt", "wb") as fh:
                            fh.write(b"x\n")
                        nonutf8_before = {k: v for k, v in sb.snapshot().items() if any(ord(ch) > 0xDC00 and ord(ch) < 0xDD00 for ch in k)}
                        continue
                    if isinstance(cmd, str):
                        if first_id is None:
                            break
                        cmd = G + [cmd.split("_")[0].lower(), first_id]
                    before, hb = sb.snapshot(), read_opt(sb, ".renamify/history.json")
                    ids_b = hist_ids(sb)
                    rc, o, e = sb.run(cmd)
                    after, ha = norm_snap(sb.snapshot()), read_opt(sb, ".renamify/history.json")
                    ids_a = hist_ids(sb)
                    if first_id is None and ids_a and ids_a != "UNPARSABLE":
                        first_id = ids_a[0]
                    if name == "non_utf8_names":
                        now = {k: v for k, v in sb.snapshot().items() if any(0xDC00 < ord(ch) < 0xDD00 for ch in k)}
                        if now != nonutf8_before:
                            fails.append({"why": f"'{' '.join(cmd[2:])}' (exit {rc}) changed or renamed entries whose names are not valid UTF-8: they "
                                                 "cannot be recorded in the plan or the history, so nothing could undo it", "script": name, "step": step,
                                          "diff": repr(cli.diff_snap(nonutf8_before, now))[:800], "stderr": e.decode("utf-8", "replace")[-300:],
                                          "tree": cli.tree_json(tree), "search": s, "replace": t})
                            break
                    stats["logical_commands"] = stats.get("logical_commands", 0) + 1
                    R.case(("logical", name, step, s, t), nontrivial=True)
                    if rc == 0:
                        continue
                    stats["logical_rejected"] = stats.get("logical_rejected", 0) + 1
                    stats.setdefault("logical_by_script", {})[name] = stats.setdefault("logical_by_script", {}).get(name, 0) + 1
                    if after != norm_snap(before) or ids_a != ids_b or (hb is not None and ha != hb):
                        fails.append({"why": f"'{' '.join(cmd[2:])}' failed (exit {rc}) without an injected fault and yet changed the tree or "
                                             f"the history (script {name}, step {step})", "script": name, "step": step,
                                      "commands": [c if isinstance(c, str) else " ".join(c) for c in script],
                                      "diff": repr(cli.diff_snap(norm_snap(before), after))[:1000], "history_before": ids_b, "history_after": ids_a,
                                      "stderr": e.decode("utf-8", "replace")[-300:], "tree": cli.tree_json(tree), "search": s, "replace": t})
                        break


def other_commands_injected(R, g, fails, known, stats, errnos):
    """The same single-fault enumeration for rename, redo and replace (the property names all four commands). No model
    alignment here: the oracle is the classification of the surviving tree (unchanged / listed class / other) and, for a run
    that reports success, the complete planned tree plus exactly one new history entry."""
    quick = R.tier == "quick"
    kinds = ["rename", "redo", "replace"]
    for i in range(3 if quick else 9):
        kind = kinds[i % 3]
        tree, search, replace = scenario(g, i)
        # reference: what the command does without a fault
        with cli.Sandbox(tree) as sb0:
            if kind == "replace":
                rc, o, e = sb0.run(["--no-auto-init", "-y", "replace", "--no-regex", search, replace, "--dry-run", "--output", "json"])
                try:
                    doc = json.loads(o.decode("utf-8"))
                    plan = al.relativize(doc.get("plan", doc), sb0.root)
                except Exception:
                    continue
            else:
                rc, o, e = sb0.run(["--no-auto-init", "plan", search, replace, "--quiet"])
                try:
                    plan = al.relativize(json.loads((sb0.root / ".renamify/plan.json").read_text()), sb0.root)
                except Exception:
                    continue
        t0 = al.tree_dict(tree)
        full = al.reference_apply(t0, plan)
        content_only = al.reference_apply(t0, {"matches": plan["matches"], "paths": []})
        if isinstance(full, tuple) or isinstance(content_only, tuple):
            continue
        full_s, content_s = al.sha_dict(full), al.sha_dict(content_only)

        def prepare():
            sb = cli.Sandbox(tree)
            if kind == "redo":
                r1 = sb.run(["--no-auto-init", "-y", "rename", search, replace])
                r2 = sb.run(["--no-auto-init", "-y", "undo", "latest"])
                if r1[0] != 0 or r2[0] != 0:
                    sb.cleanup()
                    return None, None
                return sb, ["--no-auto-init", "-y", "redo", "latest"]
            if kind == "replace":
                return sb, ["--no-auto-init", "-y", "replace", "--no-regex", search, replace]
            return sb, ["--no-auto-init", "-y", "rename", search, replace]

        sb, argv = prepare()
        if sb is None:
            continue
        before = sb.snapshot()
        ids0 = hist_ids(sb)
        rc, o, e, trace = inject.strace_run(sb, argv)
        evs = inject.mutating_events(trace, sb.root, classes=("user", "state", "log"))
        after0 = sb.snapshot()
        sb.cleanup()
        if rc != 0 or after0 != full_s:
            fails.append({"why": f"fault-free {kind} did not produce the planned tree", "rc": rc, "tree": cli.tree_json(tree),
                          "search": search, "replace": replace, "stderr": e.decode("utf-8", "replace")[-300:]})
            continue
        stats["other_cmd_scenarios"] = stats.get("other_cmd_scenarios", 0) + 1
        step = 2 if not quick else max(1, len(evs) // 12)      # thorough: every second event (the whole run has to fit its time limit)
        for j, ev in enumerate(evs):
            if j % step:
                continue
            for en in errnos:
                sb2, argv2 = prepare()
                if sb2 is None:
                    continue
                b2 = sb2.snapshot()
                ids_b = hist_ids(sb2)
                rc2, o2, e2, tr2 = inject.strace_run(sb2, argv2, inject=f"{ev.sys}:error={en}:when={ev.ordinal}")
                after = norm_snap(sb2.snapshot())
                ids_a = hist_ids(sb2)
                sb2.cleanup()
                if re.search(r"\(INJECTED\)", tr2) is None:
                    continue
                if len(re.findall(r"\(INJECTED\)", tr2)) > 1:
                    # strace counts `when=N` per thread: the scanner's worker thread got a fault of its own at ITS N-th call (a read
                    # while planning). Two faults are outside the property's quantifier (every SINGLE injected failure)
                    stats["skipped_multiple_injections"] = stats.get("skipped_multiple_injections", 0) + 1
                    continue
                stats["other_cmd_injected_runs"] = stats.get("other_cmd_injected_runs", 0) + 1
                stats.setdefault("other_cmd_by_kind", {})[kind] = stats.setdefault("other_cmd_by_kind", {}).get(kind, 0) + 1
                R.case(("inj2", kind, i, j, en, search, replace), nontrivial=True)
                ctx = {"command": " ".join(argv2[2:]), "inject": f"{ev.sys}:{en}:when={ev.ordinal}", "event": ev.raw[:200],
                       "tree": cli.tree_json(tree), "search": search, "replace": replace}
                if rc2 == 0:
                    if after != full_s or ids_a == "UNPARSABLE" or len(ids_a) != len(ids_b) + 1:
                        fails.append({"why": f"{kind} reported success under an injected fault but the plan is not completely applied "
                                             "and recorded", **ctx})
                    continue
                cls = classify(norm_snap(b2), after, full_s, content_s, plan)
                if ids_a != ids_b:
                    cls = cls or "history_changed_on_failure"
                stats["by_class"][f"{kind}:{cls}"] = stats["by_class"].get(f"{kind}:{cls}", 0) + 1
                if cls in ("content_edits_not_rolled_back", "late_failure_tree_applied"):
                    known[cls] = True
                elif cls is not None:
                    fails.append({"why": f"failed {kind} changed the tree or history in an unlisted way ({cls})", "rc": rc2,
                                  "diff": repr(cli.diff_snap(norm_snap(b2), after))[:1200], "history": ids_a, **ctx})


def run(R):
    R.trusted += ["Coq 8.16.1 kernel", "strace -e inject (error at the n-th call)", "extraction + modelrun.ml",
                  "Python reference interpreter"]
    proved = R.prove()
    mp, mlog = core.build_model()
    if mp is None:
        R.violation("model driver does not build", {"log": mlog[-3000:]}, has_input=False)
        return
    M = core.Model([str(mp)])
    g = gen.G(R.seed * 999983 + 4)
    quick = R.tier == "quick"
    nscen = 4 if quick else 12       # (30 scenarios x 3 errnos needed more than 90 minutes on a loaded machine)
    errnos = ["EIO"] if quick else ["EIO", "ENOSPC", "EACCES"]
    fails, dis, known = [], [], {}
    stats = {"scenarios": 0, "injected_runs": 0, "by_class": {}, "events_by_class": {}, "stale_runs": 0}
    for i in range(nscen):
        tree, search, replace = scenario(g, i)
        sb, plan = fresh(tree, search, replace)
        if sb is None:
            continue
        stats["scenarios"] += 1
        before = sb.snapshot()
        t0 = al.tree_dict(sb.tree_entries())
        full = al.reference_apply(t0, plan)
        content_only = al.reference_apply(t0, {"matches": plan["matches"], "paths": []})
        if isinstance(full, tuple) or isinstance(content_only, tuple):
            sb.cleanup()
            continue
        full_s, content_s = al.sha_dict(full), al.sha_dict(content_only)
        # recording run
        rc, o, e, trace = inject.strace_run(sb, ["--no-auto-init", "-y", "apply"])
        evs = inject.mutating_events(trace, sb.root, classes=("user", "state", "log"))
        after0 = sb.snapshot()
        sb.cleanup()
        if rc != 0 or after0 != full_s:
            fails.append({"why": "fault-free apply did not produce the planned tree", "rc": rc, "tree": cli.tree_json(tree),
                          "search": search, "replace": replace, "stderr": e.decode("utf-8", "replace")[-300:]})
            continue
        real_ops = inject.collapse_writes(inject.user_ops(evs, sb.root))
        m0 = M.ask("apply_core", "none", al.aplan_sx(plan), al.fs_sx(tree))
        model_ops = inject.model_trace_ops(m0[3]) if isinstance(m0, list) and len(m0) > 3 else None
        aligned = model_ops == real_ops
        if not aligned:
            dis.append({"why": "model op trace differs from the recorded system-call trace", "model": repr(model_ops)[:1500],
                        "real": repr(real_ops)[:1500], "tree": cli.tree_json(tree), "search": search, "replace": replace})
        if i == 0:
            R.sample({"search": search, "replace": replace, "recorded_user_ops": [list(x) for x in real_ops[:12]],
                      "state_calls": sum(1 for x in evs if x.cls == "state")})
        # map each user event to its index in the collapsed op list
        user_idx = []
        k = -1
        prev = None
        for ev in evs:
            if ev.cls != "user":
                user_idx.append(None)
                continue
            op = inject.user_ops([ev], sb.root)[0]
            if not (op[0] == "write" and prev == op):
                k += 1
            prev = op
            user_idx.append(k)
        for j, ev in enumerate(evs):
            if quick and ev.cls == "log" and j % 4:
                continue            # the log is written in several small writes per line: every fourth one in the quick tier
            stats["events_by_class"][ev.cls] = stats["events_by_class"].get(ev.cls, 0) + 1
            for en in errnos:
                sb2, plan2 = fresh(tree, search, replace)
                if sb2 is None:
                    continue
                rc2, o2, e2, tr2 = inject.strace_run(sb2, ["--no-auto-init", "-y", "apply"],
                                                     inject=f"{ev.sys}:error={en}:when={ev.ordinal}")
                after = norm_snap(sb2.snapshot())
                hist = hist_ids(sb2)
                sb2.cleanup()
                stats["injected_runs"] += 1
                R.case(("inj", i, j, en, search, replace, ev.sys, ev.ordinal), nontrivial=True)
                injected = re.search(r"\(INJECTED\)", tr2) is not None
                if not injected:
                    continue
                if len(re.findall(r"\(INJECTED\)", tr2)) > 1:
                    stats["skipped_multiple_injections"] = stats.get("skipped_multiple_injections", 0) + 1
                    continue
                if rc2 == 0:
                    # reported success: whole plan applied and recorded
                    if after != full_s or not hist or hist == "UNPARSABLE":
                        fails.append({"why": "command reported success but the plan is not completely applied/recorded",
                                      "inject": f"{ev.sys}:{en}:when={ev.ordinal}", "event": ev.raw[:200],
                                      "tree": cli.tree_json(tree), "search": search, "replace": replace})
                    continue
                cls = classify(before, after, full_s, content_s, plan)
                if hist:
                    cls = cls or "history_changed_on_failure"
                stats["by_class"][str(cls)] = stats["by_class"].get(str(cls), 0) + 1
                if cls in ("content_edits_not_rolled_back", "late_failure_tree_applied"):
                    known[cls] = True
                elif cls is not None:
                    fails.append({"why": f"failed apply changed the tree or history in an unlisted way ({cls})",
                                  "inject": f"{ev.sys}:{en}:when={ev.ordinal}", "event": ev.raw[:200], "rc": rc2,
                                  "diff": repr(cli.diff_snap(before, after))[:1200], "history": hist,
                                  "tree": cli.tree_json(tree), "search": search, "replace": replace})
                # model prediction for user-tree events
                if aligned and ev.cls == "user" and user_idx[j] is not None and en == "EIO":
                    mk = M.ask("apply_core", user_idx[j], al.aplan_sx(plan), al.fs_sx(tree))
                    if isinstance(mk, list) and mk[0] in ("true", "false"):
                        pred = al.sha_dict(al.user_only(al.fs_from_sx(mk[2])))
                        if mk[0] != "false" or pred != after:
                            # a partially written temp file differs only when the injected call is one of several writes
                            dis.append({"why": "model prediction for an injected fault differs from the real run",
                                        "inject": f"{ev.sys}:{en}:when={ev.ordinal}", "model_index": user_idx[j],
                                        "diff": repr(cli.diff_snap(pred, after))[:1200], "tree": cli.tree_json(tree),
                                        "search": search, "replace": replace})
        # stale-plan perturbations
        for kind in ("edit", "truncate", "delete", "latin1", "occupy"):
            sb3, plan3 = fresh(tree, search, replace)
            if sb3 is None:
                continue
            files = sorted({h["file"] for h in plan3["matches"]})
            if not files:
                sb3.cleanup()
                continue
            victim = files[-1]
            vp = sb3.root / victim
            if kind == "edit":
                vp.write_bytes(b"changed " + vp.read_bytes())
            elif kind == "truncate":
                vp.write_bytes(b"")
            elif kind == "delete":
                vp.unlink()
            elif kind == "latin1":
                vp.write_bytes(b"caf\xe9 " + vp.read_bytes())
            elif kind == "occupy":
                rs = [r for r in plan3["paths"] if r.get("new_path")]
                if not rs:
                    sb3.cleanup()
                    continue
                (sb3.root / rs[0]["new_path"]).parent.mkdir(parents=True, exist_ok=True)
                try:
                    (sb3.root / rs[0]["new_path"]).write_bytes(b"occupant\n")
                except OSError:
                    sb3.cleanup()
                    continue
            b3 = sb3.snapshot()
            t3 = al.tree_dict(sb3.tree_entries())
            rc3, o3, e3 = sb3.run(["--no-auto-init", "-y", "apply"])
            a3 = norm_snap(sb3.snapshot())
            h3 = hist_ids(sb3)
            sb3.cleanup()
            stats["stale_runs"] += 1
            R.case(("stale", i, kind, search, replace), nontrivial=True)
            if rc3 == 0:
                continue
            c3 = al.reference_apply(t3, {"matches": [h for h in plan3["matches"] if h["file"] != victim], "paths": []})
            cls = classify(b3, a3, {}, al.sha_dict(c3) if not isinstance(c3, tuple) else {}, plan3)
            if h3:
                cls = cls or "history_changed_on_failure"
            stats["by_class"]["stale:" + str(cls)] = stats["by_class"].get("stale:" + str(cls), 0) + 1
            if cls == "content_edits_not_rolled_back" and kind in ("edit", "truncate"):
                # (an occupied destination, an unreadable or a missing file are detected BEFORE the first edit: for those
                # perturbations nothing at all may have changed, the recorded finding does not cover them)
                known[cls] = True
            elif cls is not None:
                fails.append({"why": f"stale plan ({kind}): failed apply changed the tree in an unlisted way ({cls})", "rc": rc3,
                              "diff": repr(cli.diff_snap(b3, a3))[:1200], "tree": cli.tree_json(tree), "search": search,
                              "replace": replace, "perturbation": kind, "victim": victim})
    M.close()
    other_commands_injected(R, g, fails, known, stats, errnos)
    logical_failures(R, g, fails, stats)
    R.coverage["input_distribution"] = stats
    R.disagreements = len(dis)
    listed = {f["class"]: f for f in core.known_findings("C04")}
    for cls in sorted(known):
        if cls in listed:
            R.known(cls, listed[cls]["what"])
        else:
            fails.append({"why": f"violation class {cls} is not a listed known finding"})
    for f in fails[:3]:
        R.violation(f["why"], {"kind": "impl_failure", **f})
    if fails:
        return
    if not proved:
        R.violation("proof obligation of Props/C04.v no longer checks (no unlisted failing input found)",
                    {"kind": "proof_broken", **getattr(R, "broken", {})}, has_input=False)
    elif dis:
        R.violation("apply model / system-call trace correspondence broke (no unlisted failing input found)",
                    {"kind": "correspondence", "first": dis[:3], "count": len(dis)}, has_input=False)


def replay(R, obj):
    print(json.dumps({k: v for k, v in obj.items() if k != "tree"}, indent=1)[:3000])
    if "inject" in obj and "tree" in obj:
        tree = cli.tree_from_json(obj["tree"])
        sb, plan = fresh(tree, obj["search"], obj["replace"])
        before = sb.snapshot()
        sysn, en, when = obj["inject"].split(":")
        rc, o, e, tr = inject.strace_run(sb, ["--no-auto-init", "-y", "apply"], inject=f"{sysn}:error={en}:{when}")
        after = sb.snapshot()
        print("rc", rc, "diff", cli.diff_snap(before, after)[:10])
        sb.cleanup()
        return 1 if (rc != 0 and before != after) else 0
    return 1
