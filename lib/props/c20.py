"""C20 — Every command line the wrappers build is accepted by the CLI."""
import json
import random
import re

import core

LEVEL = "proof"
EXPLANATION = ("Both sides are regenerated from the current sources on every run: Gen/GenWrappers.v holds the 18 args-builders "
               "of the MCP service and of the VS Code CLI service translated from TypeScript to Gallina functions, with the "
               "option fields, their optionality and representative values read from the TS types; Gen/GenCli.v holds the "
               "grammar dumped from the real clap Command. Theorem C20_wrappers_accepted (Props/C20.v): for every builder, for "
               "every record of its option space (every subset of the optional fields x the representative values — "
               "C20_space_is_all_subsets says that is what the enumeration contains) outside the recorded findings, the clap "
               "model accepts the built vector; it is a finite sweep by vm_compute in 16 residue classes lifted by "
               "forallb_forall; the parser model's fuel is proved adequate. Tie: the extracted model prints the space; every "
               "vector (thorough) or a stride sample (quick) is parsed by the real clap parser compiled from the current "
               "sources, which must agree with the model's verdict, accept everything outside the recorded findings, and bind "
               "every flag of the vector to the field it names (Debug of the parsed Cli); a malformed stream (dropped values, "
               "duplicated and unknown flags, bad enum values, '=' forms, short clusters, '--') compares the two parsers on "
               "rejected input.")
ASSUMPTIONS = ["the TypeScript-to-Gallina translator (translators/gen_wrappers.py) is trusted; it refuses any statement touching "
               "the argument vector that it does not understand, and its flag literals are cross-checked against the TS text",
               "representative values: one value per string / list / number field, every member of a union type, true and false"]

KINDS = {"UnknownArgument": {"UnknownArgument"}, "InvalidValue": {"InvalidValue", "ValueValidation"},
         # a value is missing at the end of the line or before a known flag; before an unknown flag clap reports that flag
         "MissingValue": {"InvalidValue", "UnknownArgument"},
         "Conflict": {"ArgumentConflict"}, "UsedTwice": {"ArgumentConflict"}, "MissingRequired": {"MissingRequiredArgument"},
         "TooManyPositionals": {"UnknownArgument"}, "UnexpectedValue": {"TooManyValues", "UnknownArgument", "InvalidValue"},
         "UnknownSubcommand": {"InvalidSubcommand", "MissingSubcommand", "DisplayHelpOnMissingArgumentOrSubcommand", "UnknownArgument"}}


def fget(o, k):
    return o.get(k)


def truthy(o, k):
    v = o.get(k)
    return bool(v) if not isinstance(v, list) else v is not None


def has_len(o, k):
    v = o.get(k)
    return isinstance(v, (list, str)) and len(v) > 0


def is_false(o, k):
    return o.get(k) is False


def known_class(name, o):
    """the same predicate as Model/Wrappers.v known_class; returns the finding class or None"""
    if name == "mcp_search":
        if has_len(o, "styles"):
            return "mcp_styles_flag"
        if truthy(o, "dryRun") or is_false(o, "renameFiles") or is_false(o, "renameDirs") or truthy(o, "atomicSearch"):
            return "mcp_search_unsupported_flags"
    if name == "mcp_plan" and has_len(o, "styles"):
        return "mcp_styles_flag"
    if name == "mcp_apply" and truthy(o, "planPath"):
        return "mcp_apply_plan_flag"
    if name == "mcp_preview":
        return "mcp_preview_only_flag"
    if name in ("mcp_rename", "mcp_replace") and o.get("preview") == "json":
        return "mcp_preview_json_value"
    if name == "mcp_rename" and has_len(o, "onlyStyles") and (has_len(o, "excludeStyles") or has_len(o, "includeStyles")):
        return "mcp_rename_only_styles_conflict"
    if name == "vsc_search" and (is_false(o, "renamePaths") or truthy(o, "atomicSearch")):
        return "vsc_search_unsupported_flags"
    if name == "vsc_apply" and truthy(o, "planId"):
        return "vsc_apply_id_flag"
    return None


def dec_opts(sx_opts):
    o = {}
    for k, v in sx_opts:
        key = core.atom_bytes(k).decode()
        if v == "absent":
            continue
        tag = v[0]
        if tag == "s":
            o[key] = core.atom_bytes(v[1]).decode()
        elif tag == "b":
            o[key] = v[1] == "true"
        elif tag == "l":
            o[key] = [core.atom_bytes(x).decode() for x in v[1]]
        elif tag == "n":
            o[key] = int(v[1])
    return o


def model_verdict(m):
    if m[0] == "ok":
        return True, None
    return False, m[1][0]


def meaning_ok(vec, parsed):
    """every flag of the vector is bound: its field in the Debug print of the parsed Cli is neither false, None nor []"""
    bad = []
    if parsed.startswith("display:"):
        return bad          # --version / --help: answered by clap itself
    for i, t in enumerate(vec):
        if t.startswith("--") and len(t) > 2:
            name = t[2:].split("=")[0].replace("-", "_")
            m = re.search(r"\b" + re.escape(name) + r": ([^,}]*)", parsed)
            if not m or m.group(1).strip() in ("false", "None", "[]", "0"):
                bad.append(t)
                continue
            if i + 1 < len(vec) and not vec[i + 1].startswith("-"):
                seg = parsed[m.start():m.start() + 400].lower().replace("_", "").replace("-", "")
                for part in vec[i + 1].split(","):
                    if part.lower().replace("-", "").replace("_", "") not in seg:
                        bad.append(t + " " + part)
        elif t == "-u" and not re.search(r"unrestricted: [1-9]", parsed):
            bad.append(t)
        elif t == "-y" and "yes: true" not in parsed:
            bad.append(t)
    return bad


def mutate(r, vec):
    v = list(vec)
    k = r.randrange(9)
    if k == 0 and len(v) > 1:
        del v[r.randrange(1, len(v))]
    elif k == 1:
        fl = [t for t in v if t.startswith("--")]
        if fl:
            v.append(r.choice(fl))
    elif k == 2:
        v.insert(r.randrange(1, len(v) + 1), r.choice(["--bogus", "--styles", "-Z", "--plan", "--id"]))
    elif k == 3:
        idx = [i for i, t in enumerate(v) if i > 0 and v[i - 1] in ("--preview", "--output", "--only-styles", "--exclude-styles")]
        if idx:
            v[r.choice(idx)] = r.choice(["zzz", "snake,zzz", "json", "", "Table"])
    elif k == 4:
        v.append(r.choice(["extra", "extra1 extra2", "."]))
    elif k == 5:
        idx = [i for i, t in enumerate(v) if t.startswith("--") and i + 1 < len(v) and not v[i + 1].startswith("-")]
        if idx:
            i = r.choice(idx)
            v[i:i + 2] = [v[i] + "=" + v[i + 1]]
    elif k == 6:
        v.insert(1, r.choice(["-uy", "-yu", "-uu", "-y", "-C", "--yes", "--no-auto-init"]))
    elif k == 7:
        v.insert(r.randrange(1, len(v) + 1), "--")
    else:
        v = [r.choice(["--no-color", "-u", "-y", "--auto-init", "--auto-init=repo"])] + v
    return v


def ts_flag_literals(meths):
    """independent of the translator: the flag literals in the TS text of the builders' methods and helpers"""
    out = {}
    for cname, rel, meth in meths:
        src = (core.REPO / rel).read_text()
        out.setdefault(rel, set()).update(re.findall(r"'(--?[A-Za-z][\w-]*)'", src))
    return out


def run(R):
    R.trusted += ["Coq 8.16.1 kernel (vm_compute)", "translators/gen_wrappers.py (TS -> Gallina)", "translators/gen_cli.py + harness clap_dump",
                  "extraction (ExtrOcamlBasic) and ocaml/modelrun.ml", "harness clap_parse (Cli::try_parse_from)"]
    proved = R.prove()
    hp, hlog = core.build_harness()
    mp, mlog = core.build_model()
    if hp is None or mp is None:
        R.violation("harness or model driver does not build", {"log": (hlog + mlog)[-3000:]}, has_input=False)
        return
    H = core.Harness([str(hp)])
    M = core.Model([str(mp)])
    r = random.Random(R.seed * 811 + 20)
    quick = R.tier == "quick"
    names = [(core.atom_bytes(a[0]).decode(), int(a[1])) for a in M.ask("wrapper_names")]
    fails, dis, stale = [], [], set()
    stats = {"builders": {}, "malformed": 0, "malformed_rejected": 0, "known": {}, "meaning_checked": 0}
    seen_flags = set()
    pool = []
    if len(names) < 20:
        fails.append({"why": f"only {len(names)} builders were translated"})
    for name, count in names:
        stride = max(1, count // 1500) if quick else 1
        off = r.randrange(stride)
        rows = M.ask("wrapper_space", name.encode(), stride, off)
        st = {"space": count, "parsed": 0, "accepted": 0, "rejected_known": 0}
        for so, sv, sm in rows:
            o = dec_opts(so)
            vec = [core.atom_bytes(t).decode() for t in sv]
            seen_flags.update(t for t in vec if t.startswith("-"))
            mok, mkind = model_verdict(sm)
            real = H.ask({"op": "clap_parse", "argv": vec})
            rok = bool(real.get("ok"))
            st["parsed"] += 1
            R.case((name, tuple(vec)), nontrivial=True)
            kc = known_class(name, o)
            if rok:
                st["accepted"] += 1
                if len(pool) < 4000 and r.random() < 0.2:
                    pool.append(vec)
                if kc:
                    stale.add(kc + ":" + name)
                bad = meaning_ok(vec, real.get("parsed", ""))
                stats["meaning_checked"] += 1
                if bad:
                    fails.append({"why": f"{name}: accepted, but {bad} is not bound to the field it names", "builder": name, "options": o, "argv": vec,
                                  "parsed": real.get("parsed", "")[:600]})
            else:
                if kc:
                    st["rejected_known"] += 1
                    stats["known"][kc] = stats["known"].get(kc, 0) + 1
                    R.known(kc, f"{name}: {' '.join(vec)[:100]} -> {real.get('kind')}")
                else:
                    fails.append({"why": f"{name} builds a command line the CLI rejects ({real.get('kind')}: {real.get('msg', '')[:120]})",
                                  "builder": name, "options": o, "argv": vec})
            if rok != mok or (not rok and real.get("kind") not in KINDS.get(mkind, set())):
                dis.append({"builder": name, "argv": vec, "model": [mok, mkind], "real": [rok, real.get("kind")]})
            if len(R.coverage["samples"]) < 4 and r.random() < 0.01:
                R.sample({"builder": name, "options": o, "argv": vec, "accepted": rok})
        stats["builders"][name] = st
        if st["parsed"] == 0:
            fails.append({"why": f"no vector of {name} was parsed: the check is vacuous"})
    # the whole space on the model side (fast), the real parser on exactly the vectors the model rejects: whatever breaks the
    # sweep theorem is turned into a concrete wrapper call
    for name, count in names:
        rows = M.ask("wrapper_rejected", name.encode(), 300)
        if not isinstance(rows, list):
            continue
        for so, sv, sm in rows:
            o = dec_opts(so)
            vec = [core.atom_bytes(t).decode() for t in sv]
            real = H.ask({"op": "clap_parse", "argv": vec})
            stats["model_rejected_replayed"] = stats.get("model_rejected_replayed", 0) + 1
            R.case((name, tuple(vec)), nontrivial=True)
            kc = known_class(name, o)
            if real.get("ok"):
                dis.append({"builder": name, "argv": vec, "model": list(model_verdict(sm)), "real": [True, None]})
            elif kc:
                stats["known"][kc] = stats["known"].get(kc, 0) + 1
                R.known(kc, f"{name}: {' '.join(vec)[:100]} -> {real.get('kind')}")
            elif not any(f.get("argv") == vec for f in fails):
                fails.append({"why": f"{name} builds a command line the CLI rejects ({real.get('kind')}: {real.get('msg', '')[:120]})",
                              "builder": name, "options": o, "argv": vec})
    # malformed stream: model vs real parser on (mostly) rejected input
    for i in range(600 if quick else 30000):
        if not pool:
            break
        vec = r.choice(pool)
        nmut = r.randint(1, 2)
        for _ in range(nmut):
            vec = mutate(r, vec)
        if any("\x00" in t for t in vec):
            continue
        mok, mkind = model_verdict(M.ask("clap_accepts", [t.encode() for t in vec]))
        real = H.ask({"op": "clap_parse", "argv": vec})
        rok = bool(real.get("ok"))
        stats["malformed"] += 1
        stats["malformed_rejected"] += 0 if rok else 1
        R.case(("mal", tuple(vec)), nontrivial=True)
        # with two mutations clap's choice of which error to report first is not modelled: compare the verdict only
        if rok != mok or (nmut == 1 and not rok and real.get("kind") not in KINDS.get(mkind, set())):
            dis.append({"argv": vec, "model": [mok, mkind], "real": [rok, real.get("kind"), real.get("msg", "")[:100]], "stream": "malformed"})
    # translator cross-check: every flag literal of the TS sources shows up in some built vector of the sample (thorough: of the space)
    import sys
    sys.path.insert(0, str(core.VERIF / "translators"))
    import gen_wrappers
    lit = ts_flag_literals(gen_wrappers.BUILDERS)
    missing = {rel: sorted(f for f in fl if f not in seen_flags) for rel, fl in lit.items()}
    missing = {k: v for k, v in missing.items() if v}
    if missing and not quick:
        dis.append({"translator": "flag literals of the TypeScript sources never produced by the translated builders", "missing": missing})
    stats["ts_flag_literals"] = {k: len(v) for k, v in lit.items()}
    stats["ts_flag_literals_not_seen_in_sample"] = missing
    H.close()
    M.close()
    R.coverage["input_distribution"] = stats
    R.disagreements = len(dis)
    for s in sorted(stale):
        R.notes.append("recorded finding no longer reproduces for " + s)
    for f in fails[:3]:
        R.violation(f["why"], {"kind": "impl_failure", **f})
    if fails:
        return
    if not proved:
        R.violation("proof obligation of Props/C20.v no longer checks (the real parser accepted every vector outside the recorded findings)",
                    {"kind": "proof_broken", **getattr(R, "broken", {})}, has_input=False)
    elif dis:
        R.violation("clap model / real parser (or translator) correspondence broke (no rejected wrapper vector found)",
                    {"kind": "correspondence", "first": dis[:5], "count": len(dis)}, has_input=False)


def replay(R, obj):
    print(json.dumps(obj, indent=1)[:2500])
    if "argv" in obj:
        hp, _ = core.build_harness()
        H = core.Harness([str(hp)])
        real = H.ask({"op": "clap_parse", "argv": obj["argv"]})
        H.close()
        print("real parser:", real)
        return 0 if real.get("ok") else 1
    return 1
