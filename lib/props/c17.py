"""C17 — Plans survive being saved and reloaded.
Proof: Props/C17.v (round trip of the serde derive model for ALL plan values, attributes regenerated
from the source). Tie: model encoder vs serde_json on generated plans (harness), CLI plan->apply
from file vs direct rename, undo/redo of empty-replacement renames."""
import json
import core
import cli
import gen

LEVEL = "proof"
EXPLANATION = ("Theorem C17_plan_roundtrip holds for every plan value of the serde-derive model whose "
               "attribute table is regenerated from scanner.rs/history.rs on every run; the model's JSON "
               "tree is compared with serde_json's output on generated plans; CLI scenarios apply a saved "
               "plan and undo/redo empty-replacement renames. Partial: serde_json's text layer "
               "(escaping, number syntax) is trusted; non-UTF-8 paths are outside the model.")
ASSUMPTIONS = ["serde_json text layer trusted", "paths and strings are valid UTF-8",
               "translator gen_serde.py transcribes serde attributes faithfully (fails loudly otherwise)"]


def rand_str(r, allow_empty=True):
    k = r.randrange(10)
    if k == 0 and allow_empty:
        return ""
    if k == 8:
        # blank but not empty, and values that a "skip if it looks empty / default" predicate could mistake for nothing
        return r.choice([" ", "\t", "\n", "  \t ", "\r\n", "\u00a0", "0", "null", "false", "{}", "\\0"])
    if k == 9:
        return r.choice([" lead", "trail ", "\ttab\t", "a\nb", "  x  "])
    if k == 1:
        return "café ☃ \"q\" \\ \t"
    if k == 2:
        return "a/b c/é.txt"
    return "".join(r.choice("abcXYZ_-. /") for _ in range(r.randint(1, 10)))


def rand_opt(r):
    return None if r.random() < 0.5 else rand_str(r)


def rand_plan(g, force_empty=False):
    r = g.r
    hunks = []
    for _ in range(r.randint(0, 4)):
        hunks.append({
            "file": rand_str(r, False), "line": r.randint(0, 1000), "byte_offset": r.randint(0, 99),
            "char_offset": r.randint(0, 99), "variant": rand_str(r), "content": rand_str(r),
            "replace": "" if (force_empty or r.random() < 0.3) else rand_str(r),
            "start": r.randint(0, 10**6), "end": r.randint(0, 10**6),
            "line_before": rand_opt(r), "line_after": rand_opt(r), "coercion_applied": rand_opt(r),
            "original_file": rand_opt(r), "renamed_file": rand_opt(r), "patch_hash": rand_opt(r)})
    renames = []
    for _ in range(r.randint(0, 3)):
        renames.append({"path": rand_str(r, False),
                        "new_path": "" if (force_empty or r.random() < 0.3) else rand_str(r),
                        "kind": r.choice(["file", "dir"]), "coercion_applied": rand_opt(r)})
    by = {}
    for _ in range(r.randint(0, 3)):
        by[rand_str(r)] = r.randint(0, 50)
    return {
        "id": rand_str(r), "created_at": str(r.randint(0, 2 * 10**9)), "search": rand_str(r),
        "replace": "" if force_empty else rand_str(r),
        "styles": r.sample(gen.STYLES14, r.randint(0, 4)), "includes": [rand_str(r) for _ in range(r.randint(0, 2))],
        "excludes": [rand_str(r) for _ in range(r.randint(0, 2))], "matches": hunks, "paths": renames,
        "stats": {"files_scanned": r.randint(0, 99), "total_matches": len(hunks), "matches_by_variant": by,
                  "files_with_matches": r.randint(0, 9)},
        "version": "1.0.0",
        "created_directories": None if r.random() < 0.6 else [rand_str(r) for _ in range(r.randint(0, 2))]}


def b(s):
    return s.encode("utf-8")


def opt(s):
    return None if s is None else ["some", b(s)]


def plan_sx(p):
    hs = [[b(h["file"]), h["line"], h["byte_offset"], h["char_offset"], b(h["variant"]), b(h["content"]),
           b(h["replace"]), h["start"], h["end"], opt(h["line_before"]), opt(h["line_after"]),
           opt(h["coercion_applied"]), opt(h["original_file"]), opt(h["renamed_file"]), opt(h["patch_hash"])]
          for h in p["matches"]]
    rs = [[b(x["path"]), b(x["new_path"]), x["kind"], opt(x["coercion_applied"])] for x in p["paths"]]
    st = p["stats"]
    sts = [st["files_scanned"], st["total_matches"], [[b(k), v] for k, v in sorted(st["matches_by_variant"].items())],
           st["files_with_matches"]]
    cd = None if p["created_directories"] is None else ["some", [b(x) for x in p["created_directories"]]]
    return [b(p["id"]), b(p["created_at"]), b(p["search"]), b(p["replace"]), [b(x) for x in p["styles"]],
            [b(x) for x in p["includes"]], [b(x) for x in p["excludes"]], hs, rs, sts, b(p["version"]), cd]


def json_of_sx(s):
    """model JSON sexp -> python (objects as list of pairs to keep order)"""
    if s == "null":
        return None
    tag = s[0]
    if tag == "b":
        return s[1] == "true"
    if tag == "n":
        return int(s[1])
    if tag == "s":
        return core.atom_bytes(s[1]).decode("utf-8")
    if tag == "a":
        return [json_of_sx(x) for x in s[1:]]
    if tag == "o":
        return ("obj", [(core.atom_bytes(kv[0]).decode("utf-8"), json_of_sx(kv[1])) for kv in s[1:]])
    raise ValueError(s)


def canon_impl(v, path=()):
    """json.loads(object_pairs_hook) result -> same shape as json_of_sx; the HashMap is sorted"""
    if isinstance(v, list) and v and isinstance(v[0], tuple) and v[0][0] == "__pair__":
        pairs = [(k, canon_impl(x, path + (k,))) for (_, k, x) in v]
        if path and path[-1] == "matches_by_variant":
            pairs.sort()
        return ("obj", pairs)
    if isinstance(v, list):
        return [canon_impl(x, path) for x in v]
    return v


def loads_ordered(text):
    def hook(pairs):
        if not pairs:
            return [("__pair__", "__empty__", None)][:0] or ("EMPTYOBJ",)
        return [("__pair__", k, v) for k, v in pairs]
    v = json.loads(text, object_pairs_hook=hook)

    def fix(x, path=()):
        if x == ("EMPTYOBJ",):
            return ("obj", [])
        if isinstance(x, list) and x and isinstance(x[0], tuple) and len(x[0]) == 3 and x[0][0] == "__pair__":
            pairs = [(k, fix(y, path + (k,))) for (_, k, y) in x]
            if path and path[-1] == "matches_by_variant":
                pairs.sort()
            return ("obj", pairs)
        if isinstance(x, list):
            return [fix(y, path) for y in x]
        return x
    return fix(v)


def oracle_impl(h, plan):
    """direct oracle on the implementation: serialise, reparse, serialise again: must succeed and agree"""
    r = h.ask({"op": "plan_roundtrip", "plan": plan})
    good = r.get("ok") is True and r.get("same") is True
    return good, r


def run(R):
    R.trusted += ["Coq 8.16.1 kernel + vm_compute", "translators/gen_serde.py", "serde_json text layer",
                  "harness crate (plan_roundtrip op)", "ExtrOcamlBasic extraction + ocaml/modelrun.ml"]
    proved = R.prove()
    hp, hlog = core.build_harness()
    if hp is None:
        R.violation("harness does not build against the current tree", {"log": hlog[-3000:]}, has_input=False)
        return
    H = core.Harness([str(hp)])
    mp, mlog = core.build_model()
    M = core.Model([str(mp)]) if mp else None
    g = gen.G(R.seed * 7919 + 17)
    n = 400 if R.tier == "quick" else 6000
    disagreements, failures = [], []
    dist = {"empty_replace_hunks": 0, "empty_new_path": 0, "hunks": 0, "renames": 0, "created_dirs": 0}
    for i in range(n):
        p = rand_plan(g, force_empty=(i % 7 == 0))
        dist["hunks"] += len(p["matches"])
        dist["renames"] += len(p["paths"])
        dist["empty_replace_hunks"] += sum(1 for x in p["matches"] if x["replace"] == "")
        dist["empty_new_path"] += sum(1 for x in p["paths"] if x["new_path"] == "")
        dist["created_dirs"] += p["created_directories"] is not None
        good, r = oracle_impl(H, p)
        R.case(json.dumps(p, sort_keys=True), nontrivial=bool(p["matches"] or p["paths"]))
        if i < 2:
            R.sample({"plan": p, "impl_roundtrip_ok": good})
        if not good:
            failures.append({"plan": p, "impl": {k: r.get(k) for k in ("ok", "same", "de_err", "ser_err", "error", "panic")}})
        if M is not None and "t1" in r:
            m = M.ask("serde_plan", plan_sx(p))
            if m and m[0] != "error":
                mj = json_of_sx(m[0])
                ij = loads_ordered(r["t1"])
                if mj != ij or (m[1] == "true") != good:
                    disagreements.append({"plan": p, "model_json": repr(mj)[:2000], "impl_json": repr(ij)[:2000],
                                          "model_roundtrip": m[1], "impl_roundtrip": good})
            else:
                disagreements.append({"plan": p, "model_error": m})
    R.coverage["input_distribution"] = dist
    R.disagreements = len(disagreements)
    # CLI scenarios: saved plan == direct, empty replacement undo/redo
    cli_fail = cli_scenarios(R, g, 6 if R.tier == "quick" else 40)
    failures += cli_fail
    H.close()
    if M:
        M.close()
    # Model/JsonText.v (serde_json's printers and parser) against the real serde_json: printed texts byte for byte, parsed values,
    # rejected texts, and print_pretty (enc_plan p) against to_string_pretty(&Plan)
    env = dict(core.ENV, RN_HARNESS=str(hp), RN_ROCQ=str(core.ROCQ), RN_WORK=str(core.BUILD / "jsontext_work"))
    rc, txt, dt = core.sh(["python3", str(core.VERIF / "lib" / "jsontext_difftest.py"), str(R.seed + 17), "50" if R.tier == "quick" else "1200"],
                          env=env, timeout=3000)
    m1 = __import__("re").search(r"compared (\d+) texts", txt)
    m2 = __import__("re").search(r"DISAGREEMENTS: (\d+)", txt)
    dist["json_text_model"] = {"texts_compared": int(m1.group(1)) if m1 else 0, "disagreements": int(m2.group(1)) if m2 else None}
    if not m1 or not m2 or int(m1.group(1)) == 0:
        disagreements.append({"why": "the JSON text differential run did not complete", "log": txt[-1500:]})
    elif int(m2.group(1)) > 0:
        disagreements.append({"why": "Model/JsonText.v differs from serde_json", "log": txt[txt.find("DISAGREEMENTS"):][:2500]})
    R.disagreements = len(disagreements)
    decide(R, proved, mp is not None, disagreements, failures)


def decide(R, proved, model_ok, disagreements, failures):
    for f in failures[:3]:
        R.violation("a plan does not survive save/reload on the implementation", {"kind": "impl_failure", **f})
    if failures:
        return
    if not proved:
        R.violation("proof obligation of Props/C17.v no longer checks (no failing input found on the implementation)",
                    {"kind": "proof_broken", "theorem": "C17_plan_roundtrip / dependencies", **getattr(R, "broken", {})},
                    has_input=False)
    elif not model_ok:
        R.violation("extracted model does not build", {"kind": "model_build"}, has_input=False)
    elif disagreements:
        R.violation("model/implementation correspondence broke (serde encoding differs) but every generated plan still round-trips",
                    {"kind": "correspondence", "case": disagreements[0]}, has_input=False)


def cli_scenarios(R, g, n):
    fails = []
    succeeded = 0
    for i in range(n):
        a, b2 = g.term_pair()
        search = gen.render(a, "Snake")
        empty = (i % 2 == 0)
        replace = "" if empty else gen.render(b2, "Snake")
        tree = g.tree(a, symlinks=False)
        tree.append({"p": "zz_" + search + ".txt", "k": "f", "c": (search + " café\n").encode(), "m": 0o644})
        # a file that the plan both edits and moves (inside a renamed directory, and renamed itself): the stored plan copy
        # must still describe the plan that was applied, so that redo after undo finds it again
        tree.append({"p": "mv_" + search, "k": "d", "m": 0o755})
        tree.append({"p": "mv_" + search + "/mod.txt", "k": "f", "c": ("use " + search + ";\nfn " + search + "_x() {}\n").encode(), "m": 0o644})
        tree.append({"p": "mv_" + search + "/" + search + "_impl.txt", "k": "f", "c": ("impl " + search + "\n").encode(), "m": 0o644})
        with cli.Sandbox(tree) as s1, cli.Sandbox(tree) as s2:
            if empty:
                # empty replacement: content only (an empty name component is not a valid rename)
                extra = ["--no-rename-paths"]
            else:
                extra = []
            rc1, o1, e1 = s1.run(["--no-auto-init", "-y", "rename", search, replace] + extra)
            rc2a, o2a, e2a = s2.run(["--no-auto-init", "plan", search, replace] + extra)
            rc2, o2, e2 = s2.run(["--no-auto-init", "-y", "apply"])
            t1, t2 = s1.snapshot(), s2.snapshot()
            R.case(("cli", search, replace, repr(sorted(t1))), nontrivial=True)
            if i == 0:
                R.sample({"cli": ["rename", search, replace] + extra, "rc_direct": rc1, "rc_plan_apply": [rc2a, rc2]})
            if rc1 != rc2 or t1 != t2:
                fails.append({"scenario": "saved plan vs direct", "tree": cli.tree_json(tree), "search": search,
                              "replace": replace, "rc": [rc1, rc2a, rc2], "stderr": e2.decode("utf-8", "replace")[-500:],
                              "diff": repr(cli.diff_snap(t1, t2))[:1500]})
                continue
            succeeded += rc1 == 0
            if rc1 == 0:
                # the stored copy must be loadable: undo then redo
                rcu, ou, eu = s1.run(["--no-auto-init", "-y", "undo", "latest"])
                rcr, orr, er = s1.run(["--no-auto-init", "-y", "redo", "latest"])
                msg = (eu + er).decode("utf-8", "replace")
                if "missing field" in msg or "Failed to parse" in msg or "parse plan" in msg.lower():
                    fails.append({"scenario": "stored plan copy unreadable", "tree": cli.tree_json(tree),
                                  "search": search, "replace": replace, "rc": [rc1, rcu, rcr], "stderr": msg[-800:]})
                elif rcu == 0 and (rcr != 0 or s1.snapshot() != t1):
                    fails.append({"scenario": "redo from the stored plan copy " + ("fails after a successful undo" if rcr != 0 else
                                                                                  "does not reproduce the direct apply"),
                                  "tree": cli.tree_json(tree), "search": search, "replace": replace, "rc": [rc1, rcu, rcr],
                                  "stderr": er.decode("utf-8", "replace")[-500:],
                                  "diff": repr(cli.diff_snap(t1, s1.snapshot()))[:1200]})
    # `replace` with replacement texts that are blank, padded or look like JSON literals: direct == saved plan file == undo + redo
    for j, rep in enumerate([" ", "\t", "  ", " x ", "null", "0", "\u00a0"][: (4 if n < 10 else 7)]):
        a, b2 = g.term_pair()
        term = gen.render(a, "Snake")
        tree = [{"p": "post.md", "k": "f", "c": (f"my {term} post\n{term}{term}\n").encode(), "m": 0o644},
                {"p": "d", "k": "d", "m": 0o755}, {"p": "d/other.txt", "k": "f", "c": (f"x{term}y\n").encode(), "m": 0o600}]
        with cli.Sandbox(tree) as sa, cli.Sandbox(tree) as sb_, cli.Sandbox(tree) as sc:
            base = ["--no-auto-init", "-y", "replace", "--no-regex", term, rep, "--no-rename-paths"]
            rca, oa, ea = sa.run(base)
            ta = sa.snapshot()
            rcb1, ob1, eb1 = sb_.run(base + ["--dry-run", "--output", "json"])
            (sb_.dir / "saved_plan.json").write_bytes(ob1)
            try:
                doc = json.loads(ob1.decode("utf-8"))
                (sb_.dir / "saved_plan.json").write_text(json.dumps(doc.get("plan", doc)))
            except Exception:
                pass
            rcb, ob, eb = sb_.run(["--no-auto-init", "-y", "apply", str(sb_.dir / "saved_plan.json")])
            rcc, oc, ec = sc.run(base)
            rcu, ou, eu = sc.run(["--no-auto-init", "-y", "undo", "latest"])
            rcr, orr, er = sc.run(["--no-auto-init", "-y", "redo", "latest"])
            R.case(("cli_blank", term, rep), nontrivial=True)
            succeeded += rca == 0
            ctx = {"tree": cli.tree_json(tree), "pattern": term, "replacement": rep}
            if rca == 0 and (rcb != 0 or sb_.snapshot() != ta):
                fails.append({"scenario": "applying the saved plan file " + ("is refused although the direct apply succeeds" if rcb != 0 else
                                                                            "differs from applying directly"), **ctx, "rc": [rca, rcb1, rcb],
                              "stderr": eb.decode("utf-8", "replace")[-300:], "diff": repr(cli.diff_snap(ta, sb_.snapshot()))[:1000]})
            elif rca == 0 and (rcu != 0 or rcr != 0 or sc.snapshot() != ta):
                fails.append({"scenario": "undo + redo (stored plan copy) does not reproduce the direct apply", **ctx, "rc": [rcc, rcu, rcr],
                              "stderr": (eu + er).decode("utf-8", "replace")[-400:], "diff": repr(cli.diff_snap(ta, sc.snapshot()))[:1000]})
    # a plan written over an older, longer, still unapplied plan file must be read back as itself
    for j in range(max(2, n // 3)):
        a, b2 = g.term_pair()
        c, d = g.term_pair()
        s1, r1 = gen.render(a, "Snake"), gen.render(b2, "Snake")
        s2, r2 = gen.render(c, "Snake"), gen.render(d, "Snake")
        big = [{"p": f"f{k}_{s1}.txt", "k": "f", "c": ((s1 + " x\n") * 6).encode(), "m": 0o644} for k in range(6)]
        small = [{"p": "one.txt", "k": "f", "c": (s2 + "\n").encode(), "m": 0o644}]
        tree = big + small
        for plan_out in (None, "saved/plan.json"):
            with cli.Sandbox(tree) as s1b, cli.Sandbox(tree) as s2b:
                po = ["--plan-out", plan_out] if plan_out else []
                s1b.run(["--no-auto-init", "plan", s1, r1, "--quiet"] + po)
                rcp, op, ep = s1b.run(["--no-auto-init", "plan", s2, r2, "--quiet"] + po)
                rca, oa, ea = s1b.run(["--no-auto-init", "-y", "apply"] + ([plan_out] if plan_out else []))
                rcd, od, ed = s2b.run(["--no-auto-init", "-y", "rename", s2, r2])
                R.case(("replan", s1, s2, plan_out), nontrivial=True)
                succeeded += rca == 0
                snap1 = {k: v for k, v in s1b.snapshot().items() if not (k == "saved" or k.startswith("saved/"))}
                if rcp != 0 or rca != rcd or snap1 != s2b.snapshot():
                    fails.append({"scenario": "plan saved over an older plan file is not read back as written",
                                  "tree": cli.tree_json(tree), "first": [s1, r1], "second": [s2, r2], "plan_out": plan_out,
                                  "rc": [rcp, rca, rcd], "stderr": ea.decode("utf-8", "replace")[-400:]})
    if succeeded == 0:
        fails.append({"scenario": "no CLI scenario succeeded (the CLI runs are vacuous)", "n": n})
    R.coverage["cli_scenarios_succeeded"] = succeeded
    return fails


def replay(R, obj):
    hp, _ = core.build_harness()
    H = core.Harness([str(hp)])
    if "plan" in obj:
        good, r = oracle_impl(H, obj["plan"])
        print("roundtrip ok" if good else f"roundtrip FAILS: {r}")
        return 0 if good else 1
    print(json.dumps(obj, indent=1)[:3000])
    return 1
