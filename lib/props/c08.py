"""C08 — Path renames are complete, conflict-free and composable."""
import json

import core
import cli
import gen
import applylib as al

LEVEL = "proof"
EXPLANATION = ("Theorems (Props/C08.v), for ANY function computing the new name: every scheduled rename belongs to a listed "
               "entry of an enabled kind and changes exactly that entry's own name component; each entry is scheduled at most "
               "once, also over nested or repeated roots; the per-kind switches hold; after conflict filtering no two renames "
               "share a destination; and nested renames compose (the proved rename-stage theorem: after apply every entry "
               "sits at the path obtained by applying its ancestors' renames and its own, nothing else moves). Tie: the "
               "Gallina plan_listing with the real variant table is compared with plan.paths of the real scanner on "
               "generated trees (term in any subset of components, any style, extensions, surrounding words, symlinks) x "
               "--no-rename-files/-dirs/-paths x root sets (default, nested, repeated); the direct oracle computes the "
               "expected rename set by construction and, after a real apply, the expected path set.")
ASSUMPTIONS = ["the new-name function (variant table + ambiguity resolver + coercion) is a parameter of the theorems",
               "names containing two different variants get only the first rewritten (outside the quantifier; recorded)"]

NAME_STYLES = ["Snake", "Kebab", "Camel", "Pascal", "ScreamingSnake", "Train"]


def build_tree(g, a, b):
    """tree whose names are built as pre + style(term) + post; returns (tree, expected {path: newname})"""
    r = g.r
    entries, expect = [], {}
    dirs = [""]

    def mkname(hit):
        if not hit:
            return r.choice(gen.VOCAB[20:]) + str(r.randint(0, 99)), None
        st = r.choice(NAME_STYLES)
        w, nw = gen.render(a, st), gen.render(b, st)
        if st in ("Snake", "ScreamingSnake"):
            pre, post = r.choice(["", "my_", "x_"]), r.choice(["", "_test", "_v2"])
            if st == "ScreamingSnake":
                pre, post = pre.upper(), post.upper()
        elif st in ("Kebab", "Train"):
            pre, post = r.choice(["", "my-", "x-"]), r.choice(["", "-test"])
            if st == "Train":
                pre, post = pre.capitalize() if pre else "", ("-Test" if post else "")
        elif st == "Pascal":
            pre, post = r.choice(["", "My", "Get"]), r.choice(["", "Test", "Impl"])
        else:  # Camel: a leading word makes the term's first word capitalised
            pre, post = r.choice(["", "my", "get"]), r.choice(["", "Test", "Impl"])
            if pre:
                w, nw = gen.render(a, "Pascal"), gen.render(b, "Pascal")
        return pre + w + post, pre + nw + post

    for _ in range(r.randint(1, 4)):
        parent = r.choice(dirs)
        if parent.count("/") >= 2:
            continue
        nm, new = mkname(r.random() < 0.6)
        p = (parent + "/" if parent else "") + nm
        if p in dirs:
            continue
        dirs.append(p)
        entries.append({"p": p, "k": "d", "m": 0o755})
        if new:
            expect[p] = ("dir", new)
    names = set(dirs)
    for _ in range(r.randint(2, 6)):
        parent = r.choice(dirs)
        nm, new = mkname(r.random() < 0.6)
        ext = r.choice([".txt", ".rs", ".md", ""])
        p = (parent + "/" if parent else "") + nm + ext
        if p in names:
            continue
        names.add(p)
        if r.random() < 0.2:
            # a symbolic link: dangling, to a directory of the tree or to a file of the tree (relative target). Whatever it points at,
            # the link itself is a non-directory entry: a "file" for --no-rename-files / --no-rename-dirs
            up = "../" * p.count("/")
            real_dirs = [d for d in dirs if d]
            files_so_far = [e["p"] for e in entries if e["k"] == "f"]
            tgt = r.choice(["nowhere"] + ([up + r.choice(real_dirs)] * 2 if real_dirs else []) + ([up + r.choice(files_so_far)] if files_so_far else []))
            entries.append({"p": p, "k": "l", "t": tgt})
        else:
            entries.append({"p": p, "k": "f", "c": b"plain text\n", "m": 0o644})
        if new:
            expect[p] = ("file", new + ext)
    return entries, expect


def cli_rename_roots(R, g, fails, stats):
    """the real `rename` command (operations/rename.rs: root handling, conflict pre-checks, apply) over several search roots:
    default, a root nested below a directory whose own name carries the term, a repeated root. Afterwards every entry sits at
    the path obtained by renaming its ancestors and itself, and nothing else has moved."""
    r = g.r
    n = 10 if R.tier == "quick" else 150
    for i in range(n):
        a, b = g.term_pair()
        tree, expect = build_tree(g, a, b)
        search, replace = gen.render(a, "Snake"), gen.render(b, "Snake")
        dirs = [e["p"] for e in tree if e["k"] == "d"]
        plain_dirs = [d for d in dirs if d not in expect]
        below_hit = [d for d in plain_dirs if any(d.startswith(h + "/") for h in expect)]
        # make sure the interesting shape exists: an ordinary directory below a directory that is renamed
        if not below_hit:
            hits = [d for d in dirs if d in expect and d.count("/") < 2]
            if hits:
                nd = hits[0] + "/srcdir"
                tree = tree + [{"p": nd, "k": "d", "m": 0o755}, {"p": nd + "/" + search + "_inner.txt", "k": "f", "c": b"x\n", "m": 0o644}]
                expect = dict(expect)
                expect[nd + "/" + search + "_inner.txt"] = ("file", replace + "_inner.txt")
                below_hit = [nd]
        if below_hit:
            # a term-named symlink whose target is the directory that will also be given as a search root: an entry of its own
            tree = tree + [{"p": search + "_alias", "k": "l", "t": below_hit[0]}]
            expect = dict(expect)
            expect[search + "_alias"] = ("file", replace + "_alias")
        kind = ["nested_below_renamed", "default", "repeated", "nested_below_renamed"][i % 4]
        if kind == "nested_below_renamed" and not below_hit:
            kind = "default"
        roots = {"default": [], "repeated": [".", "."], "nested_below_renamed": [".", below_hit[0] if below_hit else "."]}[kind]
        want = set()
        for e in tree:
            comps = e["p"].split("/")
            out = []
            for k, c in enumerate(comps):
                pre = "/".join(comps[:k + 1])
                out.append(expect[pre][1] if pre in expect else c)
            want.add("/".join(out))
        with cli.Sandbox(tree) as sb:
            rc, o, e = sb.run(["--no-auto-init", "-y", "rename", search, replace] + roots)
            got = set(sb.snapshot().keys())
            stats.setdefault("cli_roots", {})[kind] = stats.setdefault("cli_roots", {}).get(kind, 0) + 1
            R.case(("cli_rename", kind, search, replace, json.dumps(cli.tree_json(tree), sort_keys=True)), nontrivial=bool(expect))
            if rc != 0:
                fails.append({"why": f"rename over roots {roots} failed: {e.decode('utf-8', 'replace')[-300:]}", "roots": roots,
                              "tree": cli.tree_json(tree), "search": search, "replace": replace})
            elif got != want:
                fails.append({"why": f"after `rename {search} {replace} {' '.join(roots)}` the entries are not at the composed final paths: "
                                     f"missing {sorted(want - got)[:4]}, unexpected {sorted(got - want)[:4]}", "roots": roots,
                              "tree": cli.tree_json(tree), "search": search, "replace": replace})


def cli_roots_with_ignore(R, g, fails, stats):
    """a directory that an ignore file hides from the walk of `.` but that the user ALSO names as a search root of its own (each root
    is walked with the ignore files and globs relative to itself): what is below the named root is in scope and is renamed; the same
    with an --include glob that only matches relative to the inner root; in both orders of the roots"""
    for i in range(4 if R.tier == "quick" else 40):
        a, b = g.term_pair()
        s, t = gen.render(a, "Snake"), gen.render(b, "Snake")
        tree = [{"p": ".gitignore", "k": "f", "c": b"generated/\n", "m": 0o644}, {"p": "src", "k": "d", "m": 0o755},
                {"p": f"src/{s}.rs", "k": "f", "c": b"plain\n", "m": 0o644}, {"p": "generated", "k": "d", "m": 0o755},
                {"p": f"generated/{s}.rs", "k": "f", "c": b"plain\n", "m": 0o644}, {"p": f"generated/{s}_dir", "k": "d", "m": 0o755},
                {"p": f"generated/{s}_dir/{s}_inner.txt", "k": "f", "c": b"plain\n", "m": 0o644}]
        roots = [[".", "generated"], ["generated", "."], ["src", "generated"], [".", "generated", "."]][i % 4]
        want = {".gitignore", "src", f"src/{t}.rs", "generated", f"generated/{t}.rs", f"generated/{t}_dir", f"generated/{t}_dir/{t}_inner.txt"}
        with cli.Sandbox(tree) as sb:
            rc, o, e = sb.run(["--no-auto-init", "-y", "rename", s, t] + roots)
            got = set(sb.snapshot().keys())
            stats.setdefault("cli_roots", {})["ignored_dir_named_as_root"] = stats.setdefault("cli_roots", {}).get("ignored_dir_named_as_root", 0) + 1
            R.case(("cli_rename_ignored_root", s, t, tuple(roots)), nontrivial=True)
            if rc != 0 or got != want:
                fails.append({"why": f"`rename {s} {t} {' '.join(roots)}` (generated/ is ignored by .gitignore but named as a root): exit {rc}, "
                                     f"missing {sorted(want - got)[:4]}, unexpected {sorted(got - want)[:4]}", "roots": roots,
                              "tree": cli.tree_json(tree), "search": s, "replace": t, "stderr": e.decode("utf-8", "replace")[-300:]})


def run(R):
    R.trusted += ["Coq 8.16.1 kernel", "harness (scan_tree, variant_map, apply_tree)", "extraction + modelrun.ml"]
    proved = R.prove()
    hp, hlog = core.build_harness()
    mp, mlog = core.build_model()
    if hp is None or mp is None:
        R.violation("harness or model driver does not build", {"log": (hlog + mlog)[-3000:]}, has_input=False)
        return
    H, M = core.Harness([str(hp)]), core.Model([str(mp)])
    g = gen.G(R.seed * 214013 + 8)
    r = g.r
    n = 300 if R.tier == "quick" else 2000
    fails, dis = [], []
    stats = {"trees": 0, "expected_renames": 0, "flags": {}, "roots": {}, "symlink_renames": 0}
    for i in range(n):
        a, b = g.term_pair()
        tree, expect = build_tree(g, a, b)
        tj = cli.tree_json(tree)
        # the two terms as the user types them: any boundary-visible style, independently
        typed = ["Snake", "Snake", "Kebab", "Camel", "Pascal", "ScreamingSnake", "Train", "ScreamingTrain", "Dot"]
        search, replace = gen.render(a, r.choice(typed)), gen.render(b, r.choice(typed))
        stats["typed"] = stats.get("typed", 0) + (search != gen.render(a, "Snake") or replace != gen.render(b, "Snake"))
        rf, rd = r.choice([(True, True), (True, True), (False, True), (True, False), (False, False)])
        dirs = [e["p"] for e in tree if e["k"] == "d"]
        roots_kind = r.choice(["default", "default", "nested", "repeated"]) if dirs else "default"
        roots = None
        if roots_kind == "nested":
            roots = ["", dirs[0]]
        elif roots_kind == "repeated":
            roots = ["", ""]
        req = {"op": "scan_tree", "tree": tj, "search": core.hx(search), "replace": core.hx(replace),
               "options": {"rename_files": rf, "rename_dirs": rd, "coerce": "auto", "styles": list(gen.DEFAULT_STYLES)}}
        if roots:
            req["roots"] = roots
        sr = H.ask(req)
        ctx = {"tree": tj, "search": search, "replace": replace, "rename_files": rf, "rename_dirs": rd, "roots": roots}
        stats["trees"] += 1
        stats["flags"][f"{rf},{rd}"] = stats["flags"].get(f"{rf},{rd}", 0) + 1
        stats["roots"][roots_kind] = stats["roots"].get(roots_kind, 0) + 1
        R.case((json.dumps(tj, sort_keys=True), rf, rd, roots_kind), nontrivial=bool(expect))
        if not sr.get("ok"):
            fails.append({"why": "planner failed: " + sr.get("msg", "")[:200], **ctx})
            continue
        paths = sr["plan"]["paths"]
        got = {p["path"]: (p["kind"], p["new_path"]) for p in paths}
        # structure
        if len(got) != len(paths):
            fails.append({"why": "an entry is scheduled for more than one rename", "paths": [p["path"] for p in paths], **ctx})
            continue
        news = [p["new_path"] for p in paths]
        if len(set(news)) != len(news):
            fails.append({"why": "two renames share a destination", "new_paths": news, **ctx})
            continue
        bad_shape = [p for p in paths if p["path"].rsplit("/", 1)[0:-1] != p["new_path"].rsplit("/", 1)[0:-1]]
        if bad_shape:
            fails.append({"why": "a rename changes more than the entry's own name component", "rename": bad_shape[0], **ctx})
            continue
        # completeness / exactness by construction
        want = {}
        for p, (kind, newname) in expect.items():
            if (kind == "dir" and not rd) or (kind == "file" and not rf):
                continue
            parent = p.rsplit("/", 1)[0] + "/" if "/" in p else ""
            want[p] = (kind, parent + newname)
        stats["expected_renames"] += len(want)
        for p, (kind, np) in want.items():
            is_link = next(e for e in tree if e["p"] == p)["k"] == "l"
            if p not in got:
                fails.append({"why": f"{p} contains the term in its own name but is not scheduled for a rename", **ctx})
                break
            if got[p][1] != np:
                fails.append({"why": f"{p} is renamed to {got[p][1]} instead of {np} (term rewritten in the same style)", **ctx})
                break
            stats["symlink_renames"] += is_link
        else:
            extra = [p for p in got if p not in expect]
            if extra:
                fails.append({"why": f"entries whose own name does not contain the term are scheduled: {extra[:3]}", **ctx})
                continue
            # model correspondence with the real variant table
            vm = H.ask({"op": "variant_map", "which": "scanner", "search": core.hx(search), "replace": core.hx(replace), "plurals": True, "styles": list(gen.DEFAULT_STYLES)})
            if "ok" in vm:
                table = [[bytes.fromhex(k), bytes.fromhex(v)] for k, v in vm["ok"]]
                listing = [[al.split_path(e["p"]), e["k"] == "d"] for e in tree]
                m = M.ask("plan_listing", table, rf, rd, listing)
                if isinstance(m, list):
                    mod = {}
                    for x in m:
                        pth = b"/".join(core.atom_bytes(c) for c in x[0]).decode()
                        npth = b"/".join(core.atom_bytes(c) for c in x[1]).decode()
                        mod[pth] = npth
                    # the real planner walks files / dirs / symlinks; the listing is the same set
                    if set(mod) != set(got) or any(mod[k] != got[k][1] for k in mod if not next(p for p in paths if p["path"] == k).get("coercion_applied")):
                        dis.append({"why": "model plan_listing differs from plan.paths", "model": repr(sorted(mod.items()))[:600],
                                    "impl": repr(sorted((k, v[1]) for k, v in got.items()))[:600], **ctx})
            # compose: apply for real and compare with the reference interpreter
            ar = H.ask({"op": "apply_tree", "tree": tj, "plan": sr["plan"]})
            ref = al.reference_apply(al.tree_dict(tree), sr["plan"])
            if "tree" in ar and not isinstance(ref, tuple):
                impl = al.harness_tree_dict(ar["tree"])
                if not ar.get("ok") or impl != ref:
                    fails.append({"why": "after apply the entries are not at the composed final paths", "apply_ok": ar.get("ok"),
                                  "msg": ar.get("msg", "")[:200], "diff": repr(al.diff_dict(impl, ref))[:800], **ctx})
        if i < 2:
            R.sample({"renames": sorted((k, v[1]) for k, v in got.items())[:6], "flags": [rf, rd], "roots": roots})
    H.close()
    M.close()
    cli_rename_roots(R, g, fails, stats)
    cli_roots_with_ignore(R, g, fails, stats)
    # Model/Coercion.v against coercion::apply_coercion / detect_style, and Model/PathName.v against the new_path the real
    # planner computes (names with the term in every style, prefixes, suffixes, extensions, two variants, coercion on / off)
    env = dict(core.ENV, RN_HARNESS=str(hp), RN_ROCQ=str(core.ROCQ), RN_WORK=str(core.BUILD / "pathname_work"))
    quick = R.tier == "quick"
    for script, args, key, pat in (("coercion_difftest.py", [str(R.seed + 8), "400" if quick else "9000"], "coercion_model",
                                    r"apply_coercion disagreements: (\d+); detect_style disagreements \(3 per triple\): (\d+)"),
                                   ("pathname_difftest.py", [str(R.seed + 3), "300" if quick else "4500"], "path_name_model", r"DISAGREEMENTS: (\d+)")):
        rc, outp, dt = core.sh(["python3", str(core.VERIF / "lib" / script)] + args, env=env, timeout=3000)
        m = __import__("re").search(pat, outp)
        n_dis = sum(int(x) for x in m.groups()) if m else None
        stats[key] = {"disagreements": n_dis, "summary": [ln for ln in outp.splitlines() if ln.startswith(("triples", "names", "real answers", "coerce"))][:3]}
        if n_dis is None:
            dis.append({"why": f"{script} did not complete", "log": outp[-1200:]})
        elif n_dis:
            dis.append({"why": f"{key}: the model differs from the implementation", "log": outp[-2000:]})
    R.disagreements = len(dis)
    R.coverage["input_distribution"] = stats
    R.disagreements = len(dis)
    for f in fails[:3]:
        R.violation(f["why"], {"kind": "impl_failure", **f})
    if fails:
        return
    if not proved:
        R.violation("proof obligation of Props/C08.v no longer checks (no failing tree found)",
                    {"kind": "proof_broken", **getattr(R, "broken", {})}, has_input=False)
    elif dis:
        R.violation("rename-planner model / implementation correspondence broke (no failing tree found)",
                    {"kind": "correspondence", "first": dis[:3], "count": len(dis)}, has_input=False)


def replay(R, obj):
    print(json.dumps({k: v for k, v in obj.items() if k != "tree"}, indent=1)[:2500])
    return 1
