"""C14 — Planning and previewing are read-only and deterministic."""
import json
import time

import core
import cli
import gen
import inject

LEVEL = "proof"
EXPLANATION = ("Theorems (Props/C14.v): whatever order the worker threads finish in (any permutation of the file indices), the "
               "per-file results are read back in file-list order; the merged counts do not depend on the order of the "
               "outcomes; the final order of the matches depends only on which matches there are. Tie: on generated trees, "
               "plan / search / rename --dry-run / replace --dry-run leave the snapshot of the whole directory byte-identical "
               "(the non-dry-run plan may only add .renamify/plan.json; with auto-init only the documented ignore line), the "
               "system calls recorded by strace contain no mutating call on the user tree other than the transient "
               "case-sensitivity probe directory, and the plan JSON minus id/created_at is identical across "
               "RAYON_NUM_THREADS in {1,2,3,4,8,16} and repeated runs.")
ASSUMPTIONS = ["rayon's collect preserves index order (its documented contract; the model states it as slots read in index order)",
               "the `ignore` walker's order for an unchanged tree is deterministic"]


def canon(plan):
    p = json.loads(json.dumps(plan))
    for k in ("id", "created_at"):
        p.pop(k, None)
    return json.dumps(p, sort_keys=True)


def tie_scenarios(g, n):
    r = g.r
    out = []
    for k in range(n):
        ws = r.sample(gen.VOCAB, 28)
        word = r.choice(["foo", "qux", "zap", "wob"])
        a, b = r.sample(["Snake", "Camel", "Pascal", "Kebab"], 2)
        ext = r.choice([".txt", ".md", "", ".cfg"])
        lines = [f"value {word} here"]
        for j in range(26):
            pair = [ws[j], ws[j + 1]]
            lines += [gen.render(pair, a), gen.render(pair, b)]
        r.shuffle(lines)
        same = [{"p": "tie" + ext, "k": "f", "c": ("\n".join(lines) + "\n").encode(), "m": 0o644}]
        pre = r.choice(["use", "let", "call", "from"])
        conv = [f"{pre} {gen.render([ws[j], ws[j + 1]], a)}" for j in range(3)] + [f"{pre} {gen.render([ws[j + 3], ws[j + 4]], b)}" for j in range(3)]
        r.shuffle(conv)
        cross = [{"p": "src", "k": "d", "m": 0o755}, {"p": "src/main" + (ext or ".txt"), "k": "f", "c": f"{pre} {word}\n".encode(), "m": 0o644},
                 {"p": "src/conventions" + (ext or ".txt"), "k": "f", "c": ("\n".join(conv) + "\n").encode(), "m": 0o644}]
        repl = gen.render(r.sample(gen.VOCAB, 2), "Snake")
        out.append((same if k % 2 == 0 else cross, word, repl))
        out.append((same + cross, word, repl))
    return out


def determinism(R, tree, search, replace, stats, fails, quick, i, reps=None, extra_args=()):
    with cli.Sandbox(tree) as sb:
        ref = None
        for nt in stats["thread_counts"]:
            for rep in range(reps or (2 if quick else 5)):
                rc, o, e = sb.run(["--no-auto-init", "plan", search, replace, "--dry-run", "--output", "json", "--quiet"] + list(extra_args),
                                  env={"RAYON_NUM_THREADS": str(nt)})
                stats["determinism_runs"] += 1
                if rc != 0:
                    fails.append({"why": "plan --dry-run failed", "threads": nt})
                    continue
                try:
                    doc = json.loads(o.decode("utf-8"))
                except Exception:
                    fails.append({"why": "plan output is not one JSON document", "threads": nt})
                    continue
                c = canon(doc.get("plan", doc))
                R.case(("det", i, nt, rep), nontrivial=True)
                if ref is None:
                    ref = c
                    if i < 2:
                        R.sample({"search": search, "matches": len(doc.get("plan", doc).get("matches", [])), "files": len(tree)})
                elif c != ref:
                    fails.append({"why": f"the plan differs between runs on an unchanged tree with unchanged arguments "
                                         f"(RAYON_NUM_THREADS={nt}, repeat {rep})",
                                  "tree": cli.tree_json(tree), "search": search, "replace": replace})
                    return


def run(R):
    R.trusted += ["Coq 8.16.1 kernel", "strace recording", "rayon / ignore crates"]
    proved = R.prove()
    g = gen.G(R.seed * 16807 + 14)
    quick = R.tier == "quick"
    fails = []
    stats = {"trees": 0, "readonly_runs": 0, "determinism_runs": 0, "thread_counts": [1, 2, 3, 4, 8, 16], "strace_runs": 0}
    n = 6 if quick else 60
    for i in range(n):
        a, b = g.term_pair()
        tree = g.tree(a, depth=4, nfiles=g.r.randint(6, 14), p_dir_match=0.5, p_file_match=0.5)
        search, replace = gen.render(a, "Snake"), gen.render(b, "Snake")
        stats["trees"] += 1
        with cli.Sandbox(tree) as sb:
            before = sb.snapshot(state=True)
            # every read-only command x every way of choosing the output (the dry-run gate must come before any write whatever is
            # printed, and whether or not the pattern also matches file and directory names)
            bases = [(["plan", search, replace, "--dry-run"], "plan --dry-run"), (["search", search], "search"),
                     (["rename", search, replace, "--dry-run"], "rename --dry-run"),
                     (["replace", "--no-regex", search, replace, "--dry-run"], "replace --no-regex --dry-run"),
                     (["replace", search.replace("_", "[_-]"), replace, "--dry-run"], "replace <regex> --dry-run"),
                     (["replace", "--no-regex", search, replace, "--dry-run", "--no-rename-paths"], "replace --dry-run --no-rename-paths")]
            outs = [(["--quiet"], "--quiet"), (["--output", "json"], "--output json"), (["--preview", "diff"], "--preview diff"),
                    (["--preview", "table"], "--preview table"), ([], "")]
            cmds = [(b_ + (["--preview", "matches"] if b_[0] == "search" and o_ == ["--preview", "diff"] else o_), (bl + " " + ol).strip())
                    for b_, bl in bases for o_, ol in outs]
            for args, label in cmds:
                rc, o, e = sb.run(["--no-auto-init", "-y"] + args)
                after = sb.snapshot(state=True)
                stats["readonly_runs"] += 1
                R.case(("ro", i, label), nontrivial=True)
                if rc != 0:
                    fails.append({"why": f"{label} failed", "stderr": e.decode("utf-8", "replace")[-300:], "tree": cli.tree_json(tree), "search": search})
                elif after != before:
                    fails.append({"why": f"{label} changed the working tree", "diff": repr(cli.diff_snap(before, after))[:800],
                                  "tree": cli.tree_json(tree), "search": search, "replace": replace})
            # system calls of a dry run: nothing mutating in the user tree except the transient probe directory
            if i < (2 if quick else 10):
                rc, o, e, trace = inject.strace_run(sb, ["--no-auto-init", "plan", search, replace, "--dry-run", "--quiet"])
                stats["strace_runs"] += 1
                main, evs = inject.parse_trace(trace, sb.root)
                bad = [ev.raw[:160] for ev in evs if ev.mutating and ev.cls in ("user", "state", "lock") and not ev.ret.startswith("-")]
                if bad:
                    fails.append({"why": "a dry run issued mutating system calls on the workspace", "calls": bad[:5],
                                  "tree": cli.tree_json(tree), "search": search})
            # the non-dry-run plan may only add the plan file
            rc, o, e = sb.run(["--no-auto-init", "plan", search, replace, "--quiet"])
            after = sb.snapshot(state=True)
            extra = {k for k in set(after) | set(before) if after.get(k) != before.get(k)}
            allowed = {".renamify", ".renamify/plan.json"}
            if rc != 0 or not extra <= allowed:
                fails.append({"why": "plan wrote something other than .renamify/plan.json", "changed": sorted(extra)[:6],
                              "tree": cli.tree_json(tree), "search": search})
        # the same commands in a workspace that already holds renamify state: history, a pending plan and a lock file
        # left behind by a killed run (orphaned: dead pid; stale: an hour old) - nothing of it may change either
        for lock_kind in (("orphaned", "stale") if not quick else (("orphaned",) if i % 2 else ("stale",))):
            with cli.Sandbox(tree) as sb:
                sb.run(["--no-auto-init", "-y", "rename", "zz_" + search, "zz_" + replace])
                sb.run(["--no-auto-init", "plan", search, replace, "--quiet"])
                (sb.root / ".renamify").mkdir(exist_ok=True)
                now = int(time.time())
                (sb.root / ".renamify" / "renamify.lock").write_text(f"999999:{now if lock_kind == 'orphaned' else now - 3600}")
                before = sb.snapshot(state=True)
                for args, label in [(["plan", search, replace, "--dry-run", "--quiet"], "plan --dry-run"), (["search", search, "--quiet"], "search"),
                                    (["rename", search, replace, "--dry-run", "--quiet"], "rename --dry-run"),
                                    (["rename", search, replace, "--dry-run", "--output", "json"], "rename --dry-run --output json"),
                                    (["replace", "--no-regex", search, replace, "--dry-run", "--quiet"], "replace --dry-run")]:
                    rc, o, e = sb.run(["--no-auto-init", "-y"] + args)
                    after = sb.snapshot(state=True)
                    stats["readonly_runs"] += 1
                    stats["with_prior_state"] = stats.get("with_prior_state", 0) + 1
                    R.case(("ro-state", i, lock_kind, label), nontrivial=True)
                    if after != before:
                        fails.append({"why": f"{label} changed a workspace holding renamify state and a {lock_kind} lock file",
                                      "diff": repr(cli.diff_snap(before, after))[:800], "tree": cli.tree_json(tree), "search": search,
                                      "replace": replace, "lock_kind": lock_kind})
                        break
        # auto-init: only the documented ignore-file line
        if i % 3 == 0:
            with cli.Sandbox(tree + [{"p": ".gitignore", "k": "f", "c": b"target/\n", "m": 0o644}]) as sb:
                before = sb.snapshot(state=True)
                rc, o, e = sb.run(["--auto-init", "repo", "-y", "plan", search, replace, "--dry-run", "--quiet"])
                after = sb.snapshot(state=True)
                changed = {k for k in set(after) | set(before) if after.get(k) != before.get(k)}
                R.case(("autoinit", i), nontrivial=True)
                if changed - {".gitignore"}:
                    fails.append({"why": "auto-init dry run changed more than the ignore file", "changed": sorted(changed)[:6]})
                elif ".gitignore" in changed:
                    txt = sb.read(".gitignore").decode()
                    if not txt.startswith("target/\n") or ".renamify" not in txt:
                        fails.append({"why": "auto-init rewrote .gitignore instead of appending the documented line", "content": txt[:200]})
        # determinism across pool sizes and repeats
        determinism(R, tree, search, replace, stats, fails, quick, i)
    # ambiguous single-word terms whose style has to be guessed from context that is exactly tied between two styles: in the
    # same file (>= 50 unambiguous identifiers, half snake, half camel; an extension without a language heuristic) and in
    # sibling files of the same extension (the same preceding word followed by identifiers, three per style)
    # terms that also occur in the names of renamify's own scratch entries (the case-sensitivity probes: .tmpXXXXXX/test_case_a,
    # .renamify_case_test): a probe that is alive while the tree is walked shows up as a planned rename with a random name
    probe_terms = [("test_case", "spec_case", "src/test_case.rs"), ("case_test", "case_probe", "case_test_notes.md"),
                   ("tmp", "scratch", "tmp_files.txt"), ("testCase", "specCase", "lib/testCase.js")]
    for k, (s_, r_, f_) in enumerate(probe_terms[: 2 if quick else 4]):
        ptree = [{"p": f_.split("/")[0], "k": "d", "m": 0o755}] if "/" in f_ else []
        ptree += [{"p": f_, "k": "f", "c": (s_ + " here\n").encode(), "m": 0o644}]
        determinism(R, ptree, s_, r_, stats, fails, quick, 2000 + k, reps=2 if quick else 4)
        stats["probe_name_scenarios"] = stats.get("probe_name_scenarios", 0) + 1
    # several search roots (distinct, nested with a glob, repeated): their order on the command line is the order of the report
    for k in range(2 if quick else 10):
        a_, b_ = g.term_pair()
        s_, r_ = gen.render(a_, "Snake"), gen.render(b_, "Snake")
        rtree = [{"p": d_, "k": "d", "m": 0o755} for d_ in ("alpha", "beta", "src", "src/deep")] + \
                [{"p": f"{d_}/{s_}_{j}.rs", "k": "f", "c": (s_ + " here\n").encode(), "m": 0o644} for d_ in ("alpha", "beta", "src", "src/deep") for j in range(2)]
        # several term-named DIRECTORIES at the same depth in every root (directory renames are ordered by depth only: ties)
        rtree += [{"p": f"{d_}/{s_}_pkg{j}", "k": "d", "m": 0o755} for d_ in ("alpha", "beta", "src") for j in range(4)] + \
                 [{"p": f"{d_}/{s_}_pkg{j}/mod.rs", "k": "f", "c": b"// plain\n", "m": 0o644} for d_ in ("alpha", "beta", "src") for j in range(4)]
        for roots in (["alpha", "beta"], ["beta", "alpha", "src"], [".", "src", "--include", "src/**"], ["src", "src/deep", "alpha"]):
            determinism(R, rtree, s_, r_, stats, fails, quick, 3000 + k, reps=2 if quick else 4, extra_args=roots)
            stats["multi_root_scenarios"] = stats.get("multi_root_scenarios", 0) + 1
    # many files that each hold an exact match and, some lines away, identifiers only the compound pass recognises (mixed styles):
    # per-worker scratch state that survives from one file to the next shows up as a different plan at another thread count
    for k in range(1 if quick else 6):
        a_, b_ = g.term_pair()
        s_, r_ = gen.render(a_, "Snake"), gen.render(b_, "Snake")
        mixed = "get_" + a_[0].capitalize() + "_" + "_".join(a_[1:])
        mixed2 = gen.render(a_, "Pascal") + "_" + a_[0] + "Helper"
        mtree = [{"p": f"m{j:02d}.rs", "k": "f", "m": 0o644,
                  "c": (f"use {s_};\n" + "// filler\n" * (2 + j % 5) + f"let a = {mixed}();\n" + "// more\n" * (1 + j % 3) + f"let b = {mixed2};\n{gen.render(a_, 'Camel')}\n").encode()}
                 for j in range(12 if quick else 40)]
        determinism(R, mtree, s_, r_, stats, fails, quick, 4000 + k, reps=1 if quick else 3)
        stats["many_files_compound_scenarios"] = stats.get("many_files_compound_scenarios", 0) + 1
    for k, (tree, search, replace) in enumerate(tie_scenarios(g, 2 if quick else 12)):
        determinism(R, tree, search, replace, stats, fails, quick, 1000 + k, reps=4 if quick else 8)
        stats["tie_scenarios"] = stats.get("tie_scenarios", 0) + 1
    R.coverage["input_distribution"] = stats
    for f in fails[:3]:
        R.violation(f["why"], {"kind": "impl_failure", **f})
    if fails:
        return
    if not proved:
        R.violation("proof obligation of Props/C14.v no longer checks (no write and no nondeterminism observed)",
                    {"kind": "proof_broken", **getattr(R, "broken", {})}, has_input=False)


def replay(R, obj):
    print(json.dumps({k: v for k, v in obj.items() if k != "tree"}, indent=1)[:2500])
    return 1
