"""C13 — Interrupts never leave a half-applied rename."""
import json
import os
import pty
import signal
import time

import core
import cli
import gen
import inject
import applylib as al

LEVEL = "proof"
EXPLANATION = ("Theorems (Props/C13.v) over a model of main.rs' signal handling: for every command without a prompt, every "
               "operation list, every tree and every pattern of SIGINT/SIGTERM deliveries (any positions, any multiplicity) "
               "the operations performed, the resulting tree and the lock state equal those of the undisturbed run, and the "
               "handler never exits the process; SIGINT at the confirmation prompt exits 130 with the tree untouched and the "
               "lock released. Tie: strace delivers SIGINT / SIGTERM (single and double) on entry to every mutating system "
               "call of rename, apply, undo, redo and replace; the final tree, history, lock file and exit status must be "
               "those of the model (complete operation, exit 130); the prompt case is driven through a pty.")
ASSUMPTIONS = ["handlers run to completion; std retries EINTR", "child git processes are out of scope",
               "strace delivers the signal on entry to the chosen call of the main thread"]


def snap(sb):
    """the user's tree without git's own bookkeeping (hashes and timestamps differ from run to run)"""
    return {k: v for k, v in sb.snapshot().items() if not (k == ".git" or k.startswith(".git/"))}


def git_init(sb):
    import subprocess as sp
    genv = dict(core.ENV, HOME=str(sb.dir), GIT_CONFIG_GLOBAL="/dev/null", GIT_CONFIG_NOSYSTEM="1")
    ok = True
    for cmd in (["git", "init", "-q"], ["git", "config", "user.email", "t@example.com"], ["git", "config", "user.name", "t"],
                ["git", "config", "commit.gpgsign", "false"], ["git", "add", "-A"], ["git", "commit", "-q", "-m", "initial"]):
        ok = ok and sp.run(cmd, cwd=str(sb.root), env=genv, stdout=sp.DEVNULL, stderr=sp.DEVNULL).returncode == 0
    return ok


def prepare(tree, search, replace, what):
    sb = cli.Sandbox(tree)
    base = ["--no-auto-init", "-y"]
    if what in ("rename_commit", "apply_commit"):
        # inside a git repository with --commit: the commit step comes after the renames and before the history entry is written
        if not git_init(sb):
            sb.cleanup()
            return None
        if what == "rename_commit":
            return sb, base + ["rename", search, replace, "--commit"]
        rc, o, e = sb.run(["--no-auto-init", "plan", search, replace, "--quiet"])
        return (sb, base + ["apply", "--commit"]) if rc == 0 else (sb.cleanup() or None)
    if what == "rename":
        return sb, base + ["rename", search, replace]
    if what == "replace":
        return sb, base + ["replace", "--no-regex", search, replace]
    if what == "apply":
        rc, o, e = sb.run(["--no-auto-init", "plan", search, replace, "--quiet"])
        return (sb, base + ["apply"]) if rc == 0 else (sb.cleanup() or None)
    rc, o, e = sb.run(base + ["rename", search, replace])
    if rc != 0:
        sb.cleanup()
        return None
    if what == "undo":
        return sb, base + ["undo", "latest"]
    rc2, o2, e2 = sb.run(base + ["undo", "latest"])
    if rc2 != 0:
        sb.cleanup()
        return None
    return sb, base + ["redo", "latest"]


def scenario(g, i):
    a, b = g.term_pair()
    s = gen.render(a, "Snake")
    tree = [{"p": "a_" + s + ".txt", "k": "f", "c": (s + " one\nline two " + s + "\n").encode(), "m": 0o644},
            {"p": "plain.txt", "k": "f", "c": ("x " + s + " y\n").encode(), "m": 0o600},
            {"p": s + "_dir", "k": "d", "m": 0o755},
            {"p": s + "_dir/" + s + "_in.rs", "k": "f", "c": ("fn " + s + "() {}\n").encode(), "m": 0o755}]
    return tree, s, gen.render(b, "Snake")


def prompt_case(R, fails, stats):
    """SIGINT while 'Apply? [y/N]' is waiting (pty): exit 130, tree unchanged, no lock left"""
    tree = [{"p": "a.txt", "k": "f", "c": b"old_name x\n", "m": 0o644}]
    for signo, name in ((signal.SIGINT, "SIGINT"),):
        with cli.Sandbox(tree) as sb:
            before = sb.snapshot()
            env = dict(core.ENV)
            env.pop("RENAMIFY_YES", None)
            env.pop("NO_COLOR", None)
            env["HOME"] = str(sb.dir / "home")
            pid, fd = pty.fork()
            if pid == 0:
                os.chdir(str(sb.root))
                os.execve(cli.cli_bin(), [cli.cli_bin(), "--no-auto-init", "rename", "old_name", "new_name"], env)
            buf = b""
            t0 = time.time()
            while time.time() - t0 < 10:
                try:
                    d = os.read(fd, 4096)
                except OSError:
                    break
                buf += d
                if b"y/N" in buf:
                    break
            time.sleep(0.15)
            try:
                os.kill(pid, signo)
            except ProcessLookupError:
                pass
            _, st = os.waitpid(pid, 0)
            os.close(fd)
            code = os.WEXITSTATUS(st) if os.WIFEXITED(st) else -os.WTERMSIG(st)
            after = sb.snapshot()
            lock = (sb.root / ".renamify" / "renamify.lock").exists()
            stats["prompt_runs"] += 1
            R.case(("prompt", name), nontrivial=True)
            if b"y/N" not in buf:
                fails.append({"why": "the confirmation prompt was not reached under a pty (prompt case is vacuous)", "out": buf[-300:].decode("utf-8", "replace")})
            elif code != 130 or after != before or lock:
                fails.append({"why": f"{name} at the confirmation prompt: exit {code}, tree changed={after != before}, lock file left={lock}",
                              "signal": name})


def run(R):
    R.trusted += ["Coq 8.16.1 kernel", "strace -e inject=<sys>:signal=SIG:when=n", "python pty for the prompt case"]
    proved = R.prove()
    g = gen.G(R.seed * 69621 + 13)
    quick = R.tier == "quick"
    fails, dis = [], []
    stats = {"runs": 0, "by_command": {}, "prompt_runs": 0, "signals": {}}
    nscen = 1 if quick else 8
    for i in range(nscen):
        tree, search, replace = scenario(g, i)
        for what in ("rename", "apply", "undo", "redo", "replace", "rename_commit", "apply_commit"):
            pr = prepare(tree, search, replace, what)
            if pr is None:
                continue
            sb, args = pr
            before = snap(sb)
            hist0 = len(sb.history() or [])
            # with --commit renamify runs git: the signal is meant for renamify itself (strace counts `when=` per traced process, a
            # followed git child would get one of its own and die), so only the main process is traced there
            follow = not what.endswith("_commit")
            rc, o, e, trace = inject.strace_run(sb, args, follow=follow)
            done = snap(sb)
            hist1 = len(sb.history() or [])
            evs = inject.mutating_events(trace, sb.root, classes=("user", "state"))
            # the program's own messages: a signal that lands while the main thread is writing to the terminal meets whatever
            # the handler does with the same stream (a handler that prints re-enters stderr's lock)
            main_pid, all_evs = inject.parse_trace(trace, sb.root)
            stdio = [x for x in all_evs if x.pid == main_pid and x.cls == "stdio" and x.sys == "write" and not x.ret.startswith("-")]
            sb.cleanup()
            if rc != 0 or done == before:
                fails.append({"why": f"undisturbed {what} failed or did nothing", "rc": rc, "search": search, "replace": replace})
                continue
            sel = list(range(len(evs)))
            if quick and len(sel) > 14:
                sel = sorted(g.r.sample(sel, 14))
            pick = stdio[:3] + stdio[-2:] if quick else stdio
            evs = evs + [x for k, x in enumerate(pick) if x not in pick[:k]]
            sel += list(range(len(evs) - len([x for k, x in enumerate(pick) if x not in pick[:k]]), len(evs)))
            stats["terminal_write_points"] = stats.get("terminal_write_points", 0) + len(pick)
            for j in sel:
                ev = evs[j]
                variants = (("SIGINT", 1), ("SIGTERM", 1), ("SIGINT", 2), ("SIGTERM", 2), ("SIGINT+SIGTERM", 2))
                if quick and j % 2:
                    variants = (("SIGINT", 1), ("SIGTERM", 1))
                for signame, count in variants:
                    pr2 = prepare(tree, search, replace, what)
                    if pr2 is None:
                        continue
                    sb2, args2 = pr2
                    if signame == "SIGINT+SIGTERM":
                        inj = [f"{ev.sys}:signal=SIGINT:when={ev.ordinal}", f"{ev.sys}:signal=SIGTERM:when={ev.ordinal + 1}"]
                    else:
                        inj = f"{ev.sys}:signal={signame}:when={ev.ordinal}" + (f"..{ev.ordinal + 1}" if count == 2 else "")
                    rc2, o2, e2, tr2 = inject.strace_run(sb2, args2, inject=inj, follow=follow)
                    after = snap(sb2)
                    hist2 = len(sb2.history() or [])
                    lock = (sb2.root / ".renamify" / "renamify.lock").exists()
                    sb2.cleanup()
                    stats["runs"] += 1
                    stats["by_command"][what] = stats["by_command"].get(what, 0) + 1
                    stats["signals"][signame] = stats["signals"].get(signame, 0) + 1
                    R.case(("sig", what, i, j, signame, count), nontrivial=True)
                    delivered = any(f"--- {x}" in tr2 for x in signame.split("+"))
                    if not delivered:
                        continue
                    if len(R.coverage["samples"]) < 3:
                        R.sample({"command": what, "signal": signame, "times": count, "at": ev.raw[:120], "exit": rc2})
                    complete = after == done and hist2 == hist1
                    nothing = after == before and hist2 == hist0
                    # model: complete operation, exit 130, lock released
                    if not (complete and rc2 == 130 and not lock):
                        if not (complete or nothing) or lock or rc2 not in (130, 0):
                            fails.append({"why": f"{signame} during {what}: " + ("partially applied tree" if not (complete or nothing) else
                                          f"lock left={lock}, exit={rc2}"), "command": what, "inject": inj, "at": ev.raw[:200],
                                          "diff_vs_complete": repr(cli.diff_snap(after, done))[:800], "tree": cli.tree_json(tree),
                                          "search": search, "replace": replace})
                        elif complete and rc2 == 0:
                            # The handler runs on the ctrlc crate's own thread: a signal that lands on one of the last calls may not
                            # have set the flag when the main thread takes its final look, and the command ends as if it had already
                            # finished - the property's "(or 0 if it had already finished)". Scheduling decides (seen under load
                            # only); counted, and reported only if it becomes the rule (see below).
                            stats["complete_exit0_after_delivery"] = stats.get("complete_exit0_after_delivery", 0) + 1
                        else:
                            dis.append({"why": "outcome allowed by the property but not the one the model predicts (complete, exit 130)",
                                        "command": what, "inject": inj, "exit": rc2, "complete": complete, "nothing": nothing})
                    stats["delivered"] = stats.get("delivered", 0) + 1
    if stats.get("delivered", 0) >= 10 and stats.get("complete_exit0_after_delivery", 0) * 4 > stats["delivered"]:
        dis.append({"why": "more than a quarter of the delivered signals ended in 'complete, exit 0': the model's exit status 130 for an "
                           "interrupted but completed command no longer describes the program",
                    "delivered": stats["delivered"], "exit0": stats["complete_exit0_after_delivery"]})
    prompt_case(R, fails, stats)
    R.coverage["input_distribution"] = stats
    R.disagreements = len(dis)
    if stats["runs"] == 0:
        fails.append({"why": "no signal run was produced: the check is vacuous"})
    for f in fails[:3]:
        R.violation(f["why"], {"kind": "impl_failure", **f})
    if fails:
        return
    if not proved:
        R.violation("proof obligation of Props/C13.v no longer checks (no failing delivery found)",
                    {"kind": "proof_broken", **getattr(R, "broken", {})}, has_input=False)
    elif dis:
        R.violation("signal model / real run correspondence broke (no failing delivery found)",
                    {"kind": "correspondence", "first": dis[:3], "count": len(dis)}, has_input=False)


def replay(R, obj):
    print(json.dumps({k: v for k, v in obj.items() if k != "tree"}, indent=1)[:2500])
    if "inject" in obj and "tree" in obj:
        tree = cli.tree_from_json(obj["tree"])
        pr = prepare(tree, obj["search"], obj["replace"], obj["command"])
        sb, args = pr
        before = sb.snapshot()
        rc, o, e, tr = inject.strace_run(sb, args, inject=obj["inject"])
        print("exit", rc, "lock left", (sb.root / ".renamify/renamify.lock").exists())
        sb.cleanup()
        return 0 if rc in (0, 130) else 1
    return 1
