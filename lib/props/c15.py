"""C15 — What the preview shows is what apply does."""
import json
import re

import core
import cli
import gen
import applylib as al
from props import c03

LEVEL = "proof"
EXPLANATION = ("Theorems (Props/C15.v): the planner's hunks carry the file's current line as 'before' and that line with the "
               "match replaced as 'after' (for every content and span), and the 'after' line the diff preview computes from "
               "the hunks of one line (right-to-left splicing under the starts_with guard) equals the line as it reads once "
               "ALL hunks of the line are applied (any number of matches per line, any replacement lengths, multi-byte text, "
               "CRLF). Tie: the model's diff_after is compared with the real render_plan(Diff) output line by line; the direct "
               "oracle applies the plan for real and compares every '+' line of the diff and every line_after of the plan "
               "JSON with the applied file.")
ASSUMPTIONS = ["similar::TextDiff on two one-line texts yields delete-old/insert-new when they differ",
               "colour rendering (highlight_line_with_hunks) is exercised only by the crash stream of C16"]

SEC = re.compile(r"^@@ line (\d+) @@$")


def parse_diff(text):
    """{file: {line: (minus_lines, plus_lines)}}"""
    out, cur, line = {}, None, None
    for ln in text.split("\n"):
        if ln.startswith("--- ") and cur is None or (ln.startswith("--- ") and line is None):
            pass
        if ln.startswith("+++ ") and line is None:
            cur = ln[4:]
            out.setdefault(cur, {})
            continue
        m = SEC.match(ln)
        if m and cur is not None:
            line = int(m.group(1))
            out[cur][line] = ([], [])
            continue
        if ln == "":
            line = None
            continue
        if cur is not None and line is not None:
            if ln.startswith("-"):
                out[cur][line][0].append(ln[1:])
            elif ln.startswith("+"):
                out[cur][line][1].append(ln[1:])
            elif ln.startswith(" ") and ln.endswith("\r"):
                # the line-diff library also breaks a line at a lone carriage return: the unchanged part is shown as
                # context and belongs to the same file line (both before and after)
                out[cur][line][0].append(ln[1:])
                out[cur][line][1].append(ln[1:])
        if ln.startswith("=== RENAMES") or ln.startswith("Renames") or ln.startswith("=== "):
            cur, line = None, None
    return out


def scenario(g, i):
    a, b = g.term_pair()
    s, c, p = gen.render(a, "Snake"), gen.render(a, "Camel"), gen.render(a, "Pascal")
    long_rep = i % 2 == 0
    tree = [
        {"p": "multi.txt", "k": "f", "m": 0o644,
         "c": (f"é☃ {s} + {s}, {c} and {p}; {s}\r\n" + f"{s}{'' if i % 3 else ' '}x {s}\n" + f"\t{p}({s}, {c})\n" + f"plain line\nlast {s} {s}").encode()},
        {"p": "crlf.txt", "k": "f", "m": 0o644, "c": (f"{s} a {s}\r\nb\r\n{c}\r\n").encode()},
    ]
    # a byte-order mark, no-break and zero-width spaces at the start of a line with several matches: anything that "tidies"
    # the displayed line shifts it against the recorded columns
    # a lone carriage return inside a line (classic-Mac remnant, literal ^M): line and column still count in "\n" lines
    tree.append({"p": "cr.txt", "k": "f", "m": 0o644, "c": (f"first\nlet x = 1;\r let {s} = {s} + 1;\nnext {c}\r{s} {s}\n").encode()})
    tree.append({"p": "bom.txt", "k": "f", "m": 0o644, "c": (f"\ufeff{s} = Acme.{s}.Core + {c};\n\u00a0{s} {s}\n\u200b{p} {s} \n  {s}  {s}  \n").encode()})
    if i % 4 == 0:
        tree.append({"p": "long.txt", "k": "f", "m": 0o644, "c": (("é" * 400) + f" {s} " + ("y" * 900) + f" {s} {c}\n").encode()})
    repl = gen.render(b + (a[:1] if long_rep else []), "Snake") if i % 5 else gen.render(b[:1], "Snake")
    return tree, s, repl


def run(R):
    R.trusted += ["Coq 8.16.1 kernel", "harness (scan_tree, render_diff, apply_tree)", "extraction + modelrun.ml"]
    proved = R.prove()
    hp, hlog = core.build_harness()
    mp, mlog = core.build_model()
    if hp is None or mp is None:
        R.violation("harness or model driver does not build", {"log": (hlog + mlog)[-3000:]}, has_input=False)
        return
    H, M = core.Harness([str(hp)]), core.Model([str(mp)])
    g = gen.G(R.seed * 22695477 % (2**31) + 15)
    n = 40 if R.tier == "quick" else 800
    fails, dis = [], []
    stats = {"plans": 0, "diff_lines": 0, "multi_hunk_lines": 0, "line_after_checked": 0}
    for i in range(n):
        tree, search, replace = scenario(g, i)
        tj = cli.tree_json(tree)
        td = al.tree_dict(tree)
        simple = (i % 4 == 3)
        if simple:
            # the planner of `replace`, with a line filter: dropped lines are still lines of the file, the preview has to number
            # the others as the file does
            # every other time in regex mode, with a pattern that is not literally the matched text (old[_-]name matches old_name and
            # old-name): the hunk's `variant` is then the pattern and its `content` the matched text
            use_regex = (i // 4) % 2 == 1
            pat = search.replace("_", "[_-]") if use_regex else search
            sr = H.ask({"op": "simple_plan_tree", "tree": tj, "pattern": core.hx(pat), "replacement": core.hx(replace), "regex": use_regex,
                        "exclude_matching_lines": ["^plain", "é", "^\\t", "^first"][(i // 4) % 4]})
            stats["replace_planner_regex"] = stats.get("replace_planner_regex", 0) + use_regex
            if sr.get("ok"):
                sr["plan"]["paths"] = []
            stats["replace_planner_filtered"] = stats.get("replace_planner_filtered", 0) + 1
        else:
            sr = H.ask({"op": "scan_tree", "tree": tj, "search": core.hx(search), "replace": core.hx(replace),
                        "options": {"rename_files": False, "rename_dirs": False}})
        if not sr.get("ok"):
            continue
        plan = sr["plan"]
        stats["plans"] += 1
        ctx = {"tree": tj, "search": search, "replace": replace}
        applied = al.reference_apply(td, {"matches": plan["matches"], "paths": []})
        real = H.ask({"op": "apply_tree", "tree": tj, "plan": {**plan, "paths": []}})
        if isinstance(applied, tuple) or not real.get("ok"):
            fails.append({"why": "the plan could not be applied", **ctx})
            continue
        applied_real = al.harness_tree_dict(real["tree"])
        R.case((json.dumps(tj, sort_keys=True), search, replace), nontrivial=len(plan["matches"]) > 1)
        # (a) plan JSON: before = current line, after = line with THAT match replaced
        for h in plan["matches"]:
            c = td[h["file"]][2]
            pr = c03.py_hunk_problems(c, h, not simple)
            stats["line_after_checked"] += 1
            if pr:
                fails.append({"why": "plan JSON context disagrees with the file: " + "; ".join(pr[:2]), "hunk": h, **ctx})
                break
        # (b) diff preview vs the applied file and vs the model
        rd = H.ask({"op": "render_diff", "plan": plan})
        if "ok" not in rd:
            dis.append({"why": "render_diff failed", "resp": rd, **ctx})
            continue
        secs = parse_diff(rd["ok"])
        by = {}
        for h in plan["matches"]:
            by.setdefault((h["file"], h["line"]), []).append(h)
        for (f, line), hs in by.items():
            sec = secs.get(f, {}).get(line)
            new_lines = applied_real[f][2].split(b"\n")
            want = new_lines[line - 1] if line - 1 < len(new_lines) else None
            if simple and want is not None and want.endswith(b"\r"):
                want = want[:-1]        # the planner of `replace` records lines without their terminator (str::lines)
            stats["diff_lines"] += 1
            stats["multi_hunk_lines"] += len(hs) > 1
            if sec is None:
                fails.append({"why": f"diff preview has no section for {f} line {line}", **ctx})
                continue
            plus = "".join(seg if seg.endswith("\r") else seg + "\n" for seg in sec[1])
            plus = (plus[:-1] if plus.endswith("\n") else plus).encode("utf-8")
            if want is None or plus != want:
                fails.append({"why": f"diff preview of {f} line {line}: added line is not how the line reads after apply",
                              "preview": plus.decode("utf-8", "replace")[:300], "applied": (want or b"").decode("utf-8", "replace")[:300], **ctx})
                continue
            m = M.ask("diff_after", [c03.fh_sx(h) for h in hs])
            mod = core.atom_bytes(m) if isinstance(m, str) and m.startswith("x") else None
            if mod is None or mod.rstrip(b"\n") != plus:
                dis.append({"why": "model diff_after differs from the rendered diff", "file": f, "line": line,
                            "model": repr(mod)[:300], "impl": repr(plus)[:300], **ctx})
        if i < 2:
            R.sample({"search": search, "replace": replace, "lines_with_hunks": len(by), "max_hunks_on_a_line": max((len(v) for v in by.values()), default=0)})
    H.close()
    M.close()
    R.coverage["input_distribution"] = stats
    R.disagreements = len(dis)
    if stats["diff_lines"] == 0:
        fails.append({"why": "no diff line was checked: vacuous"})
    for f in fails[:3]:
        R.violation(f["why"], {"kind": "impl_failure", **f})
    if fails:
        return
    if not proved:
        R.violation("proof obligation of Props/C15.v no longer checks (no misleading preview found)",
                    {"kind": "proof_broken", **getattr(R, "broken", {})}, has_input=False)
    elif dis:
        R.violation("preview model / implementation correspondence broke (no misleading preview found)",
                    {"kind": "correspondence", "first": dis[:3], "count": len(dis)}, has_input=False)


def replay(R, obj):
    print(json.dumps({k: v for k, v in obj.items() if k != "tree"}, indent=1)[:2500])
    return 1
