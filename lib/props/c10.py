"""C10 — History is a consistent append-only record under any operation sequence."""
import itertools
import json
import time

import core
import cli
import gen

LEVEL = "proof"
EXPLANATION = ("Theorems (Props/C10.v) over a state-machine model of history.rs / id_resolver.rs / the eligibility checks of "
               "undo and redo / the id check of apply, for command sequences of ANY length at ANY seconds (same second "
               "included): ids stay unique, the history is append-only, success adds exactly one entry with a fresh id, "
               "every other outcome changes nothing, the tree is always what the live entries imply, undo succeeds only "
               "on a live operation and redo only on an undone one; machine-checked witnesses show how the behaviour "
               "before the two repairs (double redo, colliding id detected after the mutation) broke the invariant. "
               "The model is run against the real CLI on exhaustive short and random longer command sequences "
               "(rename of three operations incl. a self-feeding one, undo/redo by id and by 'latest', bogus ids), "
               "with an independent Python reading of history.json and of the files as direct oracle.")
ASSUMPTIONS = ["the 64-bit truncated SHA-256 plan id is treated as injective", "the clock is an input",
               "operations on disjoint files commute (the tie uses such operations)"]

OPS = {
    1: ("foo_one", "bar_one", False, "f1.txt", "x foo_one y\n"),
    2: ("baz_two", "qux_two", False, "f2.txt", "baz_two\nBazTwo\n"),
    3: ("alpha_three", "alpha_three_more", True, "f3.txt", "alpha_three z\n"),
}


def base_tree():
    return [{"p": v[3], "k": "f", "c": v[4].encode(), "m": 0o644} for v in OPS.values()]


def tree_counts(sb):
    """how many times each operation's effect is in the files"""
    out = []
    f1 = sb.read("f1.txt").decode()
    f2 = sb.read("f2.txt").decode()
    f3 = sb.read("f3.txt").decode()
    if "bar_one" in f1:
        out.append(1)
    if "qux_two" in f2:
        out.append(2)
    out += [3] * f3.count("_more")
    return sorted(out)


class Seq:
    """runs a command sequence on the real CLI and on the model side by side"""

    def __init__(self, M):
        self.M = M
        self.cmds = []            # model commands with seconds
        self.real2abs = {}        # real history id -> abstract ident (python tuple sexp)
        self.abs2real = {}
        self.problems = []
        self.oracle_fail = []
        self.known = set()

    def key(self, ident):
        return json.dumps(ident)

    def run(self, sb, script, R=None):
        """script: list of ("rename", op) | ("undo"|"redo", "latest" | ("idx", k) | "bogus")
        where ("idx", k) addresses the k-th entry of the current real history"""
        hist_prev = []
        for stepno, c in enumerate(script):
            if c[0] == "sleep":
                # make sure the next command runs in a later second than the previous one
                time.sleep(1.0 - (time.time() % 1.0) + 0.02)
                continue
            before_tree = sb.snapshot()
            hist_before = sb.history() or []
            if c[0] == "rename":
                s, r, feeds, _, _ = OPS[c[1]]
                # some renames run at an unrestricted level: ignore files and binary detection are switched off there, renamify's
                # own state directory stays out of scope at every level (its history holds the very strings being renamed)
                args = [["-y"], ["-y", "-uu"], ["-y", "-u"], ["-y", "-uuu"]][c[1] % 4] + ["rename", s, r]
                mc = ["rename", [c[1], feeds]]
            else:
                ref = c[1]
                if ref == "latest":
                    rid, mref = "latest", "latest"
                elif ref == "bogus":
                    rid, mref = "deadbeefdeadbeef", ["id", ["plan", [99, False], 1]]
                else:
                    k = ref[1]
                    if k >= len(hist_before):
                        rid, mref = "deadbeefdeadbeef", ["id", ["plan", [99, False], 1]]
                    else:
                        rid = hist_before[k]["id"]
                        mref = ["id", self.real2abs[rid]]
                args = ["-y", c[0], rid]
                mc = [c[0], mref]
            t0 = int(time.time())
            rc, o, e = sb.run(["--no-auto-init"] + args)
            t1 = int(time.time())
            hist_after = sb.history() or []
            after_tree = sb.snapshot()
            # ---- direct oracle (independent of the Gallina model)
            if hist_after == "UNPARSABLE" or hist_after[:len(hist_before)] != hist_before:
                self.oracle_fail.append({"why": "earlier history entries were lost or altered", "step": stepno, "cmd": c})
                return
            new = hist_after[len(hist_before):]
            ids_before = {x["id"] for x in hist_before}
            if rc == 0 and after_tree != before_tree:
                if len(new) != 1 or new[0]["id"] in ids_before:
                    self.oracle_fail.append({"why": "a successful mutating command did not add exactly one entry with a fresh id",
                                             "step": stepno, "cmd": c, "new": [x["id"] for x in new]})
                    return
            if rc != 0 and not new and c[0] == "undo" and after_tree != before_tree and \
                    all(k.endswith(".rej") and k not in before_tree for k, _, _ in cli.diff_snap(before_tree, after_tree)):
                self.known.add("failed_undo_leaves_rej")
                return    # the model abstracts overlapping operations on one file away: stop this sequence here
            if rc != 0 and (after_tree != before_tree or new):
                self.oracle_fail.append({"why": "a rejected/failed command changed the tree or the history", "step": stepno,
                                         "cmd": c, "rc": rc, "stderr": e.decode("utf-8", "replace")[-300:],
                                         "diff": repr(cli.diff_snap(before_tree, after_tree))[:600]})
                return
            live = py_live(hist_after)
            implied = sorted(py_param(hist_after, i) for i in live)
            counts = tree_counts(sb)
            roots = [py_root(i) for i in live]
            if len(set(roots)) != len(roots):
                self.oracle_fail.append({"why": "an operation was redone while it was applied: its effect is in the tree twice",
                                         "step": stepno, "cmd": c, "tree_ops": counts, "live_entries": live})
                return
            if counts != implied:
                self.oracle_fail.append({"why": "the tree is not in the state the history implies", "step": stepno, "cmd": c,
                                         "tree_ops": counts, "implied_by_history": implied})
                return
            # ---- model
            ok = False
            cands = []
            # the plan id hashes the second in which the PLAN was made (scanner.rs generate_plan_id); the history entry's created_at is
            # taken later and, on a loaded machine, may already be the next second: the stored plan copy carries the plan's own second
            if new and c[0] == "rename":
                try:
                    pj = json.loads(sb.read(".renamify/plans/" + new[0]["id"] + ".json").decode("utf-8"))
                    cands.append(int(pj["created_at"]))
                except Exception:
                    pass
            if new and new[0].get("created_at"):
                try:
                    import datetime
                    ca = new[0]["created_at"]
                    cands.append(int(datetime.datetime.fromisoformat(ca[:19] + ca[-6:]).timestamp()))
                except Exception:
                    pass
            for x in (t0, t1):
                if x not in cands:
                    cands.append(x)
            if rc != 0 and c[0] == "rename":
                # a refused rename collided with an id made in some earlier second: that second is among those already fed to the model
                for prev in self.cmds:
                    if isinstance(prev, list) and len(prev) == 2 and isinstance(prev[1], int) and prev[1] not in [x % 100000 for x in cands]:
                        cands.append(prev[1])
            for sec in cands:
                trial = self.cmds + [[mc, sec % 100000]]
                res = self.M.ask("hist_run", trial)
                if not isinstance(res, list) or not res or res[0] == "error":
                    self.problems.append({"why": "model error", "resp": repr(res)[:300]})
                    return
                outcome, st = res[-1]
                model_new = len(st[0]) - len(self.cmds_hist_len())
                real_outcome = "succeeded" if (rc == 0 and new) else ("nothing" if rc == 0 else "rejected")
                if outcome == real_outcome and len(st[0]) == len(hist_after):
                    ok = True
                    self.cmds = trial
                    if new:
                        ident = st[0][-1][0]
                        self.real2abs[new[0]["id"]] = ident
                    # compare the shape of the new entry and the tree multiset
                    mtree = sorted(int(p[0]) for p in st[1])
                    if mtree != counts:
                        self.problems.append({"why": "model tree differs from the real tree", "step": stepno, "cmd": c,
                                              "model": mtree, "real": counts})
                    if new:
                        ro = new[0].get("revert_of")
                        mo = st[0][-1][1]
                        if (ro is None) != (mo == "none"):
                            self.problems.append({"why": "revert_of of the new entry differs", "step": stepno, "cmd": c})
                    break
            if not ok and real_outcome == "rejected" and outcome == "succeeded" and after_tree == before_tree and not new \
                    and (b"Content mismatch" in e or b"Failed to apply" in e):
                # The model does not track file contents: operations that feed one another on the same text (Foo -> Baz,
                # Baz -> Qux) can make a stored plan / reverse patch inapplicable, and the real command then refuses
                # cleanly. Tree and history are untouched (checked by the direct oracle above); the abstraction ends here.
                self.content_limit = getattr(self, "content_limit", 0) + 1
                return
            if not ok:
                self.problems.append({"why": "model outcome differs from the real command", "step": stepno, "cmd": c, "rc": rc,
                                      "model": outcome, "real": real_outcome,
                                      "stderr": e.decode("utf-8", "replace")[-200:]})
                return

    def cmds_hist_len(self):
        if not self.cmds:
            return []
        res = self.M.ask("hist_run", self.cmds)
        return res[-1][1][0]


def py_live(hist):
    reverted = {e.get("revert_of") for e in hist if e.get("revert_of")}
    return [e["id"] for e in hist if not e.get("revert_of") and e["id"] not in reverted]


def py_root(rid):
    """the original operation a chain of redo ids stands for"""
    while rid.startswith("redo-"):
        rid = rid[5:].rsplit("-", 1)[0]
    return rid


def py_param(hist, rid):
    """which of the three operations an entry id stands for (via its search term / redo chain)"""
    by = {e["id"]: e for e in hist}
    e = by[rid]
    for k, v in OPS.items():
        if e["search"] == v[0]:
            return k
    return 0


def scripts_exhaustive(maxlen):
    alphabet = [("rename", 1), ("rename", 3), ("undo", "latest"), ("redo", "latest"), ("undo", ("idx", 0)), ("redo", ("idx", 0))]
    for n in range(1, maxlen + 1):
        for s in itertools.product(alphabet, repeat=n):
            if s[0][0] != "rename":
                continue
            yield list(s)


def script_random(r, n):
    out = []
    for _ in range(n):
        k = r.randrange(10)
        if k < 3:
            out.append(("rename", r.choice([1, 2, 3])))
        elif k < 6:
            out.append((r.choice(["undo", "redo"]), "latest"))
        elif k < 9:
            out.append((r.choice(["undo", "redo"]), ("idx", r.randrange(0, 6))))
        else:
            out.append((r.choice(["undo", "redo"]), "bogus"))
        if r.random() < 0.12:
            out.append(("sleep",))
    if out[0][0] != "rename":
        out[0] = ("rename", 3)
    return out


def run(R):
    R.trusted += ["Coq 8.16.1 kernel + vm_compute", "extraction + modelrun.ml", "Python reading of history.json (independent oracle)"]
    proved = R.prove()
    mp, mlog = core.build_model()
    if mp is None:
        R.violation("model driver does not build", {"log": mlog[-3000:]}, has_input=False)
        return
    M = core.Model([str(mp)])
    g = gen.G(R.seed * 2654435761 % (2**31) + 10)
    r = g.r
    quick = R.tier == "quick"
    scripts = []
    ex = list(scripts_exhaustive(3 if quick else 4))
    scripts += r.sample(ex, min(len(ex), 40 if quick else 1200))
    scripts.append([("rename", 3), ("undo", "latest"), ("redo", "latest"), ("redo", "latest")])      # former double redo
    scripts.append([("rename", 1), ("undo", "latest"), ("rename", 1), ("rename", 1)])               # same-second identical rename
    scripts.append([("rename", 3), ("undo", "latest"), ("redo", "latest"), ("undo", ("idx", 0)), ("undo", "latest"), ("redo", "latest")])
    # redo of a redo entry, then once more in a later second (must be rejected: already redone)
    scripts.append([("rename", 3), ("undo", "latest"), ("redo", "latest"), ("undo", "latest"), ("redo", "latest"),
                    ("sleep",), ("redo", "latest")])
    scripts.append([("rename", 3), ("undo", "latest"), ("sleep",), ("redo", ("idx", 0)), ("sleep",), ("undo", ("idx", 2)),
                    ("sleep",), ("redo", ("idx", 2)), ("sleep",), ("redo", ("idx", 2)), ("redo", ("idx", 0))])
    scripts.append([("rename", 1), ("sleep",), ("rename", 3), ("undo", ("idx", 1)), ("sleep",), ("redo", ("idx", 1)),
                    ("sleep",), ("redo", ("idx", 1)), ("undo", ("idx", 0)), ("undo", ("idx", 0))])
    scripts += [script_random(r, r.randint(4, 12)) for _ in range(10 if quick else 300)]
    fails, dis = [], []
    known = set()
    stats = {"sequences": 0, "commands": 0, "lengths": {}, "ended_at_content_abstraction_limit": 0}
    for sc in scripts:
        with cli.Sandbox(base_tree()) as sb:
            S = Seq(M)
            S.run(sb, sc, R)
            stats["sequences"] += 1
            stats["commands"] += sum(1 for c in sc if c[0] != "sleep")
            stats["lengths"][len(sc)] = stats["lengths"].get(len(sc), 0) + 1
            R.case(json.dumps(sc), nontrivial=len(sc) >= 2)
            if len(R.coverage["samples"]) < 3:
                R.sample({"script": sc, "final_history_len": len(sb.history() or []), "tree_ops": tree_counts(sb)})
            for f in S.oracle_fail:
                fails.append({**f, "script": sc})
            known |= S.known
            stats["ended_at_content_abstraction_limit"] += getattr(S, "content_limit", 0)
            for d in S.problems:
                dis.append({**d, "script": sc})
    M.close()
    R.coverage["input_distribution"] = stats
    R.disagreements = len(dis)
    listed = {f["class"]: f for f in core.known_findings("C10")}
    for cls in sorted(known):
        if cls in listed:
            R.known(cls, listed[cls]["what"])
        else:
            fails.append({"why": f"violation class {cls} is not a listed known finding"})
    for f in fails[:3]:
        R.violation(f["why"], {"kind": "impl_failure", **f})
    if fails:
        return
    if not proved:
        R.violation("proof obligation of Props/C10.v no longer checks (no failing command sequence found)",
                    {"kind": "proof_broken", **getattr(R, "broken", {})}, has_input=False)
    elif dis:
        R.violation("history model / CLI correspondence broke (no failing command sequence found)",
                    {"kind": "correspondence", "first": dis[:3], "count": len(dis)}, has_input=False)


def replay(R, obj):
    mp, _ = core.build_model()
    M = core.Model([str(mp)])
    sc = [tuple(x) if not isinstance(x[1], list) else (x[0], tuple(x[1])) for x in obj.get("script", [])]
    with cli.Sandbox(base_tree()) as sb:
        S = Seq(M)
        S.run(sb, sc)
        print(json.dumps({"oracle_failures": S.oracle_fail, "model_disagreements": S.problems}, indent=1))
        return 1 if S.oracle_fail else 0
