"""C07 — Only the term changes: match soundness and locality."""
import json

import core
import cli
import gen
import applylib as al

LEVEL = "proof"
EXPLANATION = ("Theorems (Props/C07.v) over a Gallina restatement of compound_matcher.rs::find_compound_variants on top of the "
               "tokenizer / renderer model of C18: every compound match lies on a token window equal to the term's words "
               "(soundness), identifiers without such a window give no match (near-miss), the part of the identifier outside the "
               "window is preserved for the single-separator family (locality), and the machine-checked witness that doubled "
               "separators are not preserved (recorded finding). Tie: the extracted model is run against the real "
               "find_compound_variants on the generated identifier family, near-misses and random identifiers. Direct oracle, "
               "independent of the model: files of generated identifiers are planned and applied by the real scanner and every "
               "line must read prefix + replacement rendered in the identifier's style + suffix; near-miss lines must not change; "
               "every hunk's content must contain the term's words as a whole-word window.")
ASSUMPTIONS = ["ASCII-only case mapping in the model", "neutral vocabulary for the proved family; acronym- and digit-bearing identifiers "
               "are covered by the model/implementation stream and the direct oracle only"]

SEP = {"Snake": "_", "ScreamingSnake": "_", "Kebab": "-", "Train": "-", "ScreamingTrain": "-", "Dot": "."}
REGULAR_PLURAL = {"name", "value", "user", "item", "count", "order", "total", "widget", "gadget", "table", "field", "token", "world"}
FAMILY = ["Snake", "Kebab", "Camel", "Pascal", "ScreamingSnake", "Train", "ScreamingTrain"]


def words_of(ident):
    """independent whole-word split: separators and camel humps, digits glued to the word they follow"""
    out, cur = [], ""
    for ch in ident:
        if ch in "_-. /":
            if cur:
                out.append(cur)
            cur = ""
        elif ch.isupper() and cur and (cur[-1].islower() or cur[-1].isdigit()):
            out.append(cur)
            cur = ch
        else:
            cur += ch
    if cur:
        out.append(cur)
    return [w.lower() for w in out]


def has_window(ws, term):
    n = len(term)
    return any(ws[i:i + n] == term for i in range(len(ws) - n + 1))


def case_word(w, style, first):
    if style in ("ScreamingSnake", "ScreamingTrain"):
        return w.upper()
    if style in ("Pascal", "Train") or (style == "Camel" and not first):
        return gen.cap(w)
    return w


def build(style, pre, mid, post, prefix="", trail=False, doubled=None):
    ws = pre + mid + post
    parts = [case_word(w, style, i == 0) for i, w in enumerate(ws)]
    sep = SEP.get(style, "")
    if doubled is not None and sep and 0 < doubled < len(parts):
        s = sep.join(parts[:doubled]) + sep + sep + sep.join(parts[doubled:])
    else:
        s = sep.join(parts)
    return prefix + s + (sep if trail and sep else "")


def outside_span(style, pre, mid, post, prefix="", trail=False, doubled=None):
    """(head, tail): the bytes of build(...) before the first and after the last character of the term's words"""
    ws = pre + mid + post
    parts = [case_word(w, style, i == 0) for i, w in enumerate(ws)]
    sep = SEP.get(style, "")
    s, start, end = prefix, None, None
    for i, pt in enumerate(parts):
        if i > 0:
            s += sep * (2 if (doubled is not None and sep and doubled == i) else 1)
        if i == len(pre):
            start = len(s)
        s += pt
        if i == len(pre) + len(mid) - 1:
            end = len(s)
    s += sep if trail and sep else ""
    return s[:start], s[end:]


def only_span_changed(ident, got, head, tail, b):
    """C07 as stated: everything outside the term's span is preserved byte for byte; inside, the replacement's letters"""
    if not (got.startswith(head) and got.endswith(tail) and len(got) >= len(head) + len(tail)):
        return False
    inner = got[len(head):len(got) - len(tail)] if tail else got[len(head):]
    letters = "".join(ch for ch in inner.lower() if ch.isalnum())
    return letters in ("".join(b), "".join(b) + "s", "".join(b[:-1]) + b[-1] + "es")


def make_case(g, a, b):
    """-> (identifier, expected identifier after the rename, class, head, tail)"""
    ident, exp, cls, args = make_case0(g, a, b)
    head, tail = outside_span(*args) if args else ("", "")
    if cls == "mixed_separators":
        tail = ident[len(head) + len(SEP[args[0]].join(a)):]
    assert not args or (ident.startswith(head) and ident.endswith(tail)), (ident, head, tail)
    return ident, exp, cls, head, tail


def make_case0(g, a, b):
    r = g.r
    style = r.choice(FAMILY)
    avoid = set(a) | set(b)
    pre = g.words(0, 2, avoid=avoid) if r.random() < 0.8 else []
    post = g.words(0, 2, avoid=avoid | set(pre)) if r.random() < 0.8 else []
    if r.random() < 0.15 and style in SEP:
        post = post + [r.choice(["2", "3", "42"])]
    if not pre and not post:
        post = g.words(1, 1, avoid=avoid)
    prefix = r.choice(["", "", "", "_", "__"])
    trail = style in SEP and r.random() < 0.1
    kind = r.random()
    if kind < 0.12:
        # near misses: the letters of the term without its word sequence
        k = r.randrange(4)
        if k == 0:
            mid = ["x" + a[0]] + a[1:]
        elif k == 1:
            mid = a[:-1] + [a[-1] + "n"]
        elif k == 2:
            mid = ["".join(a)]
        else:
            mid = a[:-1] if len(a) > 1 else [a[0] + "q"]
            if has_window(pre + mid + post, a):
                mid = [a[0] + "q"]
        ident = build(style, pre, mid, post, prefix, trail)
        return ident, ident, "near_miss", None
    if 0.2 <= kind < 0.26:
        # a digit glued in front of the term's first word: no word boundary there (\b), so the identifier regex does not start
        # inside 2foo_bar_baz and the line is a near miss
        comp = build(style, [], a, post or ["cfg"], "", False)
        ident = r.choice(["2", "7", "42"]) + comp
        return ident, ident, "near_miss", None
    if 0.26 <= kind < 0.32 and style in ("Snake", "Kebab"):
        # prefix + the term + a tail that mixes two separator kinds (_old_name_foo-bar): only the term's span changes
        sep = SEP[style]
        # (tail words are outside the term vocabulary: a tail that itself contains the term would be a second occurrence)
        tailx = r.choice(["_alt-part", "-some_thing", "_v2-x"])
        ident = prefix + sep.join(a) + tailx
        return ident, prefix + sep.join(b) + tailx, "mixed_separators", (style, [], a, [], prefix, False, None)
    if kind < 0.2 and style in ("Snake", "Kebab", "ScreamingSnake"):
        # a dotted chain whose first segment is a near miss that CONTAINS the second segment's text (xfoo_bar_cfg.foo_bar_cfg):
        # segment spans have to be the segments' own positions
        comp = build(style, [], a, post or ["cfg"], "", False)
        new = build(style, [], b, post or ["cfg"], "", False)
        near = (r.choice(["X", "Q"]) if style == "ScreamingSnake" else r.choice(["x", "q"])) + comp     # same case: no hump boundary
        glue = r.choice([".", ".", "..", "::"]) if False else "."
        return near + glue + comp, near + glue + new, "dotted_chain", None
    outside = [d for d in range(1, len(pre + a + post)) if d <= len(pre) or d >= len(pre) + len(a)]
    if kind < 0.2 and style in SEP and outside:
        # a doubled separator somewhere outside the term's span
        d = r.choice(outside)
        d2 = d if d <= len(pre) else d - len(a) + len(b)
        return (build(style, pre, a, post, prefix, trail, doubled=d), build(style, pre, b, post, prefix, trail, doubled=d2), "doubled_separator",
                (style, pre, a, post, prefix, trail, d))
    if kind < 0.3 and a[-1] in REGULAR_PLURAL and b[-1] in REGULAR_PLURAL:
        ap = a[:-1] + [a[-1] + "s"]
        return (build(style, pre, ap, post, prefix, trail), build(style, pre, b[:-1] + [b[-1] + "s"], post, prefix, trail), "plural",
                (style, pre, ap, post, prefix, trail, None))
    return (build(style, pre, a, post, prefix, trail), build(style, pre, b, post, prefix, trail), "family_" + style,
            (style, pre, a, post, prefix, trail, None))


def run(R):
    R.trusted += ["Coq 8.16.1 kernel", "harness scan_tree / apply_tree / compound_variants", "Python expectation builder (independent oracle)",
                  "ExtrOcamlBasic extraction + ocaml/modelrun.ml"]
    proved = R.prove()
    hp, hlog = core.build_harness()
    mp, mlog = core.build_model()
    if hp is None or mp is None:
        R.violation("harness or model driver does not build", {"log": (hlog + mlog)[-3000:]}, has_input=False)
        return
    H, M = core.Harness([str(hp)]), core.Model([str(mp)])
    g = gen.G(R.seed * 6151 + 7)
    r = g.r
    quick = R.tier == "quick"
    fails, dis = [], []
    stats = {"identifiers": 0, "by_class": {}, "files": 0, "hunks": 0, "model_cases": 0}
    nfiles = 12 if quick else int(__import__("os").environ.get("C07_FILES", "500"))
    has_model = M.ask("compound", b"my_old_name_x", b"old_name", b"new_name", []) != ["error", "unknown_op_compound"]
    for fi in range(nfiles):
        a, b = g.term_pair()
        if r.random() < 0.25:
            a = a[:1] + g.words(1, 1, avoid=a + b) if r.random() < 0.5 else a
        typed = ["Snake", "Kebab", "Camel", "Pascal", "ScreamingSnake", "Train", "ScreamingTrain", "Dot"]
        st_s, st_r = r.choice(typed), r.choice(typed)
        search, replace = gen.render(a, st_s), gen.render(b, st_r)
        cases = [make_case(g, a, b) for _ in range(50)]
        lines = [f"let {c[0]} = {i};" for i, c in enumerate(cases)]
        want = [f"let {c[1]} = {i};" for i, c in enumerate(cases)]
        tree = [{"p": "src.rs", "k": "f", "c": ("\n".join(lines) + "\n").encode(), "m": 0o644}]
        # boundary positions of a FILE: a near miss (the term plus one glued letter, in each of its renderings) as the very last bytes of
        # a file without final newline, as the very first bytes, and as the whole file; and the term itself in the same places
        edge = []
        for st_e in ("Snake", "Camel", "Pascal", "ScreamingSnake", "Kebab"):
            t_e = gen.render(a, st_e)
            glue = "N" if st_e == "ScreamingSnake" else "n"
            front = [(glue + t_e + " = x\n", False)] if st_e in ("Snake", "ScreamingSnake", "Kebab") else []   # (nFooBar is n + FooBar: a hump)
            for j, (txt, changes) in enumerate([("x = " + t_e + glue, False)] + front + [(t_e + glue, False),
                                                ("x = " + t_e, True), (t_e + " = x\n", True), (t_e, True)]):
                edge.append((f"edge_{st_e}_{j}.txt", txt, changes))
        tree += [{"p": pth, "k": "f", "c": txt.encode(), "m": 0o644} for pth, txt, _ in edge]
        tj = cli.tree_json(tree)
        sr = H.ask({"op": "scan_tree", "tree": tj, "search": core.hx(search), "replace": core.hx(replace),
                    "options": {"styles": list(gen.DEFAULT_STYLES)}})   # what the CLI passes by default (never None)
        stats["files"] += 1
        if not sr.get("ok"):
            fails.append({"why": "scan failed or panicked: " + str(sr)[:200], "search": search, "replace": replace, "lines": lines[:5]})
            continue
        plan = sr["plan"]
        stats["hunks"] += len(plan["matches"])
        ar = H.ask({"op": "apply_tree", "tree": tj, "plan": plan})
        if not ar.get("ok") or "tree" not in ar:
            fails.append({"why": "apply of the fresh plan failed: " + str(ar.get("msg", ar))[:200], "search": search, "replace": replace, "tree": tj})
            continue
        out = al.harness_tree_dict(ar["tree"])
        got = [v for k, v in out.items() if k.endswith("src.rs")][0][2].decode("utf-8", "replace").splitlines()
        for pth, txt, changes in edge:
            now = out.get(pth, (None, None, b""))[2].decode("utf-8", "replace")
            stats["file_edge_cases"] = stats.get("file_edge_cases", 0) + 1
            if not changes and now != txt:
                fails.append({"why": f"near miss at the edge of a file: '{txt!r}' (whole content of {pth}) became '{now!r}' (term {search} -> {replace})",
                              "identifier": txt, "search": search, "replace": replace, "class": "near_miss_at_file_edge"})
                break
            if changes and now == txt:
                fails.append({"why": f"the term at the edge of a file was not rewritten: '{txt!r}' (whole content of {pth}) (term {search} -> {replace})",
                              "identifier": txt, "search": search, "replace": replace, "class": "term_at_file_edge"})
                break
        for (ident, exp_id, cls, head, tail), l_in, l_want, l_got in zip(cases, lines, want, got):
            stats["identifiers"] += 1
            stats["by_class"][cls] = stats["by_class"].get(cls, 0) + 1
            R.case((search, replace, ident), nontrivial=True)
            if l_got != l_want and cls not in ("near_miss", "doubled_separator", "mixed_separators"):
                # The property fixes what lies OUTSIDE the term's span (byte for byte) and that the span is what was replaced;
                # how the replacement is cased inside the span is C06's subject for standalone occurrences only
                # (BlueNewGamma with blue.new -> BAR_SLOW_INDEX gives BARSLOWINDEXGamma; Fast-Token-Blue-42 gives Fast-SlowWest-42)
                gi = l_got[4:].rsplit(" = ", 1)[0]
                if only_span_changed(ident, gi, head, tail, b):
                    stats["by_class"]["span_rendering_differs"] = stats["by_class"].get("span_rendering_differs", 0) + 1
                    continue
            if l_got != l_want and cls == "mixed_separators":
                # recorded finding: the tail's second separator kind is rewritten to the first (one separator for the whole re-join)
                gi = l_got[4:].rsplit(" = ", 1)[0]
                norm = lambda x: x.replace("-", "_").replace(".", "_")
                if only_span_changed(ident, gi, head, tail, b):
                    # prefix and tail byte for byte, the span holds the replacement (as typed: the shortcut for identifiers that
                    # start with the term exactly as typed inserts the replacement unrendered)
                    stats["by_class"]["span_rendering_differs"] = stats["by_class"].get("span_rendering_differs", 0) + 1
                    continue
                if norm(gi).lower() == norm(exp_id).lower():
                    R.known("mixed_separators_normalised", f"{ident} -> {gi} (expected {exp_id})")
                    continue
            if l_got != l_want:
                if cls == "doubled_separator":
                    # recorded finding: the identifier is re-joined from its tokens with one separator (and, its style no longer
                    # being recognised, the replacement may be glued in Pascal form): same word sequence, separators differ
                    gi = l_got[4:].rsplit(" = ", 1)[0]
                    pl = len(head) - len(head.lstrip("_")) if head else 0     # the _ / __ prefix is not a doubled separator
                    pfx, h0 = head[:pl], head[pl:]
                    sp = next((c for c in "_-." if c + c in h0 or c + c in tail), "_")
                    if words_of(gi) == words_of(exp_id) or \
                            only_span_changed(ident, gi, pfx + h0.replace(sp + sp, sp), tail.replace(sp + sp, sp), b):
                        R.known("doubled_separator_collapsed", f"{ident} -> {l_got[4:].split(' ')[0]} (expected {exp_id})")
                        continue
                fails.append({"why": f"{cls}: '{ident}' became '{l_got}' instead of '{l_want}' (term {search} -> {replace})",
                              "identifier": ident, "expected": l_want, "got": l_got, "search": search, "replace": replace, "class": cls})
            if len(R.coverage["samples"]) < 5 and r.random() < 0.02:
                R.sample({"identifier": ident, "after": l_got, "class": cls, "term": search, "replacement": replace})
        # soundness of each hunk: its content holds the term's words as a whole-word window (singular or plural)
        for h in plan["matches"]:
            ws = words_of(h["content"])
            if not (has_window(ws, a) or has_window(ws, a[:-1] + [a[-1] + "s"])):
                fails.append({"why": f"a hunk lies on text that does not contain the term as a word sequence: '{h['content']}' for {search}",
                              "hunk": {k: h.get(k) for k in ("content", "replace", "line", "variant")}, "search": search, "replace": replace})
        # model = implementation on the compound matcher itself
        if has_model:
            for ident, exp_id, cls, _h, _t in cases[:20 if quick else 50]:
                real = H.ask({"op": "compound_variants", "identifier": core.hx(ident), "search": core.hx(search), "replace": core.hx(replace)})
                m = M.ask("compound", ident.encode(), search.encode(), replace.encode(), [])
                stats["model_cases"] += 1
                if "ok" not in real:
                    fails.append({"why": "find_compound_variants panicked: " + str(real)[:200], "identifier": ident, "search": search, "replace": replace})
                    continue
                rv = sorted((bytes.fromhex(x["full"]), bytes.fromhex(x["replacement"]), x["style"], int(x["start"]), int(x["end"])) for x in real["ok"])
                try:
                    mv = sorted((core.atom_bytes(x[0]), core.atom_bytes(x[1]), x[2], int(x[3]), int(x[4])) for x in m)
                except Exception:
                    mv = repr(m)
                if rv != mv:
                    dis.append({"identifier": ident, "search": search, "replace": replace, "model": repr(mv)[:300], "real": repr(rv)[:300]})
    H.close()
    M.close()
    # the conclusions of the camelCase / Train-Case / Title Case locality theorems (Proofs/CompoundP3.v) on the real function
    hp2, _ = core.build_harness()
    rc, out, dt = core.sh(["python3", str(core.VERIF / "lib" / "compoundloc_difftest.py"), str(R.seed + 7), "600" if R.tier == "quick" else "20000"],
                          env=dict(core.ENV, RN_HARNESS=str(hp2)), timeout=3000)
    m = __import__("re").search(r"cases (\d+) mismatches (\d+)", out)
    stats["locality_theorems_on_real_matcher"] = {"instances": int(m.group(1)), "mismatches": int(m.group(2))} if m else None
    if not m or int(m.group(1)) == 0:
        dis.append({"why": "the locality-theorem replay did not complete", "log": out[-800:]})
    elif int(m.group(2)) > 0:
        dis.append({"why": "find_compound_variants contradicts the conclusion of a CompoundP3 locality theorem on an instance of its hypotheses",
                    "instances": [l for l in out.splitlines() if l.startswith("MISMATCH")][:4]})
    R.coverage["input_distribution"] = stats
    R.disagreements = len(dis)
    if not has_model:
        R.notes.append("compound model op not available in the driver")
    if stats["identifiers"] == 0:
        fails.append({"why": "no identifier was checked: the check is vacuous"})
    for f in fails[:3]:
        R.violation(f["why"], {"kind": "impl_failure", **f})
    if fails:
        return
    if not proved:
        R.violation("proof obligation of Props/C07.v no longer checks (no identifier of the family was rewritten wrongly)",
                    {"kind": "proof_broken", **getattr(R, "broken", {})}, has_input=False)
    elif dis:
        R.violation("compound matcher model / implementation correspondence broke (no wrongly rewritten identifier found)",
                    {"kind": "correspondence", "first": dis[:4], "count": len(dis)}, has_input=False)


def replay(R, obj):
    print(json.dumps(obj, indent=1, default=str)[:3000])
    if "identifier" in obj and "search" in obj:
        hp, _ = core.build_harness()
        H = core.Harness([str(hp)])
        tree = [{"p": "src.rs", "k": "f", "c": ("let " + obj["identifier"] + " = 0;\n").encode(), "m": 0o644}]
        tj = cli.tree_json(tree)
        sr = H.ask({"op": "scan_tree", "tree": tj, "search": core.hx(obj["search"]), "replace": core.hx(obj["replace"])})
        ar = H.ask({"op": "apply_tree", "tree": tj, "plan": sr["plan"]})
        out = al.harness_tree_dict(ar["tree"])
        got = [v for k, v in out.items() if k.endswith("src.rs")][0][2].decode("utf-8", "replace").strip()
        print("now:", got, "| expected:", obj.get("expected"))
        H.close()
        return 0 if got == obj.get("expected") else 1
    return 1
