"""C05 — Renaming never overwrites or loses existing files."""
import hashlib
import json
import core
import cli
import gen
import applylib as al

LEVEL = "proof"
EXPLANATION = ("Theorems (Props/C05.v), for every plan, tree and fault position of the apply model: an occupied planned "
               "destination (file, empty or non-empty directory, symlink) makes apply fail before any file-system "
               "operation, leaving the tree untouched; a successful apply saw every destination free; a rename onto a "
               "free destination keeps every node. The model is run against apply_plan and the CLI on trees with "
               "occupied destinations and chains; the direct oracle checks that no pre-existing file content disappears. "
               "Partial: case-insensitive file systems cannot be produced here (the same-entry exemption is not tied).")
ASSUMPTIONS = ["POSIX rename semantics as in Model/Fs.v", "case-sensitive file system in the sandbox"]


def scenario(g, i):
    a, b = g.term_pair()
    r = g.r
    s, n = gen.render(a, "Snake"), gen.render(b, "Snake")
    tree = g.tree(a, depth=3, symlinks=False)
    kind = i % 9
    if kind == 0:      # file over file
        tree += [{"p": f"{s}.txt", "k": "f", "c": b"source " + s.encode() + b"\n", "m": 0o644},
                 {"p": f"{n}.txt", "k": "f", "c": b"occupant precious\n", "m": 0o600}]
    elif kind == 1:    # dir over empty dir
        tree += [{"p": f"{s}_d", "k": "d", "m": 0o755}, {"p": f"{s}_d/in.txt", "k": "f", "c": b"inner\n", "m": 0o644},
                 {"p": f"{n}_d", "k": "d", "m": 0o700}]
    elif kind == 2:    # dir over non-empty dir
        tree += [{"p": f"{s}_d", "k": "d", "m": 0o755}, {"p": f"{s}_d/in.txt", "k": "f", "c": b"inner\n", "m": 0o644},
                 {"p": f"{n}_d", "k": "d", "m": 0o755}, {"p": f"{n}_d/keep.txt", "k": "f", "c": b"keep me\n", "m": 0o644}]
    elif kind == 3:    # file over symlink
        tree += [{"p": f"{s}.cfg", "k": "f", "c": s.encode() + b"\n", "m": 0o644},
                 {"p": f"{n}.cfg", "k": "l", "t": "somewhere"}]
    elif kind == 4:    # chain: destination of one rename is the source of another
        n = s + "_" + b[0]
        tree += [{"p": f"{s}.txt", "k": "f", "c": b"first\n", "m": 0o644},
                 {"p": f"{n}.txt", "k": "f", "c": b"second\n", "m": 0o644}]
    elif kind == 5:    # occupied inside a renamed directory
        tree += [{"p": f"{s}_d", "k": "d", "m": 0o755}, {"p": f"{s}_d/{s}.txt", "k": "f", "c": b"x\n", "m": 0o644},
                 {"p": f"{s}_d/{n}.txt", "k": "f", "c": b"occupant\n", "m": 0o644}]
    elif kind == 7:    # destination is a symlink that resolves to the source itself (an alias)
        tree += [{"p": f"{s}.txt", "k": "f", "c": b"aliased\n", "m": 0o644},
                 {"p": f"{n}.txt", "k": "l", "t": f"{s}.txt"}]
    elif kind == 8:    # source is a symlink whose target is the (existing) destination
        tree += [{"p": f"{n}.cfg", "k": "f", "c": b"real file\n", "m": 0o644},
                 {"p": f"{s}.cfg", "k": "l", "t": f"{n}.cfg"}]
    else:              # case variant of the destination exists
        tree += [{"p": f"{s}.txt", "k": "f", "c": b"lower\n", "m": 0o644},
                 {"p": f"{n.upper()}.txt", "k": "f", "c": b"upper occupant\n", "m": 0o644}]
    seen, out = set(), []
    for e in tree:
        if e["p"] not in seen:
            seen.add(e["p"])
            out.append(e)
    return out, s, n, kind


def content_multiset(d):
    out = {}
    for k, v in d.items():
        if v[0] == "f":
            h = hashlib.sha256(v[2]).hexdigest()
            out[h] = out.get(h, 0) + 1
        elif v[0] == "l":
            out["l:" + v[1]] = out.get("l:" + v[1], 0) + 1
    return out


def lost_nodes(before, after, plan):
    """pre-existing files/symlinks whose content is no longer anywhere in the tree (modulo planned edits)"""
    edited = {h["file"] for h in plan.get("matches", [])}
    ms_after = content_multiset(after)
    lost = []
    for p, v in sorted(before.items()):
        if p in edited:
            continue
        key = hashlib.sha256(v[2]).hexdigest() if v[0] == "f" else ("l:" + v[1] if v[0] == "l" else None)
        if key is None:
            continue
        if ms_after.get(key, 0) <= 0:
            lost.append(p)
        else:
            ms_after[key] -= 1
    return lost


def one_case(R, H, M, tree, search, replace, out, kind=None):
    tj = cli.tree_json(tree)
    sr = H.ask({"op": "scan_tree", "tree": tj, "search": core.hx(search), "replace": core.hx(replace)})
    before = al.tree_dict(tree)
    R.case((json.dumps(tj, sort_keys=True), search, replace), nontrivial=True)
    if not sr.get("ok"):
        out["plan_refused"] += 1      # refused at plan time: fine, nothing changed
        return
    plan = sr["plan"]
    occupied = [r for r in plan["paths"] if r.get("new_path") and r["new_path"] != r["path"] and r["new_path"] in before]
    ar = H.ask({"op": "apply_tree", "tree": tj, "plan": plan})
    if "tree" not in ar:
        out["fail"].append({"why": "apply_tree crashed", "resp": ar, "tree": tj, "search": search, "replace": replace})
        return
    after = al.harness_tree_dict(ar["tree"])
    if len(R.coverage["samples"]) < 4:
        R.sample({"kind": kind, "search": search, "replace": replace, "occupied": [r["new_path"] for r in occupied],
                  "apply_ok": ar.get("ok"), "msg": ar.get("msg", "")[:120]})
    out["occupied_cases"] += bool(occupied)
    lost = lost_nodes(before, after, plan)
    if lost:
        out["fail"].append({"why": f"pre-existing entries lost or overwritten: {lost[:4]}", "apply_ok": ar.get("ok"),
                            "tree": tj, "search": search, "replace": replace, "plan": plan})
        return
    if occupied and (ar.get("ok") or after != before):
        out["fail"].append({"why": "a planned destination was occupied but apply was not refused with the tree untouched",
                            "occupied": [r["new_path"] for r in occupied], "apply_ok": ar.get("ok"),
                            "diff": repr(al.diff_dict(after, before)), "tree": tj, "search": search, "replace": replace, "plan": plan})
        return
    m = M.ask("apply_core", "none", al.aplan_sx(plan), al.fs_sx(tree))
    if not isinstance(m, list) or m[0] not in ("true", "false"):
        out["dis"].append({"why": "model error", "resp": repr(m)[:300]})
        return
    mfs = al.user_only(al.fs_from_sx(m[2]))
    if (m[0] == "true") != bool(ar.get("ok")) or mfs != after:
        out["dis"].append({"why": "model apply_core differs from apply_plan", "model_ok": m[0], "impl_ok": ar.get("ok"),
                           "impl_msg": ar.get("msg", "")[:200], "diff": repr(al.diff_dict(mfs, after)), "tree": tj,
                           "search": search, "replace": replace, "plan": plan})


def run(R):
    R.trusted += ["Coq 8.16.1 kernel", "harness crate (scan_tree, apply_tree)", "extraction + modelrun.ml",
                  "POSIX semantics of Model/Fs.v"]
    proved = R.prove()
    hp, hlog = core.build_harness()
    mp, mlog = core.build_model()
    if hp is None or mp is None:
        R.violation("harness or model driver does not build", {"log": (hlog + mlog)[-3000:]}, has_input=False)
        return
    H, M = core.Harness([str(hp)]), core.Model([str(mp)])
    g = gen.G(R.seed * 65537 + 5)
    n = 140 if R.tier == "quick" else 2800
    out = {"fail": [], "dis": [], "occupied_cases": 0, "plan_refused": 0, "kinds": {}}
    for i in range(n):
        tree, s, nn, kind = scenario(g, i)
        out["kinds"][kind] = out["kinds"].get(kind, 0) + 1
        one_case(R, H, M, tree, s, nn, out, kind)
    # CLI level
    cli_ok = 0
    for i in range(9 if R.tier == "quick" else 90):
        tree, s, nn, kind = scenario(g, i)
        with cli.Sandbox(tree) as sb:
            before = sb.snapshot()
            bd = al.tree_dict(sb.tree_entries())
            rcp, op, ep = sb.run(["--no-auto-init", "plan", s, nn, "--dry-run", "--output", "json", "--quiet"])
            try:
                plan = al.relativize(json.loads(op.decode("utf-8"))["plan"] if b'"plan"' in op[:200] else json.loads(op.decode("utf-8")), sb.root)
            except Exception:
                plan = {"matches": [], "paths": []}
            rc, o, e = sb.run(["--no-auto-init", "-y", "rename", s, nn])
            after = sb.snapshot()
            ad = al.tree_dict(sb.tree_entries())
            R.case(("cli", kind, s, nn, repr(sorted(before))), nontrivial=True)
            cli_ok += rc == 0
            lost = lost_nodes(bd, ad, plan) if plan.get("matches") is not None else []
            if lost:
                out["fail"].append({"why": f"CLI rename lost pre-existing entries: {lost[:4]}", "rc": rc, "kind": kind,
                                    "tree": cli.tree_json(tree), "search": s, "replace": nn,
                                    "stderr": e.decode("utf-8", "replace")[-300:]})
            if rc != 0 and after != before and kind in (0, 1, 2, 3, 5, 7, 8):
                out["fail"].append({"why": "CLI rename was refused but the tree changed", "rc": rc, "kind": kind,
                                    "tree": cli.tree_json(tree), "search": s, "replace": nn,
                                    "diff": repr(cli.diff_snap(before, after))[:800]})
    # several entries of one directory that all map to the SAME new name (different renderings of the term, a one-word replacement,
    # among them the device names Windows reserves): every file is still there afterwards, whatever the command decides
    for j in range(8 if R.tier == "quick" else 120):
        a, b = g.term_pair()
        styles = g.r.sample(["Snake", "Kebab", "Camel", "Pascal", "ScreamingSnake", "Train", "Dot"], g.r.randint(2, 4))
        word = ["aux", "con", "nul", "prn", "com1", "lpt1", b[0], "todo"][j % 8]
        d = ["", "pkg/"][j % 2]
        tree = ([{"p": "pkg", "k": "d", "m": 0o755}] if d else []) + [
            {"p": d + gen.render(a, S) + ".txt", "k": "f", "c": f"payload {k} of {S}\n".encode(), "m": 0o644} for k, S in enumerate(styles)]
        if j % 2:
            styles = sorted(set(styles) | {"Snake", "Kebab"})
            tree = ([{"p": "pkg", "k": "d", "m": 0o755}] if d else []) + [
                {"p": d + gen.render(a, S) + ".txt", "k": "f", "c": f"payload {k} of {S}\n".encode(), "m": 0o644} for k, S in enumerate(styles)]
        cmds = [["rename", gen.render(a, "Snake"), word], ["replace", "[-_.]".join(a), word]]
        if j % 4 == 3 and len(styles) >= 2:
            # the colliding files named one by one as search paths, each through a different spelling of their directory
            # (a symlinked directory, a detour through ..): still the same two files
            names = [gen.render(a, S) + ".txt" for S in ("Snake", "Kebab")]       # both present when j is odd, both default styles
            base = d.rstrip("/") or "."
            tree = tree + [{"p": "alias_dir", "k": "l", "t": base}]
            spell = ["alias_dir/" + names[0], (base + "/../" + base + "/" if d else "./") + names[1]]
            cmds = [["rename", gen.render(a, "Snake"), word] + spell + ["--rename-root"], ["PLAN_APPLY", gen.render(a, "Snake"), word] + spell]
        for cmd in cmds[: 2 if j % 2 else 1]:
            with cli.Sandbox(tree) as sb:
                before = sorted(v[2] for v in sb.snapshot().values() if v[0] == "f")
                if cmd[0] == "PLAN_APPLY":
                    rc, o, e = sb.run(["--no-auto-init", "plan"] + cmd[1:] + ["--quiet"])
                    if rc == 0:
                        rc, o, e = sb.run(["--no-auto-init", "-y", "apply"])
                else:
                    rc, o, e = sb.run(["--no-auto-init", "-y"] + cmd)
                after_snap = sb.snapshot()
                after = sorted(v[2] for v in after_snap.values() if v[0] == "f")
                R.case(("many_to_one", tuple(cmd), tuple(styles), d), nontrivial=True)
                out["kinds"]["many_to_one"] = out["kinds"].get("many_to_one", 0) + 1
                missing = [h for h in before if before.count(h) > after.count(h)]
                if missing:
                    out["fail"].append({"why": f"`{' '.join(cmd)}` (exit {rc}) lost {len(set(missing))} of {len(before)} files: entries that map to the "
                                               f"same new name were renamed onto one another; left: {sorted(after_snap)}", "rc": rc,
                                        "tree": cli.tree_json(tree), "command": cmd, "stderr": e.decode("utf-8", "replace")[-300:]})
    # case-only renames probe the file system with a scratch file: a user's file of that name must survive
    for j in range(2 if R.tier == "quick" else 24):
        a, b = g.term_pair()
        pas, flat = gen.render(a, "Pascal"), "".join(a)
        d = ("sub/" if j % 2 else "")
        tree = ([{"p": "sub", "k": "d", "m": 0o755}] if d else []) + [
            {"p": d + pas + ".txt", "k": "f", "c": b"payload\n", "m": 0o644},
            {"p": d + (".renamify_case_test" if j % 4 < 2 else ".RENAMIFY_CASE_TEST"), "k": "f", "c": b"the user's own file\n", "m": 0o600}]
        with cli.Sandbox(tree) as sb:
            bd = al.tree_dict(sb.tree_entries())
            rc, o, e = sb.run(["--no-auto-init", "-y", "rename", pas, flat])
            ad = al.tree_dict(sb.tree_entries())
            R.case(("probe", j, pas), nontrivial=True)
            out["kinds"]["case_only_probe"] = out["kinds"].get("case_only_probe", 0) + 1
            probe = tree[-1]["p"]
            if ad.get(probe) != bd.get(probe):
                out["fail"].append({"why": f"a case-only rename destroyed the user's file {probe}", "rc": rc, "tree": cli.tree_json(tree),
                                    "search": pas, "replace": flat, "after": repr(ad.get(probe))[:100]})
            elif rc == 0 and (d + pas + ".txt") in ad:
                out["fail"].append({"why": "case-only rename reported success but did not rename", "tree": cli.tree_json(tree), "search": pas, "replace": flat})
    # a destination that becomes occupied BETWEEN plan and apply (the planner could not see it): ordinary names and names that
    # differ from the source only in case (on a case-sensitive file system those are two different entries)
    for j in range(6 if R.tier == "quick" else 60):
        a, b = g.term_pair()
        flat, snake, pas_flat, pas = "".join(a[:2]), "_".join(a[:2]), "".join(a[:2]).capitalize(), gen.render(a[:2], "Pascal")
        caseonly = j % 3 != 2
        if caseonly:
            search, replace, src_f, dst_f, src_d, dst_d = flat, snake, f"src/{pas_flat}.rs", f"src/{pas}.rs", f"src/{pas_flat}_dir", f"src/{pas}_dir"
        else:
            s2, n2 = gen.render(a, "Snake"), gen.render(b, "Snake")
            search, replace, src_f, dst_f, src_d, dst_d = s2, n2, f"src/{s2}.rs", f"src/{n2}.rs", f"src/{s2}_dir", f"src/{n2}_dir"
        tree = [{"p": "src", "k": "d", "m": 0o755}, {"p": src_f, "k": "f", "c": (f"// {search}\nbody\n").encode(), "m": 0o644},
                {"p": src_d, "k": "d", "m": 0o755}, {"p": src_d + "/mod.rs", "k": "f", "c": b"// plain\n", "m": 0o644},
                {"p": "notes.txt", "k": "f", "c": (f"about {search}\n").encode(), "m": 0o644}]
        sr = H.ask({"op": "scan_tree", "tree": cli.tree_json(tree), "search": core.hx(search), "replace": core.hx(replace)})
        variant = (j // 3) % 3
        want_src = src_d if variant == 1 else src_f
        target = next((r for r in (sr.get("plan") or {}).get("paths", []) if r["path"] == want_src and r.get("new_path")), None) if sr.get("ok") else None
        if target is None or (caseonly and target["new_path"].lower() != target["path"].lower()):
            out["kinds"]["late_occupant_not_planned"] = out["kinds"].get("late_occupant_not_planned", 0) + 1
            continue
        dst = target["new_path"]
        late = [[{"p": dst, "k": "f", "c": b"late occupant, precious\n", "m": 0o600}],
                [{"p": dst, "k": "d", "m": 0o755}, {"p": dst + "/keep.txt", "k": "f", "c": b"keep me\n", "m": 0o644}],
                [{"p": dst, "k": "l", "t": "notes.txt"}]][variant]
        t2 = tree + late
        tj2 = cli.tree_json(t2)
        ar = H.ask({"op": "apply_tree", "tree": tj2, "plan": sr["plan"]})
        R.case(("late_occupant", search, replace, late[0]["p"], late[0]["k"]), nontrivial=True)
        kname = "late_occupant_case_only" if caseonly else "late_occupant"
        out["kinds"][kname] = out["kinds"].get(kname, 0) + 1
        out["occupied_cases"] += 1
        if "tree" not in ar:
            out["fail"].append({"why": "apply_tree crashed", "resp": ar, "tree": tj2, "search": search, "replace": replace})
            continue
        before2, after2 = al.tree_dict(t2), al.harness_tree_dict(ar["tree"])
        if ar.get("ok") or after2 != before2:
            out["fail"].append({"why": f"'{late[0]['p']}' appeared between plan and apply at a planned destination" + (" (it differs from the source "
                                       "only in case)" if caseonly else "") + ": apply was not refused with the tree untouched",
                                "apply_ok": ar.get("ok"), "msg": ar.get("msg", "")[:200], "diff": repr(al.diff_dict(after2, before2))[:800],
                                "tree": tj2, "search": search, "replace": replace, "plan": sr["plan"]})
            continue
        m = M.ask("apply_core", "none", al.aplan_sx(sr["plan"]), al.fs_sx(t2))
        if isinstance(m, list) and m[0] in ("true", "false"):
            if m[0] == "true" or al.user_only(al.fs_from_sx(m[2])) != after2:
                out["dis"].append({"why": "model apply_core differs from apply_plan on a late occupant", "model_ok": m[0], "tree": tj2, "plan": sr["plan"]})
    R.coverage["cli_runs_succeeded"] = cli_ok
    H.close()
    M.close()
    R.coverage["input_distribution"] = {"occupied_cases": out["occupied_cases"], "refused_at_plan_time": out["plan_refused"],
                                        "kinds(0 file/file,1 dir/emptydir,2 dir/dir,3 file/symlink,4 chain,5 nested,6 case,7 alias symlink dest,8 symlink source to dest)": out["kinds"]}
    R.disagreements = len(out["dis"])
    for f in out["fail"][:3]:
        R.violation(f["why"], {"kind": "impl_failure", **f})
    if out["fail"]:
        return
    if not proved:
        R.violation("proof obligation of Props/C05.v no longer checks (no failing input found)",
                    {"kind": "proof_broken", **getattr(R, "broken", {})}, has_input=False)
    elif out["dis"]:
        R.violation("apply model / implementation correspondence broke on occupied-destination trees (no entry was lost)",
                    {"kind": "correspondence", "first": out["dis"][:3], "count": len(out["dis"])}, has_input=False)


def replay(R, obj):
    hp, _ = core.build_harness()
    mp, _ = core.build_model()
    H, M = core.Harness([str(hp)]), core.Model([str(mp)])
    out = {"fail": [], "dis": [], "occupied_cases": 0, "plan_refused": 0, "kinds": {}}
    if "tree" in obj and "search" in obj:
        one_case(R, H, M, cli.tree_from_json(obj["tree"]), obj["search"], obj["replace"], out)
    print(json.dumps({"failures": [f["why"] for f in out["fail"]], "disagreements": [d["why"] for d in out["dis"]]}, indent=1))
    return 1 if out["fail"] else 0
