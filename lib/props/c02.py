"""C02 — Apply does exactly what the plan says and nothing else."""
import json
import core
import cli
import gen
import applylib as al

LEVEL = "proof"
EXPLANATION = ("Theorems (Props/C02.v): the reverse-order splice loop equals the left-to-right reference splice on every "
               "well-formed edit list (any number, any lengths, multi-byte text); stale edits are always rejected; "
               "the content stage changes exactly the planned files. The Gallina apply model (content stage in BTreeMap "
               "order, rename sort, re-basing, bookkeeping) is run against apply_plan on plans produced by the real "
               "scanner, and both against an independent reference interpreter of the plan. Partial: the theorem "
               "that the rename stage reaches final_path for every nesting is tied by correspondence; fsync/durability "
               "and --commit are outside the model.")
ASSUMPTIONS = ["POSIX rename/open semantics as written in Model/Fs.v", "harness apply_tree runs the real apply_plan in a temp dir"]


def scenario(g, i):
    a, b = g.term_pair()
    r = g.r
    tree = g.tree(a, depth=4, p_dir_match=0.5, p_file_match=0.5)
    if i % 5 == 0:
        # nested renamed directories, three levels, files renamed inside
        s = gen.render(a, "Snake")
        tree += [{"p": f"{s}_a", "k": "d", "m": 0o755}, {"p": f"{s}_a/{s}_b", "k": "d", "m": 0o755},
                 {"p": f"{s}_a/{s}_b/{s}_c", "k": "d", "m": 0o755},
                 {"p": f"{s}_a/{s}_b/{s}_c/{s}_f.txt", "k": "f", "c": g.content(a, nlines=3, p_match=0.9), "m": 0o644},
                 {"p": f"{s}_a/{s}_b/other.txt", "k": "f", "c": ("é" + s + " " + s + "x " + s + "\n").encode(), "m": 0o600}]
    st_s = r.choice(["Snake", "Kebab", "Camel", "Pascal"])
    st_r = r.choice(["Snake", "Kebab", "Camel", "Pascal"])
    search, replace = gen.render(a, st_s), gen.render(b if r.random() < 0.8 else b + a[:1], st_r)
    if r.random() < 0.15:
        replace = gen.render(a + b[:1], st_r)   # replacement contains the search term
    if r.random() < 0.1:
        replace = gen.render(b[:1], st_r) if len(b) else "q"
    return tree, search, replace


def with_occupant(H, r, tree, search, replace):
    """the same tree with something already sitting where one planned rename wants to go (a bystander the plan never mentions):
    a file, an empty directory, a symlink to the entry being renamed, a dangling symlink — also inside a directory that is renamed"""
    sr = H.ask({"op": "scan_tree", "tree": cli.tree_json(tree), "search": core.hx(search), "replace": core.hx(replace)})
    if not sr.get("ok") or not sr["plan"]["paths"]:
        return None
    paths = sr["plan"]["paths"]
    nested = [p for p in paths if "/" in p["path"] and any(p["path"].startswith(q["path"] + "/") for q in paths)]
    ren = r.choice(nested) if nested and r.random() < 0.6 else r.choice(paths)
    dest = ren["new_path"]
    if any(e["p"] == dest for e in tree):
        return None
    kind = r.randrange(4)
    if kind == 0:
        occ = {"p": dest, "k": "f", "c": b"bystander, not part of the plan\n", "m": 0o640}
    elif kind == 1:
        occ = {"p": dest, "k": "d", "m": 0o755}
    elif kind == 2:
        occ = {"p": dest, "k": "l", "t": ren["path"].rsplit("/", 1)[-1]}
    else:
        occ = {"p": dest, "k": "l", "t": "nowhere"}
    t2 = tree + [occ]
    # when the replacement contains the search term the occupant would itself be scheduled for a rename (a chain, not a bystander)
    sr2 = H.ask({"op": "scan_tree", "tree": cli.tree_json(t2), "search": core.hx(search), "replace": core.hx(replace)})
    if not sr2.get("ok") or any(p["path"] == dest or dest.startswith(p["path"] + "/") and p["path"] != ren["path"].rsplit("/", 1)[0]
                                 for p in sr2["plan"]["paths"] if p["path"] == dest):
        return None
    return t2


def one_case(R, H, M, tree, search, replace, out, rnd=None):
    tj = cli.tree_json(tree)
    sr = H.ask({"op": "scan_tree", "tree": tj, "search": core.hx(search), "replace": core.hx(replace)})
    if not sr.get("ok"):
        return
    plan = sr["plan"]
    # a plan is a set of positioned edits: the order in which plan.json lists them must not matter
    if rnd is not None and len(plan["matches"]) > 1 and rnd.random() < 0.35:
        rnd.shuffle(plan["matches"])
        out["shuffled_plans"] += 1
    t0 = al.tree_dict(tree)
    ref = al.reference_apply(t0, plan)
    nontrivial = bool(plan["matches"] or plan["paths"])
    R.case((json.dumps(tj, sort_keys=True), search, replace), nontrivial=nontrivial)
    out["hunks"] += len(plan["matches"])
    out["renames"] += len(plan["paths"])
    out["dir_renames"] += sum(1 for p in plan["paths"] if p["kind"] == "dir")
    if isinstance(ref, tuple) and ref[0] == "error":
        if "two nodes end at" in ref[1]:
            # a planned destination is occupied: the plan has no meaning as a tree. Whatever apply does, a run that reports
            # success must not have touched an entry the plan does not mention (C02: "every other ... file ... unchanged")
            out["skipped_collision"] += 1
            ar = H.ask({"op": "apply_tree", "tree": tj, "plan": plan})
            if ar.get("ok") and "tree" in ar:
                impl = al.harness_tree_dict(ar["tree"])
                newname = {p["path"]: p["new_path"].rsplit("/", 1)[-1] for p in plan["paths"]}
                edited = {h["file"] for h in plan["matches"]}
                for pth0, node in t0.items():
                    if pth0 in edited or pth0 in newname:
                        continue
                    # where a bystander below renamed directories has to end up: each renamed ancestor's own component replaced
                    comps = pth0.split("/")
                    pth = "/".join(newname.get("/".join(comps[:k + 1]), c) for k, c in enumerate(comps))
                    if impl.get(pth) != node:
                        out["fail"].append({"why": f"a successful apply changed or removed '{pth}', which the plan does not mention "
                                                   "(a planned destination was occupied)", "tree": tj, "search": search,
                                            "replace": replace, "plan": plan, "now": repr(impl.get(pth))[:200]})
                        break
            else:
                out["collision_refused"] = out.get("collision_refused", 0) + 1
            return
        out["fail"].append({"why": "plan is not applicable by the reference interpreter: " + ref[1], "tree": tj,
                            "search": search, "replace": replace, "plan": plan})
        return
    ar = H.ask({"op": "apply_tree", "tree": tj, "plan": plan})
    if "tree" not in ar:
        out["fail"].append({"why": "apply_tree crashed", "resp": ar, "tree": tj, "search": search, "replace": replace})
        return
    impl = al.harness_tree_dict(ar["tree"])
    if len(R.coverage["samples"]) < 3 and nontrivial:
        R.sample({"search": search, "replace": replace, "files": sorted(t0)[:8], "hunks": len(plan["matches"]),
                  "renames": [(p["path"], p.get("new_path")) for p in plan["paths"]][:6], "apply_ok": ar.get("ok")})
    if not ar.get("ok"):
        out["fail"].append({"why": "apply of a fresh plan failed: " + ar.get("msg", "")[:300], "tree": tj, "search": search,
                            "replace": replace, "plan": plan})
        return
    if impl != ref:
        out["fail"].append({"why": "tree after apply differs from the plan's meaning", "diff": repr(al.diff_dict(impl, ref)),
                            "tree": tj, "search": search, "replace": replace, "plan": plan})
    m = M.ask("apply_core", "none", al.aplan_sx(plan), al.fs_sx(tree))
    if not isinstance(m, list) or m[0] not in ("true", "false"):
        out["dis"].append({"why": "model error", "resp": repr(m)[:300], "tree": tj, "plan": plan})
        return
    mfs = al.user_only(al.fs_from_sx(m[2]))
    if m[0] != "true" or mfs != impl:
        out["dis"].append({"why": "model apply_core differs from apply_plan", "model_ok": m[0],
                           "diff": repr(al.diff_dict(mfs, impl)), "tree": tj, "search": search, "replace": replace, "plan": plan})
    sp = M.ask("spec_apply", al.aplan_sx(plan), al.fs_sx(tree))
    sfs = al.user_only(al.fs_from_sx(sp))
    if sfs != ref:
        out["dis"].append({"why": "model spec_apply differs from the reference interpreter",
                           "diff": repr(al.diff_dict(sfs, ref)), "tree": tj, "plan": plan})


def run(R):
    R.trusted += ["Coq 8.16.1 kernel + vm_compute", "harness crate (scan_tree, apply_tree)",
                  "ExtrOcamlBasic extraction + ocaml/modelrun.ml", "POSIX semantics of Model/Fs.v",
                  "Python reference interpreter (independent oracle)"]
    proved = R.prove()
    hp, hlog = core.build_harness()
    mp, mlog = core.build_model()
    if hp is None or mp is None:
        R.violation("harness or model driver does not build", {"log": (hlog + mlog)[-3000:]}, has_input=False)
        return
    H, M = core.Harness([str(hp)]), core.Model([str(mp)])
    g = gen.G(R.seed * 31337 + 2)
    n = 150 if R.tier == "quick" else 3000
    out = {"fail": [], "dis": [], "hunks": 0, "renames": 0, "dir_renames": 0, "skipped_collision": 0, "shuffled_plans": 0}
    for i in range(n):
        tree, search, replace = scenario(g, i)
        one_case(R, H, M, tree, search, replace, out, rnd=g.r)
        if i % 3 == 0:
            t2 = with_occupant(H, g.r, tree, search, replace)
            if t2 is not None:
                out["occupied_destination_cases"] = out.get("occupied_destination_cases", 0) + 1
                one_case(R, H, M, t2, search, replace, out)
    # a bystander that happens to carry the name apply uses for its temporary file (<stem>.<pid>.renamify.tmp beside an edited
    # file: a leftover of a crashed run, or the user's own): whatever apply does, that entry is not in the plan and must survive
    pid = H.p.pid
    for i in range(4 if R.tier == "quick" else 40):
        a, b2 = g.term_pair()
        search, replace = gen.render(a, "Snake"), gen.render(b2, "Snake")
        tmpn = f"d/notes.{pid}.renamify.tmp"
        kind = i % 3
        occ = ({"p": tmpn, "k": "f", "c": b"PRECIOUS USER DATA\n", "m": 0o600} if kind == 0 else
               {"p": tmpn, "k": "l", "t": "y.txt"} if kind == 1 else {"p": tmpn, "k": "l", "t": "nowhere"})
        tree = [{"p": "d", "k": "d", "m": 0o755}, {"p": "d/notes.txt", "k": "f", "c": (f"see {search} here\n").encode(), "m": 0o644},
                {"p": "d/y.txt", "k": "f", "c": b"bystander y\n", "m": 0o644}, occ]
        tj = cli.tree_json(tree)
        sr = H.ask({"op": "scan_tree", "tree": tj, "search": core.hx(search), "replace": core.hx(replace)})
        if not sr.get("ok") or not sr["plan"]["matches"]:
            continue
        ar = H.ask({"op": "apply_tree", "tree": tj, "plan": sr["plan"]})
        out["temp_name_bystander_cases"] = out.get("temp_name_bystander_cases", 0) + 1
        R.case(("temp_name_bystander", search, kind), nontrivial=True)
        if "tree" not in ar:
            out["fail"].append({"why": "apply_tree crashed", "resp": ar, "tree": tj, "search": search, "replace": replace})
            continue
        impl, t0 = al.harness_tree_dict(ar["tree"]), al.tree_dict(tree)
        # the model writes the temp name with the literal PID: same scenario, occupant at the model's name
        mtree = [dict(e, p=e["p"].replace(f".{pid}.", ".PID.")) for e in tree]
        m = M.ask("apply_core", "none", al.aplan_sx(sr["plan"]), al.fs_sx(mtree))
        if isinstance(m, list) and m[0] in ("true", "false"):
            mfs = {k.replace(".PID.", f".{pid}."): v for k, v in al.user_only(al.fs_from_sx(m[2])).items()}
            if (m[0] == "true") != bool(ar.get("ok")) or mfs != impl:
                out["dis"].append({"why": "model apply_core differs from apply_plan when the temp name is occupied", "model_ok": m[0],
                                   "impl_ok": ar.get("ok"), "diff": repr(al.diff_dict(mfs, impl))[:600], "tree": tj, "plan": sr["plan"]})
        else:
            out["dis"].append({"why": "model error", "resp": repr(m)[:300], "tree": tj})
        for pth in (tmpn, "d/y.txt"):
            if impl.get(pth) != t0.get(pth):
                out["fail"].append({"why": f"apply (ok={ar.get('ok')}) changed or removed '{pth}', which the plan does not mention: it carried the name "
                                           "apply uses for its temporary file", "tree": tj, "search": search, "replace": replace,
                                    "plan": sr["plan"], "was": repr(t0.get(pth))[:200], "now": repr(impl.get(pth))[:200]})
                break
    # CLI level: plan -> apply from the saved file on an unchanged tree
    cli_n = 5 if R.tier == "quick" else 40
    for i in range(cli_n):
        tree, search, replace = scenario(g, i)
        with cli.Sandbox(tree) as sb:
            rc, o, e = sb.run(["--no-auto-init", "plan", search, replace, "--output", "json", "--quiet"])
            if rc != 0:
                continue
            try:
                plan = json.loads((sb.root / ".renamify/plan.json").read_text())
            except Exception:
                continue
            plan = al.relativize(plan, sb.root)
            ref = al.reference_apply(al.tree_dict(tree), plan)
            if isinstance(ref, tuple):
                continue
            rc2, o2, e2 = sb.run(["--no-auto-init", "-y", "apply"])
            snap = sb.snapshot()
            R.case(("cli", search, replace, repr(sorted(snap))), nontrivial=bool(plan["matches"] or plan["paths"]))
            if rc2 != 0 or snap != al.sha_dict(ref):
                out["fail"].append({"why": "CLI apply of the saved plan differs from the plan's meaning", "rc": rc2,
                                    "stderr": e2.decode("utf-8", "replace")[-400:], "tree": cli.tree_json(tree),
                                    "search": search, "replace": replace,
                                    "diff": repr(cli.diff_snap(snap, al.sha_dict(ref)))[:1200]})
    # `replace` (and `rename`) restricted to search roots given on the command line: exactly the entries below those roots change -
    # the same file names with the same text exist OUTSIDE the roots and must stay as they are
    for i in range(4 if R.tier == "quick" else 40):
        a, b = g.term_pair()
        s_, t_ = gen.render(a, "Snake"), gen.render(b, "Snake")
        body = (f"see {s_} here\n").encode()
        tree = [{"p": "f.txt", "k": "f", "c": body, "m": 0o644}, {"p": f"{s_}_top.txt", "k": "f", "c": body, "m": 0o644},
                {"p": "sub", "k": "d", "m": 0o755}, {"p": "sub/f.txt", "k": "f", "c": body, "m": 0o644},
                {"p": f"sub/{s_}_in.txt", "k": "f", "c": b"plain\n", "m": 0o644},
                {"p": "sub2", "k": "d", "m": 0o755}, {"p": "sub2/f.txt", "k": "f", "c": body, "m": 0o600},
                {"p": "other", "k": "d", "m": 0o755}, {"p": "other/f.txt", "k": "f", "c": body, "m": 0o644}]
        new_body = (f"see {t_} here\n").encode()
        for cmdname in ("replace", "rename"):
            for rk, roots in enumerate((["sub"], ["sub", "sub2"], ["./sub"], ["ABS:sub"], ["sub2", "ABS:sub"])):
                with cli.Sandbox(tree) as sb:
                    rr = [str(sb.root / x[4:]) if x.startswith("ABS:") else x for x in roots]
                    base = ["replace", "--no-regex", s_, t_] if cmdname == "replace" else ["rename", s_, t_]
                    rc, o, e = sb.run(["--no-auto-init", "-y"] + base + rr)
                    snap = sb.snapshot()
                    in_roots = {x[4:] if x.startswith("ABS:") else x.lstrip("./") for x in roots}
                    want = {}
                    for ent in tree:
                        top = ent["p"].split("/")[0]
                        pth, c = ent["p"], ent.get("c")
                        if top in in_roots and ent["k"] == "f":
                            c = new_body if c == body else c
                            pth = pth.replace(s_, t_) if "/" in pth else pth
                        want[pth] = c
                    got = {k: ((sb.root / k).read_bytes() if v[0] == "f" else None) for k, v in snap.items()}
                    R.case(("cli_roots", cmdname, tuple(roots), s_, t_), nontrivial=True)
                    out["kinds_cli_roots"] = out.get("kinds_cli_roots", 0) + 1
                    if rc != 0 or got != want:
                        diff = sorted(k for k in set(got) | set(want) if got.get(k) != want.get(k))
                        out["fail"].append({"why": f"`{' '.join(base + roots)}` (exit {rc}): the tree is not the one in which exactly the entries below the "
                                                   f"given roots are rewritten; differing entries: {diff[:5]}", "tree": cli.tree_json(tree),
                                            "search": s_, "replace": t_, "roots": roots, "stderr": e.decode("utf-8", "replace")[-300:]})
    # case-only path renames (foobar -> foo_bar makes Foobar.rs -> FooBar.rs): apply probes the file system for case sensitivity;
    # afterwards the tree is the plan's meaning and nothing else - no scratch entry of the probe either
    for i in range(max(2, cli_n // 2)):
        a, b = g.term_pair()
        flat, snake = "".join(a[:2]), "_".join(a[:2])
        pas_flat, pas = flat.capitalize(), gen.render(a[:2], "Pascal")
        tree = [{"p": "src", "k": "d", "m": 0o755}, {"p": f"src/{pas_flat}.rs", "k": "f", "c": (f"struct {pas_flat};\n// {flat}\n").encode(), "m": 0o644},
                {"p": f"src/{pas_flat}_dir", "k": "d", "m": 0o755}, {"p": f"src/{pas_flat}_dir/mod.rs", "k": "f", "c": b"// plain\n", "m": 0o644},
                {"p": "keep.txt", "k": "f", "c": b"untouched\n", "m": 0o600}]
        for via_plan in (False, True):
            with cli.Sandbox(tree) as sb:
                rc, o, e = sb.run(["--no-auto-init", "plan", flat, snake, "--dry-run", "--output", "json", "--quiet"])
                try:
                    doc = json.loads(o.decode("utf-8"))
                    plan = al.relativize(doc.get("plan", doc), sb.root)
                except Exception:
                    continue
                ref = al.reference_apply(al.tree_dict(tree), plan)
                if isinstance(ref, tuple):
                    continue
                if via_plan:
                    sb.run(["--no-auto-init", "plan", flat, snake, "--quiet"])
                    rc2, o2, e2 = sb.run(["--no-auto-init", "-y", "apply"])
                else:
                    rc2, o2, e2 = sb.run(["--no-auto-init", "-y", "rename", flat, snake])
                snap = sb.snapshot()
                R.case(("cli_case_only", flat, snake, via_plan), nontrivial=True)
                out["case_only_runs"] = out.get("case_only_runs", 0) + 1
                if rc2 != 0 or snap != al.sha_dict(ref):
                    out["fail"].append({"why": "after a case-only rename the tree is not exactly the plan's meaning", "rc": rc2,
                                        "stderr": e2.decode("utf-8", "replace")[-300:], "tree": cli.tree_json(tree), "search": flat, "replace": snake,
                                        "via_plan_apply": via_plan, "diff": repr(cli.diff_snap(snap, al.sha_dict(ref)))[:1000]})
    # a plan saved under a name of the user's choosing, applied LATER by that name while renamify's own default plan file
    # holds a different, newer plan: what is applied is the named plan and nothing else
    for i in range(cli_n):
        tree, search, replace = scenario(g, 1000 + i)
        a2, b2 = g.term_pair()
        decoy_s, decoy_r = gen.render(a2, "Snake"), gen.render(b2, "Snake")
        tree = tree + [{"p": "decoy_notes.txt", "k": "f", "c": (decoy_s + " is mentioned here\n").encode(), "m": 0o644}]
        name = ["plan.json", "saved/plan.json", "my_plan.json", "./plan.json"][i % 4]
        with cli.Sandbox(tree) as sb:
            rc, o, e = sb.run(["--no-auto-init", "plan", search, replace, "--quiet", "--plan-out", name])
            if rc != 0 or not (sb.root / name).exists():
                continue
            try:
                plan = al.relativize(json.loads((sb.root / name).read_text()), sb.root)
            except Exception:
                continue
            sb.run(["--no-auto-init", "plan", decoy_s, decoy_r, "--quiet"])          # the newer plan at the default location
            t_now = al.tree_dict([e_ for e_ in sb.tree_entries() if not (e_["p"] == name.lstrip("./") or e_["p"].startswith("saved"))])
            ref = al.reference_apply(t_now, plan)
            if isinstance(ref, tuple):
                continue
            rc2, o2, e2 = sb.run(["--no-auto-init", "-y", "apply", name])
            snap = {k: v for k, v in sb.snapshot().items() if not (k == name.lstrip("./") or k == "saved" or k.startswith("saved/"))}
            R.case(("cli_named_plan", search, replace, name), nontrivial=bool(plan["matches"] or plan["paths"]))
            out["named_plan_runs"] = out.get("named_plan_runs", 0) + 1
            if rc2 != 0 or snap != al.sha_dict(ref):
                out["fail"].append({"why": f"`apply {name}` did not carry out the plan saved under that name (a different plan sits in "
                                           ".renamify/plan.json)", "rc": rc2, "stderr": e2.decode("utf-8", "replace")[-300:],
                                    "tree": cli.tree_json(tree), "search": search, "replace": replace, "plan_out": name,
                                    "decoy": [decoy_s, decoy_r], "diff": repr(cli.diff_snap(snap, al.sha_dict(ref)))[:1000]})
    H.close()
    M.close()
    R.coverage["input_distribution"] = {k: out.get(k, 0) for k in ("hunks", "renames", "dir_renames", "skipped_collision", "shuffled_plans",
                                                                     "occupied_destination_cases", "collision_refused", "named_plan_runs", "case_only_runs")}
    R.disagreements = len(out["dis"])
    for f in out["fail"][:3]:
        R.violation(f["why"], {"kind": "impl_failure", **f})
    if out["fail"]:
        return
    if not proved:
        R.violation("proof obligation of Props/C02.v no longer checks (no failing input found)",
                    {"kind": "proof_broken", **getattr(R, "broken", {})}, has_input=False)
    elif out["dis"]:
        R.violation("apply model / implementation correspondence broke (implementation still matches the reference interpreter)",
                    {"kind": "correspondence", "first": out["dis"][:3], "count": len(out["dis"])}, has_input=False)


def replay(R, obj):
    hp, _ = core.build_harness()
    mp, _ = core.build_model()
    H, M = core.Harness([str(hp)]), core.Model([str(mp)])
    out = {"fail": [], "dis": [], "hunks": 0, "renames": 0, "dir_renames": 0, "skipped_collision": 0, "shuffled_plans": 0}
    if "tree" in obj and "search" in obj:
        one_case(R, H, M, cli.tree_from_json(obj["tree"]), obj["search"], obj["replace"], out)
    print(json.dumps({"failures": [f["why"] for f in out["fail"]], "disagreements": [d["why"] for d in out["dis"]]}, indent=1))
    return 1 if out["fail"] else 0
