"""C02 — Apply does exactly what the plan says and nothing else."""
import json
import core
import cli
import gen
import applylib as al

LEVEL = "proof"
EXPLANATION = ("Theorems (Props/C02.v): the reverse-order splice loop equals the left-to-right reference splice on every "
               "well-formed edit list (any number, any lengths, multi-byte text); stale edits are always rejected; "
               "the content stage changes exactly the planned files. The Gallina apply model (content stage in BTreeMap "
               "order, rename sort, re-basing, bookkeeping) is run against apply_plan on plans produced by the real "
               "scanner, and both against an independent reference interpreter of the plan. Partial: the theorem "
               "that the rename stage reaches final_path for every nesting is tied by correspondence; fsync/durability "
               "and --commit are outside the model.")
ASSUMPTIONS = ["POSIX rename/open semantics as written in Model/Fs.v", "harness apply_tree runs the real apply_plan in a temp dir"]


def scenario(g, i):
    a, b = g.term_pair()
    r = g.r
    tree = g.tree(a, depth=4, p_dir_match=0.5, p_file_match=0.5)
    if i % 5 == 0:
        # nested renamed directories, three levels, files renamed inside
        s = gen.render(a, "Snake")
        tree += [{"p": f"{s}_a", "k": "d", "m": 0o755}, {"p": f"{s}_a/{s}_b", "k": "d", "m": 0o755},
                 {"p": f"{s}_a/{s}_b/{s}_c", "k": "d", "m": 0o755},
                 {"p": f"{s}_a/{s}_b/{s}_c/{s}_f.txt", "k": "f", "c": g.content(a, nlines=3, p_match=0.9), "m": 0o644},
                 {"p": f"{s}_a/{s}_b/other.txt", "k": "f", "c": ("é" + s + " " + s + "x " + s + "\n").encode(), "m": 0o600}]
    st_s = r.choice(["Snake", "Kebab", "Camel", "Pascal"])
    st_r = r.choice(["Snake", "Kebab", "Camel", "Pascal"])
    search, replace = gen.render(a, st_s), gen.render(b if r.random() < 0.8 else b + a[:1], st_r)
    if r.random() < 0.15:
        replace = gen.render(a + b[:1], st_r)   # replacement contains the search term
    if r.random() < 0.1:
        replace = gen.render(b[:1], st_r) if len(b) else "q"
    return tree, search, replace


def one_case(R, H, M, tree, search, replace, out, rnd=None):
    tj = cli.tree_json(tree)
    sr = H.ask({"op": "scan_tree", "tree": tj, "search": core.hx(search), "replace": core.hx(replace)})
    if not sr.get("ok"):
        return
    plan = sr["plan"]
    # a plan is a set of positioned edits: the order in which plan.json lists them must not matter
    if rnd is not None and len(plan["matches"]) > 1 and rnd.random() < 0.35:
        rnd.shuffle(plan["matches"])
        out["shuffled_plans"] += 1
    t0 = al.tree_dict(tree)
    ref = al.reference_apply(t0, plan)
    nontrivial = bool(plan["matches"] or plan["paths"])
    R.case((json.dumps(tj, sort_keys=True), search, replace), nontrivial=nontrivial)
    out["hunks"] += len(plan["matches"])
    out["renames"] += len(plan["paths"])
    out["dir_renames"] += sum(1 for p in plan["paths"] if p["kind"] == "dir")
    if isinstance(ref, tuple) and ref[0] == "error":
        if "two nodes end at" in ref[1]:
            out["skipped_collision"] += 1
            return
        out["fail"].append({"why": "plan is not applicable by the reference interpreter: " + ref[1], "tree": tj,
                            "search": search, "replace": replace, "plan": plan})
        return
    ar = H.ask({"op": "apply_tree", "tree": tj, "plan": plan})
    if "tree" not in ar:
        out["fail"].append({"why": "apply_tree crashed", "resp": ar, "tree": tj, "search": search, "replace": replace})
        return
    impl = al.harness_tree_dict(ar["tree"])
    if len(R.coverage["samples"]) < 3 and nontrivial:
        R.sample({"search": search, "replace": replace, "files": sorted(t0)[:8], "hunks": len(plan["matches"]),
                  "renames": [(p["path"], p.get("new_path")) for p in plan["paths"]][:6], "apply_ok": ar.get("ok")})
    if not ar.get("ok"):
        out["fail"].append({"why": "apply of a fresh plan failed: " + ar.get("msg", "")[:300], "tree": tj, "search": search,
                            "replace": replace, "plan": plan})
        return
    if impl != ref:
        out["fail"].append({"why": "tree after apply differs from the plan's meaning", "diff": repr(al.diff_dict(impl, ref)),
                            "tree": tj, "search": search, "replace": replace, "plan": plan})
    m = M.ask("apply_core", "none", al.aplan_sx(plan), al.fs_sx(tree))
    if not isinstance(m, list) or m[0] not in ("true", "false"):
        out["dis"].append({"why": "model error", "resp": repr(m)[:300], "tree": tj, "plan": plan})
        return
    mfs = al.user_only(al.fs_from_sx(m[2]))
    if m[0] != "true" or mfs != impl:
        out["dis"].append({"why": "model apply_core differs from apply_plan", "model_ok": m[0],
                           "diff": repr(al.diff_dict(mfs, impl)), "tree": tj, "search": search, "replace": replace, "plan": plan})
    sp = M.ask("spec_apply", al.aplan_sx(plan), al.fs_sx(tree))
    sfs = al.user_only(al.fs_from_sx(sp))
    if sfs != ref:
        out["dis"].append({"why": "model spec_apply differs from the reference interpreter",
                           "diff": repr(al.diff_dict(sfs, ref)), "tree": tj, "plan": plan})


def run(R):
    R.trusted += ["Coq 8.16.1 kernel + vm_compute", "harness crate (scan_tree, apply_tree)",
                  "ExtrOcamlBasic extraction + ocaml/modelrun.ml", "POSIX semantics of Model/Fs.v",
                  "Python reference interpreter (independent oracle)"]
    proved = R.prove()
    hp, hlog = core.build_harness()
    mp, mlog = core.build_model()
    if hp is None or mp is None:
        R.violation("harness or model driver does not build", {"log": (hlog + mlog)[-3000:]}, has_input=False)
        return
    H, M = core.Harness([str(hp)]), core.Model([str(mp)])
    g = gen.G(R.seed * 31337 + 2)
    n = 150 if R.tier == "quick" else 3000
    out = {"fail": [], "dis": [], "hunks": 0, "renames": 0, "dir_renames": 0, "skipped_collision": 0, "shuffled_plans": 0}
    for i in range(n):
        tree, search, replace = scenario(g, i)
        one_case(R, H, M, tree, search, replace, out, rnd=g.r)
    # CLI level: plan -> apply from the saved file on an unchanged tree
    cli_n = 5 if R.tier == "quick" else 40
    for i in range(cli_n):
        tree, search, replace = scenario(g, i)
        with cli.Sandbox(tree) as sb:
            rc, o, e = sb.run(["--no-auto-init", "plan", search, replace, "--output", "json", "--quiet"])
            if rc != 0:
                continue
            try:
                plan = json.loads((sb.root / ".renamify/plan.json").read_text())
            except Exception:
                continue
            plan = al.relativize(plan, sb.root)
            ref = al.reference_apply(al.tree_dict(tree), plan)
            if isinstance(ref, tuple):
                continue
            rc2, o2, e2 = sb.run(["--no-auto-init", "-y", "apply"])
            snap = sb.snapshot()
            R.case(("cli", search, replace, repr(sorted(snap))), nontrivial=bool(plan["matches"] or plan["paths"]))
            if rc2 != 0 or snap != al.sha_dict(ref):
                out["fail"].append({"why": "CLI apply of the saved plan differs from the plan's meaning", "rc": rc2,
                                    "stderr": e2.decode("utf-8", "replace")[-400:], "tree": cli.tree_json(tree),
                                    "search": search, "replace": replace,
                                    "diff": repr(cli.diff_snap(snap, al.sha_dict(ref)))[:1200]})
    H.close()
    M.close()
    R.coverage["input_distribution"] = {k: out[k] for k in ("hunks", "renames", "dir_renames", "skipped_collision", "shuffled_plans")}
    R.disagreements = len(out["dis"])
    for f in out["fail"][:3]:
        R.violation(f["why"], {"kind": "impl_failure", **f})
    if out["fail"]:
        return
    if not proved:
        R.violation("proof obligation of Props/C02.v no longer checks (no failing input found)",
                    {"kind": "proof_broken", **getattr(R, "broken", {})}, has_input=False)
    elif out["dis"]:
        R.violation("apply model / implementation correspondence broke (implementation still matches the reference interpreter)",
                    {"kind": "correspondence", "first": out["dis"][:3], "count": len(out["dis"])}, has_input=False)


def replay(R, obj):
    hp, _ = core.build_harness()
    mp, _ = core.build_model()
    H, M = core.Harness([str(hp)]), core.Model([str(mp)])
    out = {"fail": [], "dis": [], "hunks": 0, "renames": 0, "dir_renames": 0, "skipped_collision": 0, "shuffled_plans": 0}
    if "tree" in obj and "search" in obj:
        one_case(R, H, M, cli.tree_from_json(obj["tree"]), obj["search"], obj["replace"], out)
    print(json.dumps({"failures": [f["why"] for f in out["fail"]], "disagreements": [d["why"] for d in out["dis"]]}, indent=1))
    return 1 if out["fail"] else 0
