"""C06 — Every case style of the term is found and rewritten in the same style."""
import json

import core
import cli
import gen
import applylib as al

LEVEL = "proof"
EXPLANATION = ("Theorems (Props/C06.v) over the Gallina tokenizer / renderer / variant-table model of C18 (tables regenerated from the "
               "source) and the literal-alternation scanner model of C03: for all neutral multi-word terms, all visible styles and all "
               "delimiter strings, a standalone occurrence written in an enabled style is the one and only match of the scan, it "
               "passes the boundary test and the variant table maps it to the replacement rendered in that same style; an occurrence "
               "in a disabled style is not matched. Second clause: over the model of case_constraints.rs (Model/Constraints.v, table "
               "regenerated from the source, compared with the real filter_compatible_styles on every run) every style a text is "
               "compatible with keeps the first letter's case and keeps an all-upper text upper; the real resolver is checked to "
               "return a compatible style whenever one exists. The tail of generate_hunks (which heuristic, separator coercion) is "
               "not modelled: its effect on these occurrences and the style-list construction from the CLI options are decided on "
               "the real CLI "
               "against an independent reference renderer: every line `delimiter occurrence delimiter` for all 14 styles x the "
               "delimiter contexts x the four style-option families, compared byte for byte after apply.")
ASSUMPTIONS = ["the ambiguity resolver and coercion tail of generate_hunks are covered by the direct oracle, not by the theorems",
               "neutral vocabulary (no acronyms, no digits); plural variants off in the theorems"]

CONTEXTS = [("", ""), ("x = ", ";"), ('"', '"'), ("'", "'"), ("(", ")"), ("[", "]"), ("{", "}"), ("a/", "/b"), ("m::", "::n"), ("p.", ".q"),
            ("f(", ", g)"), ("  ", "  "), ("<", ">"), ("k: ", ","), ("\t", ""),
            # typographic neighbours: curly quotes, guillemets, em dash, no-break space, a byte-order mark at the start of the text
            ("\u201c", "\u201d"), ("\u00ab", "\u00bb"), ("\u2014", "\u2014"), ("\u00a0", "\u00a0"), ("\ufeff", " x"), ("é ", " é")]
SPACEY = {"Title", "Sentence", "LowerSentence", "UpperSentence"}
FLAT = {"LowerFlat", "UpperFlat"}


def effective(opts_kind, chosen):
    if opts_kind == "default":
        return list(gen.DEFAULT_STYLES)
    if opts_kind == "only":
        return list(chosen)
    if opts_kind == "exclude":
        return [s for s in gen.DEFAULT_STYLES if s not in chosen]
    if opts_kind == "exclude+include":
        # chosen = (excluded, included): first the defaults without the excluded styles, then the included ones are added
        ex, inc = chosen
        base = [s for s in gen.DEFAULT_STYLES if s not in ex]
        return base + [s for s in inc if s not in base]
    return list(gen.DEFAULT_STYLES) + [s for s in chosen if s not in gen.DEFAULT_STYLES]


def contract_stream(R, g, fails, dis, stats):
    """(a) the constraint model (Model/Constraints.v over the translated table) against case_constraints.rs;
       (b) the resolver's contract: whatever it picks for an ambiguous match is a style the matched text can have"""
    hp, hlog = core.build_harness()
    mp, mlog = core.build_model()
    if hp is None or mp is None:
        dis.append({"why": "harness or model driver does not build", "log": (hlog + mlog)[-800:]})
        return
    H, M = core.Harness([str(hp)]), core.Model([str(mp)])
    r = g.r
    extra = ["api", "API", "Id", "ID", "x", "X", "a1", "HTTPServer", "2FA", "oAuth", "s"]
    n = 400 if R.tier == "quick" else 20000
    for i in range(n):
        a = g.words(1, 3)
        k = r.randrange(6)
        if k == 0:
            t = gen.render(a, r.choice(gen.STYLES14))
        elif k == 1:
            t = r.choice(["_", "-", " ", ".", "__"]).join(r.choice([w, w.upper(), gen.cap(w), r.choice(extra)]) for w in a)
        elif k == 2:
            t = "".join(r.choice([w, w.upper(), gen.cap(w)]) for w in a)
        elif k == 3:
            t = r.choice(extra) + r.choice(["", "_", " "]) + r.choice(a)
        else:
            t = r.choice([a[0], a[0].upper(), gen.cap(a[0])])
        real = H.ask({"op": "constraints", "s": core.hx(t)})
        m = M.ask("compatible_styles", t.encode(), gen.STYLES14)
        stats["constraint_cases"] += 1
        R.case(("constraints", t), nontrivial=True)
        if "ok" not in real or sorted(real["ok"]["compatible"]) != sorted(m if isinstance(m, list) else []):
            dis.append({"why": "constraint model differs from case_constraints.rs", "text": t, "real": real.get("ok"), "model": m})
        if i % 2 == 0:
            b = g.words(1, 3, avoid=a)
            rep = gen.render(b, r.choice(gen.STYLES14))
            pre = r.choice(["let ", "fn ", "class ", "const ", "def ", "export ", "# ", "", "  ", "struct ", "type "])
            line = pre + t + r.choice([" = 1;", "()", "", " {", ": int"])
            res = H.ask({"op": "resolve", "matched": core.hx(t), "replacement": core.hx(rep),
                         "file": core.hx(r.choice(["a.rs", "b.py", "c.js", "d.rb", "e.go", "f.txt", "g.md", ".env", "Makefile", "h.java", "i.ts"])),
                         "content": core.hx(line + "\nfoo_bar baz_qux\nanotherThing moreStuff\n"), "line": core.hx(line), "column": len(pre)})
            stats["resolver_cases"] += 1
            o = res.get("ok")
            if o is None:
                fails.append({"why": "the ambiguity resolver panicked: " + str(res)[:200], "matched": t, "replacement": rep, "line": line})
            elif o["some_compatible"] and not o["compatible"]:
                fails.append({"why": f"the resolver chose {o['style']} ({o['method']}) for '{t}', a style that text cannot have: the contract the "
                                     "first-letter / all-upper theorems rest on is broken", "matched": t, "replacement": rep, "line": line})
    # the one fact the tail theorems assume about coercion::apply_coercion (an oracle of Model/HunkTail.v): once a leading
    # "__" / "_" is set aside, a container equal to the pattern up to ASCII case yields None
    for i in range(300 if R.tier == "quick" else 20000):
        a = g.words(1, 3)
        S = r.choice(gen.STYLES14)
        old = gen.render(a, S)
        cont = r.choice(["", "_", "__"]) + r.choice([old, old.upper(), old.lower(), gen.render(a, r.choice(gen.STYLES14)), old + "_x", "my_" + old])
        new = gen.render(g.words(1, 3), r.choice(gen.STYLES14))
        stripped = cont[2:] if cont.startswith("__") else cont[1:] if cont.startswith("_") else cont
        res = H.ask({"op": "apply_coercion", "container": core.hx(cont), "old": core.hx(old), "new": core.hx(new)})
        stats["coercion_oracle_cases"] = stats.get("coercion_oracle_cases", 0) + 1
        if stripped.lower() == old.lower():
            stats["coercion_oracle_premise_held"] = stats.get("coercion_oracle_premise_held", 0) + 1
            if res.get("ok") != "none":
                dis.append({"why": "apply_coercion answers Some for a container equal to the pattern: the hypothesis of the hunk-tail "
                                   "theorems about this oracle no longer holds", "container": cont, "old": old, "new": new, "real": res})
    H.close()
    M.close()
    # Model/HunkTail.v (the tail of scanner.rs::generate_hunks) against the real scanner, hunk by hunk; oracles answered by the real code
    env = dict(core.ENV, RN_HARNESS=str(hp), RN_ROCQ=str(core.ROCQ), RN_WORK=str(core.BUILD / "hunktail_work"))
    rc, out, dt = core.sh(["python3", str(core.VERIF / "lib" / "hunktail_difftest.py"), str(R.seed + 77), "150" if R.tier == "quick" else "2500"],
                          env=env, timeout=3000)
    m1 = __import__("re").search(r"compared (\d+) real hunks in (\d+) cases", out)
    m2 = __import__("re").search(r"DISAGREEMENTS: (\d+)", out)
    stats["hunk_tail_model"] = {"hunks_compared": int(m1.group(1)) if m1 else 0, "cases": int(m1.group(2)) if m1 else 0,
                                "disagreements": int(m2.group(1)) if m2 else None}
    if not m2 or not m1 or int(m1.group(1)) == 0:
        dis.append({"why": "the hunk-tail differential run did not complete", "log": out[-1500:]})
    elif int(m2.group(1)) > 0:
        dis.append({"why": "Model/HunkTail.v differs from scanner.rs::generate_hunks", "log": out[out.find("DISAGREEMENTS"):][:2500]})
    # the end-to-end theorems of Proofs/ScanFileP.v (C06_scan_file_standalone, C06_scan_file_disabled_untouched_word and the
    # computed instances for the other styles) replayed on the real scanner: their conclusions are what scan_tree must return
    rc, out, dt = core.sh(["python3", str(core.VERIF / "lib" / "scanfile_difftest.py"), str(R.seed + 21), "240" if R.tier == "quick" else "6000"],
                          env=env, timeout=3000)
    m3 = __import__("re").search(r"statement 1: (\d+) instances, mismatches (\d+); statement 2: (\d+) instances, mismatches (\d+); "
                                 r"statement 3: (\d+) disabled-style instances, with a match (\d+)", out)
    stats["scan_file_theorems_on_real_scanner"] = {"enhanced_standalone": int(m3.group(1)), "scan_file_standalone": int(m3.group(3)),
                                                   "disabled_untouched": int(m3.group(5))} if m3 else None
    if not m3 or int(m3.group(1)) == 0:
        dis.append({"why": "the scan-file replay did not complete", "log": out[-1500:]})
    elif rc != 0:
        ln = [l for l in out.splitlines() if "MISMATCH" in l or "WITNESS" in l]
        fails.append({"why": "the real scanner contradicts the conclusion of a Proofs/ScanFileP.v theorem on an instance of its hypotheses",
                      "instances": ln[:5]})


def typed_pairs_stream(R, g, fails, stats):
    """EVERY way of typing the two terms (12 x 12 visible styles) against a file that holds the search term once in each visible style,
    with and without --ignore-ambiguous: a multi-word occurrence in a visible style is not ambiguous, so each line is rewritten in its
    own style whatever style the replacement was typed in (the resolver prefers the typed style of the replacement only among styles
    the occurrence can have)."""
    hp, _ = core.build_harness()
    H = core.Harness([str(hp)])
    a, b = g.term_pair()
    lines = [(st, gen.render(a, st)) for st in gen.VISIBLE]
    content = "".join(f"[{txt}]\n" for _, txt in lines).encode()
    tree = [{"p": "all_styles.txt", "k": "f", "c": content, "m": 0o644}]
    tj = cli.tree_json(tree)
    styles = list(gen.VISIBLE)
    n = 0
    for t0 in gen.VISIBLE:
        for t1 in gen.VISIBLE:
            for ign in (False, True):
                if ign and (gen.VISIBLE.index(t0) + gen.VISIBLE.index(t1)) % 4:
                    continue
                search, replace = gen.render(a, t0), gen.render(b, t1)
                sr = H.ask({"op": "scan_tree", "tree": tj, "search": core.hx(search), "replace": core.hx(replace),
                            "options": {"styles": styles, "rename_files": False, "rename_dirs": False, "ignore_ambiguous": ign}})
                if not sr.get("ok"):
                    fails.append({"why": "planner failed: " + str(sr)[:200], "search": search, "replace": replace})
                    continue
                ar = H.ask({"op": "apply_tree", "tree": tj, "plan": sr["plan"]})
                got = al.harness_tree_dict(ar["tree"])["all_styles.txt"][2].decode("utf-8", "replace").split("\n") if "tree" in ar else []
                n += 1
                R.case(("typed_pair", t0, t1, ign), nontrivial=True)
                for (st, txt), g_line in zip(lines, got):
                    want = f"[{gen.render(b, st)}]"
                    if g_line != want:
                        fails.append({"why": f"the {st} occurrence '{txt}' became '{g_line}' instead of '{want}' with the terms typed as "
                                             f"'{search}' -> '{replace}'" + (" and --ignore-ambiguous" if ign else ""),
                                      "tree": tj, "search": search, "replace": replace, "ignore_ambiguous": ign, "styles": styles})
                        break
                if len(fails) > 3:
                    break
    stats["typed_pair_runs"] = n
    H.close()


def run(R):
    R.trusted += ["Coq 8.16.1 kernel", "translators gen_styles.py", "Python reference renderer (independent oracle)", "the real CLI (rename)"]
    proved = R.prove()
    g = gen.G(R.seed * 40503 + 6)
    r = g.r
    quick = R.tier == "quick"
    fails, dis = [], []
    stats = {"constraint_cases": 0, "resolver_cases": 0, "runs": 0, "lines": 0, "by_family": {}, "expected_changed": 0, "expected_untouched": 0, "ambiguous_checked": 0, "none_left_checked": 0}
    nterms = 3 if quick else int(__import__("os").environ.get("C06_TERMS", "60"))
    for ti in range(nterms):
        a, b = g.term_pair()
        st_s, st_r = gen.VISIBLE[(ti * 5 + R.seed) % len(gen.VISIBLE)], r.choice(gen.VISIBLE)
        search, replace = gen.render(a, st_s), gen.render(b, st_r)
        families = [("default", [])]
        k = r.randint(2, 4)
        families.append(("only", r.sample(gen.STYLES14, k)))
        families.append(("exclude", r.sample(gen.DEFAULT_STYLES, r.randint(1, 5))))
        families.append(("include", r.sample(["Dot", "LowerFlat", "UpperFlat"], r.randint(1, 3))))
        # both options at once, with a style that is excluded and re-included
        both_ex = r.sample(gen.DEFAULT_STYLES, r.randint(2, 5))
        both_inc = [r.choice(both_ex)] + r.sample(["Dot", "LowerFlat", "UpperFlat"], r.randint(0, 2))
        families.append(("exclude+include", (both_ex, both_inc)))
        if quick:
            families = [families[0], families[1 + ti % 3], families[4]]
        if ti % 3 == 0:
            families.append(("exclude", list(gen.DEFAULT_STYLES)))      # every style disabled: nothing may change
        # exactly one enabled style, with the term typed in each kind of style (separator, hump, space)
        single = r.choice(gen.VISIBLE)
        runs = [(kind, chosen, search) for kind, chosen in families]
        for typed in (["Snake", "Camel", "Title"] if quick else ["Snake", "Kebab", "Camel", "Pascal", "Title", "Sentence", "LowerSentence", "Dot"]):
            runs.append(("only", [single if typed != "Snake" else r.choice(gen.VISIBLE)], gen.render(a, typed)))
        for kind, chosen, search in runs:
            eff = effective(kind, chosen)
            opts = []
            if kind == "exclude+include":
                opts = ["--exclude-styles", ",".join(gen.CLI_STYLE[s] for s in chosen[0]), "--include-styles", ",".join(gen.CLI_STYLE[s] for s in chosen[1])]
            elif kind != "default":
                opts = ["--" + kind + "-styles", ",".join(gen.CLI_STYLE[s] for s in chosen)]
            lines, meta = [], []
            for S in gen.STYLES14:
                for (dl, dr) in CONTEXTS:
                    if "Dot" in eff and "." in dl + dr and S != "Dot":
                        continue        # with dot.case enabled a '.' is a separator, not a neutral delimiter
                    occ = gen.render(a, S)
                    lines.append(dl + occ + dr)
                    meta.append((S, dl, dr))
            # the same occurrence once more, but EARLIER on the line the same text sits inside a longer identifier
            # (my_OldName OldName): the standalone occurrence at the end is still a standalone occurrence
            shadow_at = len(lines)
            for S in gen.STYLES14:
                if S in FLAT or S in SPACEY:
                    continue
                occ = gen.render(a, S)
                for pre in ("my_", "x-", "Pre", "v2_"):
                    lines.append(pre + occ + " " + occ + ";")
                    meta.append((S, "SHADOW", pre))
            tree = [{"p": "f.txt", "k": "f", "c": ("\n".join(lines) + "\n").encode(), "m": 0o644}]
            with cli.Sandbox(tree) as sb:
                # the two command paths build their style lists separately (operations/rename.rs, operations/plan.rs): alternate
                via_plan = (stats["runs"] % 2 == 1)
                if via_plan:
                    rc, o, e = sb.run(["--no-auto-init", "plan", search, replace, "--no-rename-paths", "--quiet"] + opts)
                    if rc == 0:
                        rc, o, e = sb.run(["--no-auto-init", "-y", "apply"])
                        if rc != 0 and b"No plan" in e + o:
                            rc = 0      # nothing matched: no plan was written
                    stats["via_plan_apply"] = stats.get("via_plan_apply", 0) + 1
                else:
                    rc, o, e = sb.run(["--no-auto-init", "-y", "rename", search, replace, "--no-rename-paths"] + opts)
                got = (sb.root / "f.txt").read_bytes().decode("utf-8", "replace").split("\n")
                stats["runs"] += 1
                stats["by_family"][kind] = stats["by_family"].get(kind, 0) + 1
                if rc != 0 and not eff:
                    # an empty selection is rejected; what matters is that nothing was rewritten
                    if got != lines + [""]:
                        fails.append({"why": "every style is excluded, the command failed, but the file changed", "search": search, "replace": replace, "opts": opts})
                    stats["expected_untouched"] += len(lines)
                    continue
                if rc != 0:
                    fails.append({"why": f"rename failed ({kind} {chosen}): " + e.decode("utf-8", "replace")[-200:], "search": search, "replace": replace, "opts": opts})
                    continue
                for (S, dl, dr), l0, l1 in zip(meta, lines, got):
                    stats["lines"] += 1
                    R.case((search, replace, kind, tuple(chosen), S, dl, dr), nontrivial=True)
                    ctx = {"search": search, "replace": replace, "opts": opts, "style": S, "line": l0, "got": l1, "family": kind, "chosen": chosen}
                    if dl == "SHADOW":
                        stats["shadowed_checked"] = stats.get("shadowed_checked", 0) + 1
                        tail_want = " " + (gen.render(b, S) if S in eff else gen.render(a, S)) + ";"
                        if not l1.endswith(tail_want):
                            fails.append({"why": f"the standalone {S} occurrence at the end of {l0!r} became {l1!r}: expected the line to end in "
                                                 f"{tail_want!r} ({kind} {chosen})", "expected_tail": tail_want, **ctx})
                        continue
                    if S in FLAT:
                        # genuinely ambiguous: whatever is chosen keeps the first-letter case; all-upper stays all upper
                        if l1 != l0:
                            stats["ambiguous_checked"] += 1
                            mid = l1[len(dl):len(l1) - len(dr)] if dr else l1[len(dl):]
                            occ = gen.render(a, S)
                            letters = [c for c in mid if c.isalpha()]
                            if not l1.startswith(dl) or not l1.endswith(dr) or not letters:
                                fails.append({"why": f"{S} occurrence: the context of the match changed", **ctx})
                            elif occ[0].isupper() != letters[0].isupper():
                                fails.append({"why": f"{S} occurrence '{occ}' -> '{mid}': the first letter changed case", **ctx})
                            elif occ.isupper() and not all(c.isupper() for c in letters):
                                fails.append({"why": f"{S} occurrence '{occ}' -> '{mid}': an all-upper-case match did not stay all upper case", **ctx})
                            elif S not in eff:
                                fails.append({"why": f"{S} is disabled but its occurrence was rewritten", **ctx})
                        continue
                    if S in eff:
                        stats["expected_changed"] += 1
                        want = dl + gen.render(b, S) + dr
                        if l1 != want:
                            fails.append({"why": f"{S} occurrence in context {dl!r}..{dr!r} became {l1!r} instead of {want!r} ({kind} {chosen})", "expected": want, **ctx})
                    else:
                        stats["expected_untouched"] += 1
                        if l1 != l0:
                            fails.append({"why": f"{S} is disabled ({kind} {chosen}) but its occurrence {l0!r} became {l1!r}", **ctx})
                    if len(R.coverage["samples"]) < 5 and r.random() < 0.003:
                        R.sample({"style": S, "line": l0, "after": l1, "family": kind, "styles": chosen})
                # afterwards no occurrence in an enabled visible style remains (unless the replacement contains the term)
                if not any(w in b for w in a):
                    rc2, o2, e2 = sb.run(["--no-auto-init", "-y", "search", search, "--output", "json"] + ([] if kind == "default" else opts))
                    stats["none_left_checked"] += 1
                    try:
                        doc = json.loads(o2)
                        left = [m for m in doc["plan"]["matches"] if not any(m["content"] == gen.render(a, S) for S in gen.STYLES14 if S not in eff)]
                        left = [m for m in left if m["content"].lower().replace("_", "").replace("-", "").replace(" ", "").replace(".", "") == "".join(a)]
                    except Exception:
                        left = None
                    if left is None:
                        fails.append({"why": "search after the rename did not produce a document", "search": search})
                    else:
                        vis_left = [m["content"] for m in left if m["content"] in {gen.render(a, S) for S in eff if S not in FLAT}]
                        if vis_left:
                            fails.append({"why": f"occurrences in an enabled style remain after the rename: {vis_left[:4]}", "search": search, "replace": replace, "opts": opts})
    contract_stream(R, g, fails, dis, stats)
    typed_pairs_stream(R, g, fails, stats)
    R.coverage["input_distribution"] = stats
    R.disagreements = len(dis)
    if stats["lines"] == 0 or stats["expected_changed"] == 0:
        fails.append({"why": "nothing was checked: the check is vacuous"})
    for f in fails[:3]:
        R.violation(f["why"], {"kind": "impl_failure", **f})
    if fails:
        return
    if not proved:
        R.violation("proof obligation of Props/C06.v no longer checks (every occurrence was rewritten as expected)",
                    {"kind": "proof_broken", **getattr(R, "broken", {})}, has_input=False)
    elif dis:
        R.violation("constraint model / case_constraints.rs correspondence broke (every occurrence was rewritten as expected)",
                    {"kind": "correspondence", "first": dis[:4], "count": len(dis)}, has_input=False)


def replay(R, obj):
    print(json.dumps(obj, indent=1, default=str)[:2500])
    if "line" in obj and "search" in obj:
        tree = [{"p": "f.txt", "k": "f", "c": (obj["line"] + "\n").encode(), "m": 0o644}]
        with cli.Sandbox(tree) as sb:
            sb.run(["--no-auto-init", "-y", "rename", obj["search"], obj["replace"], "--no-rename-paths"] + obj.get("opts", []))
            got = (sb.root / "f.txt").read_text().rstrip("\n")
        print("now:", repr(got), "| expected:", repr(obj.get("expected")))
        return 0 if obj.get("expected") is not None and got == obj["expected"] else 1
    return 1
