"""C19 — Machine-readable output is one well-formed, schema-conformant document."""
import json
import random

import core
import cli
import gen
from props import c17

LEVEL = "proof"
EXPLANATION = ("Proved (Props/C19.v): a meta-theorem over a generic model of serde's derive(Serialize) — for ALL Rust type "
               "tables, TypeScript type tables, types and values, if the syntactic check `compat` accepts a Rust type against a "
               "TypeScript type then every value the encoder writes conforms to that TypeScript type — instantiated on the tables "
               "regenerated on every run from the Rust sources (structs with their serde attributes, enums with rename_all, the "
               "json! envelopes of output.rs::format_json) and from renamify-core/bindings/*.d.ts: every serialised Plan (and so "
               "the `plan` member of the search / plan / rename documents and the replace document) conforms to the published "
               "Plan / MatchHunk / Rename / Stats / Style / RenameKind bindings, and the plan and rename envelopes carry what the "
               "VS Code extension reads. Tie: the generic encoder is run against serde_json and against C17's encoder on generated "
               "plans; the extracted `conforms` judges the real documents of the CLI. The stdout / stderr / exit-status discipline "
               "cannot be a theorem about this model: it is searched — every command x scenarios (matches, none, renames, search "
               "mode, dry-run, quiet, previews, first-run auto-init, failures) must write exactly one JSON document to standard "
               "output when it succeeds and exit 0 exactly when the operation was performed.")
ASSUMPTIONS = ["serde_json's text layer (escaping, number syntax) is trusted", "translators gen_shapes.py (Rust structs / json! templates / .d.ts) trusted; "
               "it refuses constructs it does not model and the envelope keys are cross-checked against real documents",
               "the I/O discipline and exit status are established by search over scenarios, not by proof"]


def jsx(v):
    """python JSON value -> model sexp"""
    if v is None:
        return "null"
    if isinstance(v, bool):
        return ["b", v]
    if isinstance(v, int):
        return ["n", v]
    if isinstance(v, float):
        return ["n", int(v)]
    if isinstance(v, str):
        return ["s", v.encode("utf-8")]
    if isinstance(v, list):
        return ["a"] + [jsx(x) for x in v]
    return ["o"] + [[k.encode("utf-8"), jsx(x)] for k, x in v.items()]


def one_doc(out):
    """stdout is exactly one JSON document (json.loads rejects trailing data) -> (doc, None) or (None, why)"""
    try:
        txt = out.decode("utf-8")
    except UnicodeDecodeError:
        return None, "stdout is not UTF-8"
    if not txt.strip():
        return None, "stdout is empty"
    try:
        return json.loads(txt), None
    except Exception as e:
        return None, f"stdout is not one JSON document ({str(e)[:60]})"


def enc_tie(R, H, M, g, fails, dis, stats):
    n = 150 if R.tier == "quick" else 4000
    for i in range(n):
        p = c17.rand_plan(g, force_empty=(i % 5 == 0))
        ok, r = c17.oracle_impl(H, p)
        if "t1" not in r:
            continue
        real = c17.loads_ordered(r["t1"])
        m = M.ask("enc_plan_generic", c17.plan_sx(p))
        stats["enc_cases"] += 1
        R.case(("enc", i), nontrivial=True)
        if not isinstance(m, list) or m[0] != "some":
            dis.append({"why": "generic encoder fails on a plan", "plan": p, "model": repr(m)[:200]})
            continue
        mj = c17.json_of_sx(m[1])
        if mj != real:
            dis.append({"why": "generic encoder (translated tables) differs from serde_json", "plan": p,
                        "model": repr(mj)[:400], "real": repr(real)[:400]})
            continue
        doc = json.loads(r["t1"])
        if M.ask("conforms_named", b"Plan", jsx(doc)) != "true":
            fails.append({"why": "a serialised plan does not conform to the published Plan binding", "plan": p, "json": r["t1"][:1500]})
        # non-vacuity of the judge: a damaged document must be rejected
        bad = json.loads(r["t1"])
        k = i % 4
        if k == 0:
            bad.pop("stats", None)
        elif k == 1:
            bad["matches"] = "none"
        elif k == 2:
            bad["styles"] = ["NoSuchStyle"]
        else:
            bad["paths"] = [{"path": 1}]
        if M.ask("conforms_named", b"Plan", jsx(bad)) != "false":
            dis.append({"why": "the conformance judge accepts a damaged plan document", "damage": k})
        stats["judge_negative"] += 1


SCEN_TREE = lambda s: [
    {"p": "a.txt", "k": "f", "c": (s + " x\nline two " + s + "\n").encode(), "m": 0o644},
    {"p": s + "_dir", "k": "d", "m": 0o755},
    {"p": s + "_dir/f.rs", "k": "f", "c": ("fn " + s + "() {}\n").encode(), "m": 0o644},
    {"p": "other.md", "k": "f", "c": b"nothing here\n", "m": 0o644}]


def run(R):
    R.trusted += ["Coq 8.16.1 kernel + vm_compute", "translators/gen_shapes.py", "serde_json text layer", "harness plan_roundtrip",
                  "ExtrOcamlBasic extraction + ocaml/modelrun.ml", "the scenario search for the I/O discipline"]
    proved = R.prove()
    hp, hlog = core.build_harness()
    mp, mlog = core.build_model()
    if hp is None or mp is None:
        R.violation("harness or model driver does not build", {"log": (hlog + mlog)[-3000:]}, has_input=False)
        return
    H, M = core.Harness([str(hp)]), core.Model([str(mp)])
    g = gen.G(R.seed * 48271 + 19)
    r = g.r
    fails, dis = [], []
    stats = {"enc_cases": 0, "judge_negative": 0, "cli_runs": 0, "by_command": {}, "failing_runs": 0, "documents": 0}
    enc_tie(R, H, M, g, fails, dis, stats)
    # compat on the current tables, as the theorems state it
    for rn, tn in ((b"Plan", b"Plan"), (b"MatchHunk", b"MatchHunk"), (b"Rename", b"Rename"), (b"Stats", b"Stats")):
        if M.ask("compat_named", rn, tn) != "true":
            dis.append({"why": f"compat {rn.decode()} / binding {tn.decode()} is false on the current tables"})
    keys = {}
    for env in ("PlanResult.json", "RenameResult.json", "ApplyResult.json", "UndoResult.json", "RedoResult.json", "StatusResult.json",
                "HistoryResult.json", "VersionResult.json"):
        ks = M.ask("rdef_keys", env.encode())
        keys[env] = {core.atom_bytes(k).decode(): (b == "true") for k, b in ks} if isinstance(ks, list) else {}

    def run_cmd(sb, args, env_name, label, expect_fail=False, plan_required=False, globals_=("--no-auto-init", "-y"), either=False, cwd=None):
        rc, o, e = sb.run(list(globals_) + args, cwd=cwd)
        stats["cli_runs"] += 1
        stats["by_command"][label] = stats["by_command"].get(label, 0) + 1
        R.case((label, tuple(args)), nontrivial=True)
        ctx = {"args": [a if isinstance(a, str) else repr(a) for a in list(globals_) + args], "label": label, "exit": rc, "stdout": o[:400].decode("utf-8", "replace"),
               "stderr": e[-300:].decode("utf-8", "replace")}
        doc, why = one_doc(o)
        if rc not in (0, 1, 2, 3, 130) or b"panicked at" in e:
            fails.append({"why": f"{label}: the command died (exit {rc}) instead of reporting success or failure: no document, undocumented status", **ctx})
            return rc, None
        if rc != 0:
            stats["failing_runs"] += 1
            if not expect_fail and not either:
                fails.append({"why": f"{label}: unexpected failure (exit {rc})", **ctx})
            if o.strip() == b"":
                R.known("failed_command_writes_no_document", f"{label}: exit {rc}, standard output empty")
            elif doc is None:
                fails.append({"why": f"{label}: failed command wrote something that is not one JSON document to standard output", **ctx})
            elif isinstance(doc, dict) and doc.get("success") is True:
                fails.append({"why": f"{label}: exit {rc} but the document says success", **ctx})
            return rc, None
        if expect_fail and not either:
            fails.append({"why": f"{label}: exit 0 although the operation cannot have succeeded", **ctx})
            return rc, doc
        if doc is None:
            fails.append({"why": f"{label}: {why}", **ctx})
            return rc, None
        stats["documents"] += 1
        if len(R.coverage["samples"]) < 4 and r.random() < 0.2:
            R.sample({"args": args, "exit": rc, "keys": sorted(doc.keys()) if isinstance(doc, dict) else "array"})
        if isinstance(doc, dict) and doc.get("success") is False:
            fails.append({"why": f"{label}: exit 0 but the document says success=false", **ctx})
        if env_name == "Plan":
            if M.ask("conforms_named", b"Plan", jsx(doc)) != "true":
                fails.append({"why": f"{label}: the document does not conform to the Plan binding", **ctx})
            return rc, doc
        if env_name:
            # envelope translation tie: the keys of the real document are the fields of the translated template
            want = keys.get(env_name, {})
            if isinstance(doc, dict) and want:
                missing = [k for k, always in want.items() if always and k not in doc]
                extra = [k for k in doc if k not in want]
                if missing or extra:
                    dis.append({"why": f"{label}: document keys differ from the translated template of {env_name}", "missing": missing, "extra": extra})
            v = M.ask("conforms_expect", env_name.encode(), jsx(doc))
            if isinstance(v, list) and v[0] == "some" and v[1] != "true":
                if env_name == "HistoryResult.json":
                    R.known("history_document_is_not_historyentry_array", f"{label}: {{entries: HistoryItem[]}} where the extension parses HistoryEntry[]")
                elif env_name == "StatusResult.json":
                    R.known("status_document_is_not_status_type", f"{label}: pending_plan / last_operation (string|null) where the extension expects current_plan?: Plan, last_operation?: HistoryEntry")
                else:
                    fails.append({"why": f"{label}: the document does not have the shape the consumers read ({env_name})", **ctx})
            if plan_required and (not isinstance(doc, dict) or not isinstance(doc.get("plan"), dict)):
                fails.append({"why": f"{label}: the document carries no plan", **ctx})
            if isinstance(doc, dict) and isinstance(doc.get("plan"), dict):
                if M.ask("conforms_named", b"Plan", jsx(doc["plan"])) != "true":
                    fails.append({"why": f"{label}: the plan member does not conform to the Plan binding", **ctx})
        return rc, doc

    nscen = 2 if R.tier == "quick" else 25
    for i in range(nscen):
        a, b2 = g.term_pair()
        s, t = gen.render(a, "Snake"), gen.render(b2, "Snake")
        tree = SCEN_TREE(s)
        extra_opts = [[], ["--quiet"], ["--dry-run"], ["--preview", "diff"], ["--preview", "table"], ["--dry-run", "--quiet"]]
        with cli.Sandbox(tree) as sb:
            for eo in extra_opts:
                no_dry = [x for x in eo if x != "--dry-run"]
                run_cmd(sb, ["search", s, "--output", "json"] + [x for x in no_dry if x not in ("diff",) and x != "--preview" and x != "table"], "PlanResult.json", "search", plan_required=True)
                run_cmd(sb, ["plan", s, t, "--output", "json"] + eo, "PlanResult.json", "plan " + " ".join(eo), plan_required=True)
            run_cmd(sb, ["search", "zz_" + s + "_none", "--output", "json"], "PlanResult.json", "search (no match)", plan_required=True)
            run_cmd(sb, ["plan", "zz_" + s, "yy", "--output", "json"], "PlanResult.json", "plan (no match)", plan_required=True)
            run_cmd(sb, ["status", "--output", "json"], "StatusResult.json", "status (fresh)")
            run_cmd(sb, ["history", "--output", "json"], "HistoryResult.json", "history (empty)")
            run_cmd(sb, ["plan", s, t, "--output", "json"], "PlanResult.json", "plan", plan_required=True)
            before = sb.snapshot()
            rc, doc = run_cmd(sb, ["apply", "--output", "json"], "ApplyResult.json", "apply")
            if rc == 0 and sb.snapshot() == before:
                fails.append({"why": "apply: exit 0 but the tree is unchanged", "search": s, "replace": t})
            run_cmd(sb, ["apply", "--output", "json"], "ApplyResult.json", "apply (no plan)", expect_fail=True)
            run_cmd(sb, ["status", "--output", "json"], "StatusResult.json", "status")
            run_cmd(sb, ["history", "--output", "json"], "HistoryResult.json", "history")
            run_cmd(sb, ["history", "--limit", "1", "--output", "json"], "HistoryResult.json", "history --limit")
            applied = sb.snapshot()
            rc, doc = run_cmd(sb, ["undo", "latest", "--output", "json"], "UndoResult.json", "undo")
            if rc == 0 and sb.snapshot() != before:
                fails.append({"why": "undo: exit 0 but the tree is not the one before the apply", "search": s, "replace": t})
            rc, doc = run_cmd(sb, ["redo", "latest", "--output", "json"], "RedoResult.json", "redo")
            if rc == 0 and sb.snapshot() != applied:
                fails.append({"why": "redo: exit 0 but the tree is not the applied one", "search": s, "replace": t})
            run_cmd(sb, ["undo", "no_such_id", "--output", "json"], "UndoResult.json", "undo (unknown id)", expect_fail=True)
            run_cmd(sb, ["redo", "no_such_id", "--output", "json"], "RedoResult.json", "redo (unknown id)", expect_fail=True)
            run_cmd(sb, ["version", "--output", "json"], "VersionResult.json", "version")
        with cli.Sandbox(tree) as sb:
            before = sb.snapshot()
            for eo in ([], ["--quiet"], ["--preview", "diff"], ["--preview", "none"]):
                run_cmd(sb, ["rename", s, t, "--dry-run", "--output", "json"] + eo, "RenameResult.json", "rename --dry-run " + " ".join(eo), plan_required=True)
            if sb.snapshot() != before:
                fails.append({"why": "rename --dry-run --output json changed the tree"})
            rc, doc = run_cmd(sb, ["rename", s, t, "--output", "json"] + r.choice([[], ["--quiet"], ["--preview", "table"]]), "RenameResult.json", "rename", plan_required=True)
            if rc == 0 and sb.snapshot() == before:
                fails.append({"why": "rename: exit 0 but the tree is unchanged", "search": s, "replace": t})
            run_cmd(sb, ["rename", "zz_" + s, "yy", "--output", "json"], "RenameResult.json", "rename (no match)")
            mid = sb.snapshot()
            word = t.split("_")[0]
            rc, doc = run_cmd(sb, ["replace", "--no-regex", word, word + "q", "--output", "json"] + r.choice([[], ["--quiet"]]), "Plan", "replace")
            if rc == 0 and isinstance(doc, dict) and doc.get("matches") and sb.snapshot() == mid:
                fails.append({"why": "replace --output json: exit 0 and matches reported, but nothing was replaced", "pattern": word})
            mid = sb.snapshot()
            # every combination of --quiet / --dry-run / --preview with --output json still writes the document
            for eo in (["--dry-run"], ["--dry-run", "--quiet"], ["--quiet", "--dry-run", "--preview", "diff"], ["--dry-run", "--preview", "none"]):
                run_cmd(sb, ["replace", "--no-regex", word, word + "z", "--output", "json"] + eo, "Plan", "replace " + " ".join(eo))
                run_cmd(sb, ["replace", "--no-regex", "zz_no_such_text", "y", "--output", "json"] + eo, "Plan", "replace (no match) " + " ".join(eo))
            if sb.snapshot() != mid:
                fails.append({"why": "replace --dry-run --output json changed the tree"})
            run_cmd(sb, ["replace", "(", "x", "--output", "json"], "Plan", "replace (invalid regex)", expect_fail=True)
            # a stale plan: the file changes between plan and apply
            run_cmd(sb, ["plan", word + "q", "fresh_word", "--output", "json"], "PlanResult.json", "plan", plan_required=True)
            for p in sb.root.rglob("*"):
                if p.is_file() and ".renamify" not in p.parts and (word + "q").encode() in p.read_bytes():
                    p.write_bytes(b"completely different\n")
            run_cmd(sb, ["apply", "--output", "json"], "ApplyResult.json", "apply (stale plan)", expect_fail=True)
        # first run with auto-init: the notice must not reach standard output
        with cli.Sandbox(tree + [{"p": ".gitignore", "k": "f", "c": b"target/\n", "m": 0o644}]) as sb:
            run_cmd(sb, ["plan", s, t, "--dry-run", "--output", "json"], "PlanResult.json", "plan (auto-init)", plan_required=True, globals_=("-y",))
            run_cmd(sb, ["search", s, "--output", "json"], "PlanResult.json", "search (auto-init repo)", plan_required=True, globals_=("--auto-init", "repo", "-y"))
        # inside a git repository with --commit: the child git processes must not write to renamify's standard output
        with cli.Sandbox(tree) as sb:
            import subprocess as sp
            genv = dict(core.ENV, HOME=str(sb.dir), GIT_CONFIG_GLOBAL="/dev/null", GIT_CONFIG_NOSYSTEM="1")
            ok_git = True
            for cmd in (["git", "init", "-q"], ["git", "config", "user.email", "t@example.com"], ["git", "config", "user.name", "t"],
                        ["git", "config", "commit.gpgsign", "false"], ["git", "add", "-A"], ["git", "commit", "-q", "-m", "initial"]):
                ok_git = ok_git and sp.run(cmd, cwd=str(sb.root), env=genv, stdout=sp.DEVNULL, stderr=sp.DEVNULL).returncode == 0
            if ok_git:
                stats["git_commit_runs"] = stats.get("git_commit_runs", 0) + 1
                run_cmd(sb, ["rename", s, t, "--commit", "--output", "json"], "RenameResult.json", "rename --commit", plan_required=True)
                run_cmd(sb, ["plan", t, s, "--output", "json"], "PlanResult.json", "plan", plan_required=True)
                run_cmd(sb, ["apply", "--commit", "--output", "json"], "ApplyResult.json", "apply --commit")
                w0 = s.split("_")[0]
                run_cmd(sb, ["replace", "--no-regex", w0, w0 + "k", "--commit", "--output", "json"], "Plan", "replace --commit")
        # a search root whose own directory name matches the term: the "next step" hint about the root directory is a diagnostic
        with cli.Sandbox(tree + [{"p": s + "_root", "k": "d", "m": 0o755}, {"p": s + "_root/inner_" + s + ".txt", "k": "f", "c": (s + " x\n").encode(), "m": 0o644}]) as sb:
            for eo in ([], ["--quiet"], ["--preview", "none"]):
                run_cmd(sb, ["rename", s, t, s + "_root", "--dry-run", "--output", "json"] + eo, "RenameResult.json", "rename <root named with the term> --dry-run", plan_required=True)
            run_cmd(sb, ["rename", s, t, s + "_root", "--output", "json"], "RenameResult.json", "rename <root named with the term>", plan_required=True)
            run_cmd(sb, ["plan", t, s, s + "_root", "--output", "json"], "PlanResult.json", "plan <root named with the term>", plan_required=True)
            run_cmd(sb, ["search", t, s + "_root", "--output", "json"], "PlanResult.json", "search <root named with the term>", plan_required=True)
        # every planning / applying command x (pattern matches | matches nothing) x (dry run | for real) x (--quiet or not): exit 0
        # always comes with exactly one document - a run that finds nothing to do included
        nomatch = "zz_" + s + "_none"
        for base, envn in ((["rename"], "RenameResult.json"), (["replace", "--no-regex"], "Plan"), (["replace"], "Plan"),
                           (["plan"], "PlanResult.json"), (["search"], "PlanResult.json")):
            for pat in (s, nomatch):
                for dry in ((["--dry-run"], []) if base[0] not in ("search",) else ([],)):
                    for q in ([], ["--quiet"]):
                        with cli.Sandbox(tree) as sbm:
                            args = base + ([pat] if base[0] == "search" else [pat, t]) + dry + q + ["--output", "json"]
                            stats["matrix_runs"] = stats.get("matrix_runs", 0) + 1
                            run_cmd(sbm, args, envn, f"{' '.join(base)} ({'match' if pat == s else 'no match'}{', dry run' if dry else ''}{', quiet' if q else ''})",
                                    plan_required=envn != "Plan")
        # a workspace configuration that chooses another default preview: --output json still means one document and nothing else
        for pf in ("table", "diff", "matches", "summary", "none", "bogus"):
            with cli.Sandbox(tree) as sbc:
                (sbc.root / ".renamify").mkdir(exist_ok=True)
                (sbc.root / ".renamify" / "config.toml").write_text(f"[defaults]\npreview_format = \"{pf}\"\n")
                stats["config_preview_runs"] = stats.get("config_preview_runs", 0) + 1
                run_cmd(sbc, ["plan", s, t, "--dry-run", "--output", "json"], "PlanResult.json", f"plan --dry-run (config preview_format={pf})", plan_required=True)
                run_cmd(sbc, ["search", s, "--output", "json"], "PlanResult.json", f"search (config preview_format={pf})", plan_required=True)
                run_cmd(sbc, ["rename", s, t, "--dry-run", "--output", "json"], "RenameResult.json", f"rename --dry-run (config preview_format={pf})", plan_required=True)
                run_cmd(sbc, ["rename", s, t, "--output", "json"], "RenameResult.json", f"rename (config preview_format={pf})", plan_required=True)
        # damaged workspace state (a crash or a full disk truncated a file under .renamify, a merge left conflict markers, a hand edit):
        # whatever the command then does - recover with a warning or fail - standard output stays one document or empty
        damages = [("truncated", lambda b: b[:40]), ("empty", lambda b: b""), ("garbage", lambda b: b"\x00\xff not json"),
                   ("conflict markers", lambda b: b"<<<<<<< HEAD\n" + b + b"\n=======\n[]\n>>>>>>> other\n"),
                   ("entry missing a field", lambda b: b'[{"id": "abc"}]'), ("wrong type", lambda b: b'{"entries": 3}')]
        if R.tier == "quick":
            damages = [damages[(i + k) % len(damages)] for k in (0, 3)]
        for dname, dmg in damages:
            for target in ("history.json", "plan.json"):
                with cli.Sandbox(tree) as sb:
                    run_cmd(sb, ["rename", s, t, "--output", "json"], "RenameResult.json", "rename", plan_required=True)
                    run_cmd(sb, ["plan", t, s, "--output", "json"], "PlanResult.json", "plan", plan_required=True)
                    f = sb.root / ".renamify" / target
                    if not f.exists():
                        continue
                    orig = f.read_bytes()
                    stats["damaged_state_runs"] = stats.get("damaged_state_runs", 0) + 1
                    for cmd, envn in ((["status"], "StatusResult.json"), (["history"], "HistoryResult.json"), (["apply"], "ApplyResult.json"),
                                      (["undo", "latest"], "UndoResult.json"), (["redo", "latest"], "RedoResult.json"),
                                      (["rename", t, s], "RenameResult.json"), (["plan", s, t], "PlanResult.json")):
                        f.write_bytes(dmg(orig))
                        run_cmd(sb, cmd + ["--output", "json"], envn, f"{cmd[0]} ({target}: {dname})", either=True)
        # a working directory / a search root whose own name is not valid UTF-8 (legal on Linux): nothing below it can be written
        # into a JSON plan, so the document has to say so (no matches) or the command has to fail cleanly - never half a document
        import os as _os
        with cli.Sandbox(tree) as sb:
            rb = _os.fsencode(str(sb.root))
            for d in (rb + b"/w\xffork/src", rb + b"/plain/d\xfe"):
                _os.makedirs(d)
                with open(d + b"/a_" + s.encode() + b".txt", "wb") as fh:
                    fh.write((s + " in an oddly named place\n").encode())
            stats["non_utf8_root_runs"] = stats.get("non_utf8_root_runs", 0) + 1
            for cmd, envn in ((["search", s], "PlanResult.json"), (["plan", s, t, "--dry-run"], "PlanResult.json"),
                              (["rename", s, t, "--dry-run"], "RenameResult.json"), (["plan", s, t], "PlanResult.json")):
                run_cmd(sb, cmd + ["--output", "json"], envn, f"{cmd[0]} (working directory with a non-UTF-8 name)", either=True, cwd=rb + b"/w\xffork")
                run_cmd(sb, cmd + [b"d\xfe", "--output", "json"], envn, f"{cmd[0]} (search root with a non-UTF-8 name)", either=True, cwd=rb + b"/plain")
        # conflicting renames -> exit 1
        with cli.Sandbox(tree + [{"p": t + "_dir", "k": "d", "m": 0o755}]) as sb:
            run_cmd(sb, ["rename", s, t, "--output", "json"], "RenameResult.json", "rename (occupied destination)", expect_fail=True)
    H.close()
    M.close()
    R.coverage["input_distribution"] = stats
    R.disagreements = len(dis)
    if stats["documents"] == 0:
        fails.append({"why": "no document was produced: the check is vacuous"})
    for f in fails[:3]:
        R.violation(f["why"], {"kind": "impl_failure", **f})
    if fails:
        return
    if not proved:
        R.violation("proof obligation of Props/C19.v no longer checks (every real document conformed)",
                    {"kind": "proof_broken", **getattr(R, "broken", {})}, has_input=False)
    elif dis:
        R.violation("shape model / serde_json / CLI document correspondence broke (no non-conforming document found)",
                    {"kind": "correspondence", "first": dis[:4], "count": len(dis)}, has_input=False)


def replay(R, obj):
    print(json.dumps(obj, indent=1, default=str)[:3000])
    return 1
