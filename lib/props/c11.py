"""C11 — A crash at any instant leaves a consistent, usable workspace."""
import json
import re

import core
import cli
import gen
import inject
import applylib as al

LEVEL = "proof"
EXPLANATION = ("Theorems (Props/C11.v): in the apply model, for EVERY crash position k (the process is killed before its "
               "k-th mutating operation), the tree on disk is the result of a prefix of the fault-free operation sequence; "
               "the operation sequence only ever creates/writes/chmods private temp names and renames complete files into "
               "place (so a user path holds its complete old or complete new content), the lock protocol recovers from "
               "an orphaned lock and the lock file is never observable empty. The model's prefix states are compared with "
               "the real tree after SIGKILL injected (strace) at every mutating system call of apply / undo / redo, and "
               "the direct oracle checks the four clauses of the property on the surviving directory, including a real "
               "follow-up command. Partial: 'crash' = process death with the page cache intact; power loss and reordering "
               "of unsynced writes are not modelled; a kill in the middle of one write(2) is not produced.")
ASSUMPTIONS = ["strace inject semantics: SIGKILL on entry to the n-th call of the main thread",
               "process death only (page cache intact)", "POSIX rename atomicity"]

TMP = re.compile(r"\.PID\.renamify\.tmp$|\.lock\.\d+$|\.json\.tmp$")
# renamify's own probe artefacts (case-sensitivity test of apply.rs / undo.rs): not user files; a kill may leave one behind
PROBE = re.compile(r"(^|/)\.renamify_case_test$|(^|/)\.tmp[A-Za-z0-9]{6}(/|$)")


def norm(s):
    return {inject.normalise_tmp(k): v for k, v in s.items()}


def prepare(tree, search, replace, what):
    """sandbox brought to the state just before the command under test; returns (sb, args, old, new, plan)"""
    sb = cli.Sandbox(tree)
    # one of the edited files has a second name outside the tree (a config shared between two checkouts): whatever
    # happens to the file happens to that name too, and an in-place rewrite would show as a truncated file after a kill
    try:
        import os
        shared = sb.dir / "shared_outside"
        shared.mkdir(exist_ok=True)
        if (sb.root / "plain.txt").exists() and not (shared / "plain.txt").exists():
            os.link(sb.root / "plain.txt", shared / "plain.txt")
    except OSError:
        pass
    if what == "apply":
        rc, o, e = sb.run(["--no-auto-init", "plan", search, replace, "--quiet"])
        if rc != 0:
            sb.cleanup()
            return None
        args = ["--no-auto-init", "-y", "apply"]
    elif what == "undo":
        rc, o, e = sb.run(["--no-auto-init", "-y", "rename", search, replace])
        if rc != 0:
            sb.cleanup()
            return None
        args = ["--no-auto-init", "-y", "undo", "latest"]
    else:
        rc, o, e = sb.run(["--no-auto-init", "-y", "rename", search, replace])
        rc2, o2, e2 = sb.run(["--no-auto-init", "-y", "undo", "latest"])
        if rc != 0 or rc2 != 0:
            sb.cleanup()
            return None
        args = ["--no-auto-init", "-y", "redo", "latest"]
    return sb, args


def content_states(old, new):
    """for the oracle: every (hash) a user file may legitimately have, keyed by both its old and new path"""
    allowed = {}
    for snap in (old, new):
        for p, v in snap.items():
            if v[0] == "f":
                allowed.setdefault(v[2], set()).add(p)
    return allowed


def oracle(sb, old, new, hist_before, R, fmap=None):
    """the four clauses on the surviving directory; returns list of problems"""
    probs = []
    now = norm(sb.snapshot())
    old_files = {p: v for p, v in old.items() if v[0] in ("f", "l")}
    hashes_now = {}
    for p, v in now.items():
        if v[0] == "f":
            hashes_now.setdefault(v[2], []).append(p)
    legit = {v[2] for v in list(old.values()) + list(new.values()) if v[0] == "f"}
    # (a) every user file has complete old or complete new content
    for p, v in now.items():
        if v[0] != "f" or TMP.search(p) or PROBE.search(p):
            continue
        if v[2] not in legit:
            probs.append(f"file {p} has content that is neither its complete old nor its complete new content ({v[3]} bytes)")
        elif fmap:
            # ... and it is THIS file's old or new content, not some other file's
            owners = []
            for op, ov in old.items():
                if ov[0] != "f":
                    continue
                oc = op.split("/")
                nc = [fmap(c) for c in oc]
                qc = p.split("/")
                if len(qc) == len(oc) and all(c in (a, b) for c, a, b in zip(qc, oc, nc)):
                    owners.append((op, "/".join(nc)))
            if owners and not any(v[2] in {old[op][2], new.get(np, (None, None, None))[2]} for op, np in owners):
                probs.append(f"file {p} holds another file's content ({v[3]} bytes): neither its own old nor its own new content")
    # (b) no user file lost: each old file's old or new content is still somewhere
    old_by_hash = {}
    for p, v in old.items():
        if v[0] == "f":
            old_by_hash.setdefault(v[2], []).append(p)
    new_paths = set(new)
    for p, v in old_files.items():
        if v[0] == "l":
            if not any(w == v for w in now.values()):
                probs.append(f"symlink {p} lost")
            continue
        # the file must exist, complete, at its old path, at its new path, or (a directory above it being renamed at the
        # moment of the kill) at a mix of the two: every path component in its old or its new form
        np = "/".join(fmap(c) for c in p.split("/")) if fmap else None
        if np is not None and np in new and new[np][0] == "f":
            ok_hashes = {v[2], new[np][2]}
            pc, nc = p.split("/"), np.split("/")
            cands = [q for q, w in now.items() if w[0] == "f" and w[2] in ok_hashes and len(q.split("/")) == len(pc)
                     and all(c in (a, b) for c, a, b in zip(q.split("/"), pc, nc))]
        else:
            cands = [q for q, w in now.items() if w[0] == "f" and (q == p or q in new_paths) and w[2] in legit]
        if not cands:
            probs.append(f"file {p} lost")
    # (c) history parses and retains earlier entries
    h = sb.history()
    if h == "UNPARSABLE":
        probs.append("history.json no longer parses")
    elif hist_before and (h is None or h[:len(hist_before)] != hist_before):
        probs.append("earlier history entries lost")
    # (d) the next command is not blocked
    rc, o, e = sb.run(["--no-auto-init", "plan", "zzzz_nothing", "yyyy_nothing", "--dry-run", "--quiet"])
    rc2, o2, e2 = sb.run(["--no-auto-init", "plan", "zzzz_nothing", "yyyy_nothing", "--quiet"])
    if rc != 0 or rc2 != 0:
        probs.append(f"next command blocked: plan --dry-run rc={rc}, plan rc={rc2}: {e2.decode('utf-8', 'replace')[-200:]}")
    return probs


def scenario(g, i):
    a, b = g.term_pair()
    if i % 3 == 2:
        # a rename that only changes the case of names (fooBar -> foobar): apply.rs has a two-step path for it
        s, t = gen.render(a, "Camel"), gen.render(a, "LowerFlat")
        tree = [{"p": "src", "k": "d", "m": 0o755}, {"p": "src/" + s + ".txt", "k": "f", "c": (s + " one\n").encode(), "m": 0o644},
                {"p": s + "_dir", "k": "d", "m": 0o755}, {"p": s + "_dir/inner.txt", "k": "f", "c": b"plain\n", "m": 0o600},
                {"p": "keep.txt", "k": "f", "c": b"untouched\n", "m": 0o644}]
        return tree, s, t
    s = gen.render(a, "Snake")
    tree = [{"p": "a_" + s + ".txt", "k": "f", "c": (s + " one\nline two " + s + "\n").encode(), "m": 0o644},
            {"p": "plain.txt", "k": "f", "c": ("x " + s + " y\n").encode(), "m": [0o600, 0o444, 0o640, 0o400][i % 4]},
            # a file without write permission takes its own path through the temp-file replacement on some platforms
            {"p": "ro_" + s + ".cfg", "k": "f", "c": (s + " = 1\n").encode(), "m": [0o444, 0o555][i % 2]},
            {"p": "keep.txt", "k": "f", "c": b"untouched\n", "m": 0o644}]
    if i % 2 == 0:
        tree += [{"p": s + "_dir", "k": "d", "m": 0o755},
                 {"p": s + "_dir/" + s + "_in.rs", "k": "f", "c": ("fn " + s + "() {}\n").encode(), "m": 0o755},
                 {"p": s + "_dir/other.txt", "k": "f", "c": (gen.render(a, "Camel") + "\n").encode(), "m": 0o644}]
    if i % 3 == 0:
        tree += [{"p": "ln_" + s, "k": "l", "t": "keep.txt"}]
    return tree, s, gen.render(b, "Snake")


def run(R):
    R.trusted += ["Coq 8.16.1 kernel", "strace -e inject=<sys>:signal=SIGKILL:when=n", "extraction + modelrun.ml"]
    proved = R.prove()
    mp, mlog = core.build_model()
    if mp is None:
        R.violation("model driver does not build", {"log": mlog[-3000:]}, has_input=False)
        return
    M = core.Model([str(mp)])
    g = gen.G(R.seed * 48271 + 11)
    quick = R.tier == "quick"
    nscen = 3 if quick else 24
    fails, dis, known = [], [], {}
    stats = {"scenarios": 0, "killed_runs": 0, "events_by_class": {}, "by_command": {}}
    for i in range(nscen):
        tree, search, replace = scenario(g, i)
        for what in ("apply", "undo", "redo"):
            pr = prepare(tree, search, replace, what)
            if pr is None:
                continue
            sb, args = pr
            old = norm(sb.snapshot())
            hist_before = sb.history() or []
            start_entries = sb.tree_entries()
            plan = None
            if what == "apply":
                try:
                    plan = al.relativize(json.loads((sb.root / ".renamify/plan.json").read_text()), sb.root)
                except Exception:
                    plan = None
            rc, o, e, trace = inject.strace_run(sb, args)
            new = norm(sb.snapshot())
            evs = inject.mutating_events(trace, sb.root, classes=("user", "state", "lock"))
            sb.cleanup()
            if rc != 0:
                fails.append({"why": f"fault-free {what} failed", "tree": cli.tree_json(tree), "search": search, "replace": replace,
                              "stderr": e.decode("utf-8", "replace")[-300:]})
                continue
            stats["scenarios"] += 1
            stats["by_command"][what] = stats["by_command"].get(what, 0) + 1
            # index of user events in the collapsed op list (for the model prefix)
            user_before = []
            k, prev = 0, None
            for ev in evs:
                user_before.append(k)
                if ev.cls == "user":
                    op = inject.user_ops([ev], sb.root)[0]
                    if not (op[0] == "write" and prev == op):
                        k += 1
                    prev = op
            sel = list(range(len(evs)))
            if quick and len(sel) > 40:
                sel = sorted(set(g.r.sample(sel, 40)) | {j for j, ev in enumerate(evs) if ev.cls == "lock"})
            for j in sel:
                ev = evs[j]
                stats["events_by_class"][ev.cls] = stats["events_by_class"].get(ev.cls, 0) + 1
                pr2 = prepare(tree, search, replace, what)
                if pr2 is None:
                    continue
                sb2, args2 = pr2
                hist2 = sb2.history() or []
                rc2, o2, e2, tr2 = inject.strace_run(sb2, args2, inject=f"{ev.sys}:signal=SIGKILL:when={ev.ordinal}")
                stats["killed_runs"] += 1
                R.case(("kill", what, i, j, ev.sys, ev.ordinal, search, replace), nontrivial=True)
                killed = rc2 in (-9, 137) or "+++ killed by SIGKILL" in tr2
                if not killed:
                    sb2.cleanup()
                    continue
                # model prefix (apply only, user-tree part)
                if what == "apply" and plan is not None:
                    mfs = M.ask("crash_prefix", al.aplan_sx(plan), al.fs_sx(tree), user_before[j])
                    try:
                        pred = al.sha_dict(al.user_only(al.fs_from_sx(mfs)))
                        real = norm(sb2.snapshot())
                        if pred != real:
                            dis.append({"why": "tree after a kill differs from the model's operation prefix", "kill_at": ev.raw[:160],
                                        "prefix_len": user_before[j], "diff": repr(cli.diff_snap(pred, real))[:900],
                                        "tree": cli.tree_json(tree), "search": search, "replace": replace})
                    except Exception as ex:
                        dis.append({"why": "model error", "resp": repr(mfs)[:300], "exc": repr(ex)})
                probs = oracle(sb2, old, new, hist2, R, fmap=(lambda c: c.replace(replace, search)) if what == "undo" else (lambda c: c.replace(search, replace)))
                if len(R.coverage["samples"]) < 3:
                    R.sample({"command": what, "kill_at": ev.raw[:140], "problems": probs})
                sb2.cleanup()
                if probs:
                    fails.append({"why": "after a kill: " + "; ".join(probs[:3]), "command": what, "kill_at": ev.raw[:200],
                                  "inject": f"{ev.sys}:signal=SIGKILL:when={ev.ordinal}", "tree": cli.tree_json(tree),
                                  "search": search, "replace": replace})
    M.close()
    R.coverage["input_distribution"] = stats
    R.disagreements = len(dis)
    if stats["killed_runs"] == 0:
        fails.append({"why": "no killed run was produced: the check is vacuous"})
    for f in fails[:3]:
        R.violation(f["why"], {"kind": "impl_failure", **f})
    if fails:
        return
    if not proved:
        R.violation("proof obligation of Props/C11.v no longer checks (no failing crash position found)",
                    {"kind": "proof_broken", **getattr(R, "broken", {})}, has_input=False)
    elif dis:
        R.violation("crash model / real tree correspondence broke (no failing crash position found)",
                    {"kind": "correspondence", "first": dis[:3], "count": len(dis)}, has_input=False)


def replay(R, obj):
    print(json.dumps({k: v for k, v in obj.items() if k != "tree"}, indent=1)[:2500])
    if "inject" in obj and "tree" in obj:
        tree = cli.tree_from_json(obj["tree"])
        what = obj.get("command", "apply")
        pr = prepare(tree, obj["search"], obj["replace"], what)
        sb, args = pr
        old = norm(sb.snapshot())
        hist_before = sb.history() or []
        pr0 = prepare(tree, obj["search"], obj["replace"], what)
        sb0, args0 = pr0
        sb0.run(args0)
        new = norm(sb0.snapshot())
        sb0.cleanup()
        rc, o, e, tr = inject.strace_run(sb, args, inject=obj["inject"])
        probs = oracle(sb, old, new, hist_before, R)
        print("problems:", probs)
        sb.cleanup()
        return 1 if probs else 0
    return 1
