"""C09 — Out-of-scope files are never planned or modified."""
import fnmatch
import hashlib
import json
import re

import core
import cli
import gen
import applylib as al

LEVEL = "proof"
EXPLANATION = ("Theorems (Props/C09.v), for ARBITRARY gitignore/glob oracles and every unrestricted level: an entry with a "
               ".git or .renamify component is never in scope; an entry ignored by a consulted ignore file, matched by an "
               "exclude glob or not matched by a given include set is out of scope; binary content is not scanned below "
               "-uuu; the ignore files consulted per level (computed from the configuration regenerated from lib.rs) are "
               "exactly the documented ones (.gitignore, .ignore, .rgignore, .rnignore at level 0; all but .gitignore at -u; "
               "none at -uu/-uuu). Tie: on generated trees with ignore files at every directory level, .git and .renamify "
               "state holding the term, binary files, symlinks, include/exclude sets and the line/match exclusion options, "
               "at levels 0..3, every path named by the real planners' plans must lie in the scope computed by an independent "
               "Python evaluator of the same table, and after apply every out-of-scope entry is byte-identical.")
ASSUMPTIONS = ["gitignore / globset semantics are oracles: the generator uses literal names, 'dir/' and '*.ext' patterns only",
               "content_inspector's binary sniffing (NUL byte) is an oracle bit"]

CONSULTED = {0: [".gitignore", ".ignore", ".rgignore", ".rnignore"], 1: [".ignore", ".rgignore", ".rnignore"], 2: [], 3: []}


def pat_matches(pat, rel_from_ignore_dir, is_dir_chain):
    """subset of gitignore: 'name', 'dir/', '*.ext' — match any component (dir/ only directories)"""
    comps = rel_from_ignore_dir.split("/")
    for i, c in enumerate(comps):
        is_dir = i < len(comps) - 1 or is_dir_chain
        if pat.endswith("/"):
            if is_dir and fnmatch.fnmatchcase(c, pat[:-1]):
                return True
        elif fnmatch.fnmatchcase(c, pat):
            return True
    return False


EXCLUDE_SETS = [["vendor/**", "*.txt"], ["vendor"], ["[Vv]endor"], ["third_part[y]", "buil[d]"], ["third_party/", "Vendor/pkg"],
                ["[Vv]endor/**", "src/dee?"], ["third_party/*_dep"]]


def glob_rx(pat):
    """globset default semantics: '*' and '?' also match '/', classes, {a,b} alternation"""
    out, i = "", 0
    while i < len(pat):
        c = pat[i]
        if c == "*":
            out += ".*"
            while i + 1 < len(pat) and pat[i + 1] == "*":
                i += 1
        elif c == "?":
            out += "."
        elif c == "[":
            j = pat.index("]", i)
            out += "[" + pat[i + 1:j].replace("\\", "\\\\") + "]"
            i = j
        elif c == "{":
            j = pat.index("}", i)
            out += "(?:" + "|".join(re.escape(x) for x in pat[i + 1:j].split(",")) + ")"
            i = j
        else:
            out += re.escape(c)
        i += 1
    return re.compile("^" + out + "$", re.S)


def excluded_by(p, excludes):
    """p or one of its ancestor directories is matched by an exclude glob"""
    comps = p.split("/")
    for x in excludes:
        rx = glob_rx(x.rstrip("/"))
        if rx.match(p):
            return True
        names_dir = x.endswith("/") or not any(ch in x for ch in "*?.")
        if names_dir and any(rx.match("/".join(comps[:k])) for k in range(1, len(comps))):
            return True
    return False


PRECEDENCE = [".rnignore", ".rgignore", ".gitignore", ".ignore"]   # highest first (ignore crate: custom names in reverse order of
                                                                    # registration, then .ignore); deeper directories before parents


def file_decision(pats, name, is_dir):
    """gitignore subset ('name', 'dir/', '*.ext', '!' negation): the LAST matching pattern of one file decides"""
    d = None
    for pt in pats:
        neg = pt.startswith("!")
        body = pt[1:] if neg else pt
        if body.endswith("/"):
            if not is_dir:
                continue
            body = body[:-1]
        if fnmatch.fnmatchcase(name, body):
            d = "whitelist" if neg else "ignore"
    return d


def expected_scope(tree, level, includes, excludes):
    """set of relpaths that may appear in a plan"""
    ignore_files = {}
    for e in tree:
        base = e["p"].rsplit("/", 1)[-1]
        if e.get("k", "f") == "f" and base in PRECEDENCE:
            d = e["p"].rsplit("/", 1)[0] if "/" in e["p"] else ""
            pats = [ln.strip() for ln in e["c"].decode().splitlines() if ln.strip() and not ln.startswith("#")]
            ignore_files.setdefault((d, base), []).extend(pats)
    dirs = {e["p"] for e in tree if e.get("k") == "d"}
    out = set()
    for e in tree:
        p = e["p"]
        comps = p.split("/")
        if ".git" in comps or ".renamify" in comps:
            continue
        ignored = False
        for k in range(1, len(comps) + 1):          # every ancestor directory, then the entry itself
            q = "/".join(comps[:k])
            q_is_dir = k < len(comps) or p in dirs
            decision = None
            for depth in range(k - 1, -1, -1):      # ignore files of the deepest enclosing directory first
                d = "/".join(comps[:depth])
                for base in PRECEDENCE:
                    if base in CONSULTED[level] and (d, base) in ignore_files:
                        decision = file_decision(ignore_files[(d, base)], comps[k - 1], q_is_dir)
                        if decision:
                            break
                if decision:
                    break
            if decision == "ignore":
                ignored = True
                break
        if not ignored:
            out.add(p)
    return out


def scenario(g, i):
    a, b = g.term_pair()
    r = g.r
    s = gen.render(a, "Snake")
    body = (s + " here\nsecond " + gen.render(a, "Camel") + "\n").encode()
    tree = [
        {"p": "src", "k": "d", "m": 0o755}, {"p": "src/deep", "k": "d", "m": 0o755}, {"p": "build", "k": "d", "m": 0o755},
        {"p": "vendor", "k": "d", "m": 0o755}, {"p": "src/gen", "k": "d", "m": 0o755},
        {"p": "keep_" + s + ".txt", "k": "f", "c": body, "m": 0o644},
        {"p": "src/" + s + "_mod.rs", "k": "f", "c": body, "m": 0o644},
        {"p": "src/deep/x.log", "k": "f", "c": body, "m": 0o644},
        {"p": "src/deep/" + s + ".tmp", "k": "f", "c": body, "m": 0o644},
        {"p": "src/gen/out_" + s + ".rs", "k": "f", "c": body, "m": 0o644},
        {"p": "build/" + s + "_artifact.txt", "k": "f", "c": body, "m": 0o644},
        {"p": "vendor/lib_" + s + ".c", "k": "f", "c": body, "m": 0o644},
        {"p": "Vendor", "k": "d", "m": 0o755}, {"p": "Vendor/pkg", "k": "d", "m": 0o755},
        {"p": "Vendor/pkg/" + s + "_types.rs", "k": "f", "c": body, "m": 0o644},
        {"p": "third_party", "k": "d", "m": 0o755}, {"p": "third_party/" + s + "_dep", "k": "d", "m": 0o755},
        {"p": "third_party/" + s + "_dep/" + s + ".h", "k": "f", "c": body, "m": 0o644},
        {"p": "secret.txt", "k": "f", "c": body, "m": 0o600},
        {"p": "bin_" + s + ".dat", "k": "f", "c": b"\x00\x01\x02" + body, "m": 0o644},
        {"p": ".hidden_" + s, "k": "f", "c": body, "m": 0o644},
        {"p": ".git", "k": "d", "m": 0o755}, {"p": ".git/config", "k": "f", "c": body, "m": 0o644},
        {"p": ".git/" + s + "_ref", "k": "f", "c": body, "m": 0o644},
        {"p": "src/.git", "k": "d", "m": 0o755}, {"p": "src/.git/" + s, "k": "f", "c": body, "m": 0o644},
        # a .git that is a regular FILE (what git writes into submodule checkouts and linked worktrees) and a .renamify that is one
        {"p": "Vendor/pkg/.git", "k": "f", "c": b"gitdir: ../../.git/modules/" + s.encode() + b"\n", "m": 0o644},
        {"p": "third_party/.renamify", "k": "f", "c": body, "m": 0o644},
        {"p": "ln_" + s, "k": "l", "t": "secret.txt"},
        {"p": "lnd_" + s, "k": "l", "t": "vendor"},
    ]
    kinds = [".gitignore", ".ignore", ".rgignore", ".rnignore"]
    rules = [("", r.choice(kinds), ["build/", "*.log"]), ("", r.choice(kinds), ["secret.txt"]),
             ("src", r.choice(kinds), ["gen/", "*.tmp"]), ("", r.choice(kinds), ["vendor/"])]
    byf = {}
    for d, k, pats in r.sample(rules, r.randint(1, 4)):
        byf.setdefault((d, k), []).extend(pats)
    if r.random() < 0.6:
        # a whitelist line in a lower-precedence ignore file must not resurrect what a higher-precedence file excludes
        # (never the other way round: a whitelist in the higher file legitimately wins)
        hi = r.randrange(0, 3)
        lo = r.randrange(hi + 1, 4)
        byf.setdefault(("", PRECEDENCE[lo]), []).extend(["*.audit", "!" + s + ".audit"])
        byf.setdefault(("", PRECEDENCE[hi]), []).append(s + ".audit")
        tree += [{"p": s + ".audit", "k": "f", "c": body, "m": 0o644}, {"p": "src/deep/" + s + ".audit", "k": "f", "c": body, "m": 0o644},
                 {"p": "other.audit", "k": "f", "c": body, "m": 0o644}]
    for (d, k), pats in byf.items():
        tree.append({"p": (d + "/" if d else "") + k, "k": "f", "c": ("\n".join(pats) + "\n").encode(), "m": 0o644})
    return tree, s, gen.render(b, "Snake")


def planned_paths(plan):
    return {h["file"] for h in plan.get("matches", [])} | {p["path"] for p in plan.get("paths", [])}


def run(R):
    R.trusted += ["Coq 8.16.1 kernel + vm_compute", "translators/gen_walker.py", "ignore/globset/content_inspector crates (oracles)",
                  "Python scope evaluator (independent)"]
    proved = R.prove()
    g = gen.G(R.seed * 134775813 % (2**31) + 9)
    r = g.r
    quick = R.tier == "quick"
    fails = []
    stats = {"runs": 0, "by_level": {}, "planned_paths": 0, "out_of_scope_entries_checked": 0, "with_prior_state": 0}
    n = 6 if quick else 60
    for i in range(n):
        tree, search, replace = scenario(g, i)
        for level in (0, 1, 2, 3):
            for variant in ("plain", "exclude", "include", "include_exclude", "lines", "replace_cmd"):
                if quick and variant != "plain" and (i + level) % 3:
                    continue
                with cli.Sandbox(tree) as sb:
                    prior = i % 2 == 0
                    if prior:
                        # earlier renamify state (history, plans, backups) that contains the term
                        sb.run(["--no-auto-init", "-y", "rename", "keep_" + search, "keep_" + search + "_x", "--exclude", "**"])
                        (sb.root / ".renamify").mkdir(exist_ok=True)
                        (sb.root / ".renamify" / "notes.txt").write_text(search + "\n")
                        (sb.root / ".renamify" / (search + "_state")).write_text(search + "\n")
                        stats["with_prior_state"] += 1
                    uflag = ["-" + "u" * level] if level else []
                    includes, excludes, extra = [], [], []
                    if variant == "exclude":
                        # a pattern that names a directory (no '*', '?' or '.', or a trailing '/') also excludes everything below it
                        excludes = EXCLUDE_SETS[(i + level) % len(EXCLUDE_SETS)]
                        extra = []
                        for x in excludes:
                            extra += ["--exclude", x]
                    elif variant == "include":
                        includes = ["src/**"]
                        extra = ["--include", "src/**"]
                    elif variant == "include_exclude":
                        # both at once: an entry has to pass the include globs AND stay clear of the exclude globs
                        includes, excludes = [["**/*.rs"], ["src/**"], ["**"]][(i + level) % 3], [["src/gen/**"], ["src/deep/**", "Vendor/**"], ["*.txt", "vendor/**"]][(i + level) % 3]
                        extra = []
                        for x in includes:
                            extra += ["--include", x]
                        for x in excludes:
                            extra += ["--exclude", x]
                    elif variant == "lines":
                        extra = ["--exclude-matching-lines", "^second"]
                    entries = sb.tree_entries(state=True)
                    before = sb.snapshot(state=True)
                    scope = expected_scope([{**e, "c": e.get("c", b"")} for e in entries], level, includes, excludes)
                    if variant == "replace_cmd":
                        cmd = ["replace", "--no-regex", search, replace, "--dry-run", "--output", "json"]
                    else:
                        cmd = ["plan", search, replace, "--dry-run", "--output", "json", "--quiet"] + extra
                    rc, o, e = sb.run(["--no-auto-init", "-y"] + uflag + cmd)
                    stats["runs"] += 1
                    stats["by_level"][level] = stats["by_level"].get(level, 0) + 1
                    R.case((i, level, variant, search), nontrivial=True)
                    if rc != 0:
                        fails.append({"why": f"planner failed at level {level} ({variant})", "stderr": e.decode("utf-8", "replace")[-300:],
                                      "tree": cli.tree_json(tree), "search": search})
                        continue
                    try:
                        doc = json.loads(o.decode("utf-8"))
                        plan = al.relativize(doc.get("plan", doc), sb.root)
                    except Exception:
                        fails.append({"why": "planner output is not JSON", "out": o[:200].decode("utf-8", "replace")})
                        continue
                    pp = planned_paths(plan)
                    stats["planned_paths"] += len(pp)
                    if len(R.coverage["samples"]) < 3:
                        R.sample({"level": level, "variant": variant, "planned": sorted(pp)[:8], "scope_size": len(scope)})
                    bad = sorted(p for p in pp if p not in scope)
                    # include / exclude are globset semantics: evaluated with fnmatch on the relative path
                    if includes:
                        bad += [p for p in pp if not any(fnmatch.fnmatchcase(p, x.replace("**", "*")) for x in includes) and p not in bad]
                    if excludes:
                        bad += [p for p in pp if excluded_by(p, excludes) and p not in bad]
                    # binary below -uuu: no content hunks
                    if level < 3:
                        bad += [h["file"] for h in plan.get("matches", []) if h["file"].rsplit("/", 1)[-1].startswith("bin_") and h["file"] not in bad]
                    # symlinks never have content hunks
                    links = {e2["p"] for e2 in entries if e2.get("k") == "l"}
                    bad += [h["file"] for h in plan.get("matches", []) if h["file"] in links and h["file"] not in bad]
                    if variant == "lines":
                        bad += [h["file"] + ":" + str(h["line"]) for h in plan.get("matches", []) if (h.get("line_before") or "").startswith("second")]
                    if bad:
                        fails.append({"why": f"level {level} ({variant}): the plan names out-of-scope entries: {bad[:5]}",
                                      "level": level, "variant": variant, "tree": cli.tree_json(tree), "search": search, "replace": replace})
                        continue
                    # apply for real: out-of-scope entries must be byte-identical
                    if variant in ("plain", "exclude", "include", "lines"):
                        rc2, o2, e2 = sb.run(["--no-auto-init", "-y"] + uflag + ["rename", search, replace] + extra)
                    else:
                        rc2, o2, e2 = sb.run(["--no-auto-init", "-y"] + uflag + ["replace", "--no-regex", search, replace])
                    after = sb.snapshot(state=True)
                    for p, v in before.items():
                        if p in scope and not p.startswith(".renamify"):
                            continue
                        comps = p.split("/")
                        if comps[0] == ".renamify" and (len(comps) == 1 or comps[1] in ("history.json", "plans", "backups", "logs", "apply.log", "plan.json", "renamify.lock")
                                                       or comps[1].startswith("history.json")):
                            continue       # renamify's own bookkeeping legitimately changes
                        stats["out_of_scope_entries_checked"] += 1
                        if after.get(p) != v:
                            fails.append({"why": f"level {level} ({variant}): out-of-scope entry {p} was modified, renamed or removed by apply",
                                          "level": level, "variant": variant, "tree": cli.tree_json(tree), "search": search, "replace": replace})
                            break
                    # symlink targets untouched / links not followed: link entries keep kind and target unless renamed
                    for p in links:
                        v = before[p]
                        if after.get(p) != v and not any(w == v for w in after.values()):
                            fails.append({"why": f"level {level} ({variant}): symlink {p} was altered (followed or replaced)",
                                          "tree": cli.tree_json(tree), "search": search, "replace": replace})
    R.coverage["input_distribution"] = stats
    if stats["runs"] == 0:
        fails.append({"why": "no planner run: vacuous"})
    for f in fails[:3]:
        R.violation(f["why"], {"kind": "impl_failure", **f})
    if fails:
        return
    if not proved:
        R.violation("proof obligation of Props/C09.v no longer checks (no out-of-scope entry found in any plan)",
                    {"kind": "proof_broken", **getattr(R, "broken", {})}, has_input=False)


def replay(R, obj):
    print(json.dumps({k: v for k, v in obj.items() if k != "tree"}, indent=1)[:2500])
    return 1
