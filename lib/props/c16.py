"""C16 — No input makes renamify crash."""
import json
import os
import random

import core
import cli
import gen

LEVEL = "proof"
EXPLANATION = ("A theorem cannot range over the whole CLI; what is proved (Props/C16.v) is that the panic sites the property "
               "anchors are unreachable: apply's sort + overlap pre-check + splice loop never panics on ANY edit list (any "
               "order, duplicated, overlapping, offsets beyond the file or inside a character: Ok or content mismatch), the "
               "tokenizer's fuel never runs out, the literal scan only reports in-range spans, and the exit status computed "
               "by main is one of the documented ones. The rest of the program is covered by search, reported as such: the "
               "modelled functions run under catch_unwind on a malformed stream (invalid UTF-8, NUL, lone CR, long lines, "
               "separator-only and non-ASCII terms, regex metacharacters, stale / oversized / mid-character offsets) and a "
               "seeded fuzz drives whole command lines (all commands x option combinations x arbitrary file bytes and valid "
               "Unix names) against debug and release builds; exit status 101 or 'panicked at' is a violation.")
ASSUMPTIONS = ["the CLI fuzz is a search, not a proof", "termination of the regex crate on user patterns and memory exhaustion are out of scope"]

OK_EXITS = {0, 1, 2, 3, 130}
TERMS = ["old_name", "oldName", "OLD_NAME", "OldName", "A\u00c3x", "a", "_", "-", ".", " ", "__", "a.b", "x-y_z", "é", "İstanbul", "ǅ", "ß", "ﬁ", "日本語", "a b",
         "(", "[a-z]+", "$1", "\\", "*", "foo(bar", "new_name", "", "K", "ı", "ΣΑΣ", "old_name_old_name", "\t", "𝒳", "‍"]
NAMES = ["a.txt", "old_name.rs", "é☃.md", "sp ace", "-dash", "--flag", ".hidden", "x\ty", "q\"uote", "back\\slash", "new\nline", "old_name",
         "İ_old_name", "dir.d", "$HOME", "*", "a;b", "'q'", "\x7f", "ǅx", "long" * 40]


def rand_bytes(r, n):
    kinds = r.randrange(7)
    if kinds == 6:
        # every hump / separator rendering of the usual term glued to characters whose case mapping changes the byte length
        # (KELVIN SIGN, dotted capital I, sharp s, ligature) and followed by separators: offsets computed on a case-folded copy
        # do not fit the original
        odd = ["\u212a", "\u0130", "\u1e9e", "\ufb01", "\u01c5", "\u00df"]
        forms = ["oldName", "OldName", "old_name", "OLD_NAME", "old-name", "Old-Name", "old.name"]
        return " ".join(r.choice(["a", "", "x_"]) + r.choice(odd) + f + r.choice(["-x", "_y", ".z", "", "-" + r.choice(odd)]) for f in forms for _ in range(2)).encode("utf-8") + b"\n"
    if kinds == 0:
        return bytes(r.randrange(256) for _ in range(n))
    if kinds == 1:
        return ("old_name \xe9\xff oldName\r OLD_NAME\x00 old-name\n" * max(1, n // 40)).encode("latin1")
    if kinds == 2:
        return (("x" * 20000) + " old_name " + ("é" * 1000) + " oldName").encode("utf-8")
    if kinds == 3:
        return b"old_name\rold_name\r\n\rold_name" + bytes([0xC3]) + b"old_name" + bytes([0xE2, 0x98]) + b" OldName"
    if kinds == 4:
        return "İold_name ǅold_nameß ﬁoldNameİ KOLD_NAME ıold-name\n".encode("utf-8") * 3
    return ("old_name " * r.randint(0, 50) + "\n" * r.randint(0, 3)).encode()


def make_tree(r):
    tree, seen = [], set()
    for _ in range(r.randint(1, 6)):
        nm = r.choice(NAMES)
        if r.random() < 0.3:
            d = r.choice(NAMES[:8]) + "_d"
            if d not in seen and "/" not in d:
                seen.add(d)
                tree.append({"p": d, "k": "d", "m": 0o755})
            p = d + "/" + nm
        else:
            p = nm
        if p in seen or "\x00" in p:
            continue
        seen.add(p)
        k = r.randrange(10)
        if k == 0:
            tree.append({"p": p, "k": "l", "t": r.choice(["nowhere", ".", "a.txt", "/dev/null"])})
        elif k == 1:
            tree.append({"p": p, "k": "d", "m": 0o755})
        else:
            tree.append({"p": p, "k": "f", "c": rand_bytes(r, r.randint(0, 300)), "m": r.choice([0o644, 0o600, 0o755])})
    return tree


def rand_cmd(r):
    s, t = r.choice(TERMS), r.choice(TERMS)
    g = ["--no-auto-init"] + (["-y"] if r.random() < 0.9 else []) + (["-" + "u" * r.randint(1, 3)] if r.random() < 0.3 else [])
    k = r.randrange(12)
    opts = []
    if r.random() < 0.3:
        opts += ["--exclude-matching-lines", r.choice(["^x", "(", "[", "old", "\\"])]
    if r.random() < 0.2:
        opts += ["--only-styles", r.choice(["snake", "camel,pascal", "title,sentence", "dot", "lower-flat,upper-flat"])]
    elif r.random() < 0.2:
        opts += ["--exclude-styles", r.choice(["snake,kebab,camel,pascal,screaming-snake,train,screaming-train,title,sentence,lower-sentence,upper-sentence", "camel"])]
    if r.random() < 0.2:
        opts += [r.choice(["--no-acronyms", "--ignore-ambiguous", "--no-plural-variants", "--atomic-identifiers", "--atomic-search"])]
    if r.random() < 0.2:
        opts += ["--include", r.choice(["*.txt", "**", "[", "src/**"])]
    pv = ["--preview", r.choice(["table", "diff", "matches", "summary", "none"])] if r.random() < 0.4 else []
    out = ["--output", "json"] if r.random() < 0.3 else []
    if k == 0:
        return g + ["plan", s, t, "--dry-run"] + opts + pv + out
    if k == 1:
        return g + ["plan", s, t] + opts + out
    if k == 2:
        return g + ["search", s] + [o for o in opts if not o.startswith("--atomic") and o != "--ignore-ambiguous"][:2] + out
    if k in (3, 4):
        return g + ["rename", s, t] + opts + pv + out
    if k == 5:
        return g + ["rename", s, t, "--dry-run"] + opts + pv
    if k == 6:
        return g + ["replace", s, t] + (["--no-regex"] if r.random() < 0.5 else []) + out
    if k == 7:
        return g + ["apply"] + out
    if k == 8:
        return g + ["undo", r.choice(["latest", "deadbeef", ""])] + out
    if k == 9:
        return g + ["redo", r.choice(["latest", "deadbeef"])] + out
    if k == 10:
        return g + [r.choice(["history", "status", "version"])] + out
    return g + ["rename", s, t, r.choice([".", "nonexistent", "a.txt"])] + opts


GRAMMAR_SKIP_CMDS = {"init", "test-lock", "help"}          # init writes git configuration; test-lock sleeps
GRAMMAR_SKIP_OPTS = {"commit", "help", "version"}          # --commit would run git in whatever repository encloses the sandbox
VALUE_POOL = ["old_name", "x", "", "*", "[", "(", "^a", "src/**", "a.txt", "API,ID", "3", "-1", "99999999999999999999", "é", "a,b",
              "A\u00c3", "\u00c9A", "\u0130D,API", "\u212a"]


def grammar_cmd(r, grammar):
    """a command line drawn from the REAL clap grammar (dumped by the harness): any subcommand, any subset of its options, every
    enumerated value of every option (singly and in lists where the option has a delimiter), free values from a pool"""
    subs = [sc for sc in grammar["subcommands"] if sc["name"] not in GRAMMAR_SKIP_CMDS]
    sc = r.choice(subs)
    argv = ["--no-auto-init"] + (["-y"] if r.random() < 0.9 else [])
    if r.random() < 0.2:
        argv.append("-" + "u" * r.randint(1, 3))
    argv.append(sc["name"])
    pos = sorted([a for a in sc["args"] if a["positional"]], key=lambda a: a["index"] or 0)
    for a in pos:
        if a["required"] or r.random() < 0.5:
            if a["id"] in ("paths",):
                argv += r.choice([["."], ["nonexistent"], [".", "."], []])
            elif a["id"] == "id":
                argv.append(r.choice(["latest", "deadbeef", "", "0123456789abcdef"]))
            else:
                argv.append(r.choice(TERMS))
    opts = [a for a in sc["args"] if not a["positional"] and not a["global"] and a["long"] and a["id"] not in GRAMMAR_SKIP_OPTS
            and a["long"] not in GRAMMAR_SKIP_OPTS]
    for a in r.sample(opts, min(len(opts), r.choice([0, 1, 1, 2, 3, 5]))):
        flag = "--" + a["long"]
        if not a["takes_value"]:
            argv.append(flag)
            continue
        poss = a["possible"]
        if poss:
            if a.get("delimiter") and r.random() < 0.5:
                val = a["delimiter"].join(r.sample(poss, r.randint(1, min(4, len(poss)))))
            else:
                val = r.choice(poss)
        else:
            val = r.choice(VALUE_POOL)
        argv += [flag, val]
    return argv


def library_stream(R, H, r, fails, stats):
    """modelled functions under catch_unwind on malformed inputs"""
    ask0 = H.ask
    last = {}

    def ask(req):
        last["req"] = req
        return ask0(req)
    H = type("HX", (), {"ask": staticmethod(ask)})
    for i in range(300 if R.tier == "quick" else 20000):
        k = r.randrange(6)
        if k == 0:
            s = r.choice(TERMS) + r.choice(["", "_x", "İ", "HTTPServer2FA"])
            resp = H.ask({"op": "tokens", "s": core.hx(s)})
        elif k == 1:
            s = r.choice(TERMS)
            resp = H.ask({"op": "detect_style", "s": core.hx(s)})
        elif k == 2:
            resp = H.ask({"op": "variant_map", "which": r.choice(["core", "scanner"]), "search": core.hx(r.choice(TERMS)),
                          "replace": core.hx(r.choice(TERMS)), "plurals": r.random() < 0.5})
        elif k == 3:
            content = rand_bytes(r, 120)
            resp = H.ask({"op": "find_matches", "variants": [core.hx(x) for x in r.sample(TERMS, 3) if x], "content": core.hx(content)})
        elif k == 4:
            # stale / oversized / mid-character offsets
            content = "aé☃ old_name z\nold_name".encode()
            n = len(content)
            edits = [{"old": core.hx(r.choice(["old_name", "é", "x"])), "new": core.hx(r.choice(["n", "", "ééé"])),
                      "start": r.choice([0, 1, 2, 3, 5, n - 1, n, n + 5, 10**9]), "end": r.choice([0, 2, 3, 4, 13, n, n + 1, 10**9])}
                     for _ in range(r.randint(1, 2))]
            # any order, duplicated and overlapping edits (a hand-edited or corrupted plan.json)
            if r.random() < 0.5:
                edits.sort(key=lambda e: e["start"])
            if r.random() < 0.3:
                edits.append(dict(r.choice(edits)))
            if r.random() < 0.3:
                edits = [{"old": core.hx("old_name"), "new": core.hx(r.choice(["n", "ééé"])), "start": 15, "end": 23},
                         {"old": core.hx("old_name"), "new": core.hx("n"), "start": 6, "end": 14}] + (edits if r.random() < 0.5 else [])
            resp = H.ask({"op": "splice", "content": core.hx(content), "edits": edits})
        else:
            tree = cli.tree_json(make_tree(r))
            resp = H.ask({"op": "scan_tree", "tree": tree, "search": core.hx(r.choice(TERMS)), "replace": core.hx(r.choice(TERMS))})
        stats["library_calls"] += 1
        R.case(("lib", i, k), nontrivial=True)
        if "panic" in resp or "crash" in resp:
            fails.append({"why": "a library function panicked: " + str(resp.get("panic", resp))[:200], "op_kind": k, "request": last.get("req")})


SHAPE_ALPHABET = "Ab1_ -."
SHAPED_REPLACEMENTS = ["QAHandbook", "DBRecord", "IOStream", "UIKit", "X2Go", "aB", "AB_cd", "A_b", "iOS", "eBay", "QA", "Q", "AB-c", "AB.c d",
                       "qa_handbook", "APIHandbook", "a1B2", "A1b"]


def shaped_stream(R, H, r, fails, stats):
    """(a) coercion on EVERY short replacement string over {capital, lower, digit, each separator} against containers written in every
    style (exhaustive small scope, so every adjacency of capital runs, separators and lower-case letters reaches the tokenizer);
    (b) on the CLI: a tree whose file and directory names carry the search term in all 14 style renderings, renamed to replacement
    terms typed with one- and two-capital first words, digits and mixed separators."""
    import itertools
    ws = ["user", "guide"]
    containers = [(gen.render(ws, st) + ext, gen.render(ws, st)) for st in gen.STYLES14 for ext in (".md",)]
    containers += [("my_user_guide_x", "user_guide"), ("TheUserGuideBook", "UserGuide"), ("get-user-guide-now", "user-guide"),
                   ("SOME_USER_GUIDE_ID", "USER_GUIDE"), ("A User guide here", "User guide")]
    maxlen = 4 if R.tier == "quick" else 6
    news = ["".join(t) for n in range(1, maxlen + 1) for t in itertools.product(SHAPE_ALPHABET, repeat=n)]
    if R.tier == "quick":
        news = [x for i, x in enumerate(news) if len(x) < 4 or i % 2 == 0]
    stats["coercion_shape_calls"] = 0
    for (cont, old) in containers:
        for new in news:
            req = {"op": "apply_coercion", "container": core.hx(cont), "old": core.hx(old), "new": core.hx(new)}
            resp = H.ask(req)
            stats["coercion_shape_calls"] += 1
            if "panic" in resp or "crash" in resp:
                fails.append({"why": "apply_coercion panicked: " + str(resp.get("panic", resp))[:200], "request": req,
                              "container": cont, "old": old, "new": new})
                break
    R.case(("coercion_shapes", len(containers), len(news)), nontrivial=True)
    tree = []
    for st in gen.STYLES14:
        nm = gen.render(ws, st)
        tree.append({"p": nm + ".md", "k": "f", "c": (nm + " text\n").encode(), "m": 0o644})
    tree.append({"p": "Release notes", "k": "d", "m": 0o755})
    tree.append({"p": "Release notes/User guide for users.txt", "k": "f", "c": b"User guide\n", "m": 0o644})
    reps = SHAPED_REPLACEMENTS if R.tier == "thorough" else SHAPED_REPLACEMENTS[:10]
    for rep in reps:
        for cmd in (["rename", "user_guide", rep], ["rename", "release_notes", rep, "--dry-run"]):
            with cli.Sandbox(tree) as sb:
                args = ["--no-auto-init", "-y"] + cmd
                rc, o, e = sb.run(args, timeout=60)
                stats["cli_runs"] += 1
                stats["exit_codes"][rc] = stats["exit_codes"].get(rc, 0) + 1
                R.case(("cli_shaped", tuple(args)), nontrivial=True)
                err = e.decode("utf-8", "replace")
                if rc == 101 or "panicked at" in err or rc not in OK_EXITS:
                    fails.append({"why": f"command exited with status {rc}" + (": " + err[err.find("panicked at"):][:200] if "panicked at" in err else ""),
                                  "args": args, "tree": cli.tree_json(tree), "history": [args], "build": "debug"})


def run(R):
    R.trusted += ["Coq 8.16.1 kernel", "harness catch_unwind", "the CLI fuzz (search, not proof)"]
    proved = R.prove()
    hp, hlog = core.build_harness()
    if hp is None:
        R.violation("harness does not build", {"log": hlog[-3000:]}, has_input=False)
        return
    H = core.Harness([str(hp)])
    r = random.Random(R.seed * 75 + 16)
    fails = []
    stats = {"library_calls": 0, "cli_runs": 0, "exit_codes": {}, "builds": ["debug"]}
    library_stream(R, H, r, fails, stats)
    shaped_stream(R, H, r, fails, stats)
    grammar = H.ask({"op": "clap_dump"}).get("ok")
    H.close()
    if not grammar:
        fails.append({"why": "the clap grammar could not be dumped: the option-combination stream is vacuous"})
        grammar = {"subcommands": []}
    bins = [cli.cli_bin()]
    if R.tier == "thorough":
        p, out = core.build_cli(release=True)
        if p:
            bins.append(str(p))
            stats["builds"].append("release")
    n = 200 if R.tier == "quick" else 8000
    for i in range(n):
        tree = make_tree(r)
        with cli.Sandbox(tree) as sb:
            seq = [grammar_cmd(r, grammar) if grammar["subcommands"] and r.random() < 0.5 else rand_cmd(r) for _ in range(r.randint(1, 4))]
            stats["grammar_drawn"] = stats.get("grammar_drawn", 0) + sum(1 for a in seq if a[0] == "--no-auto-init" and len(a) > 1)
            for args in seq:
                for b in bins[:1] if i % 2 else bins:
                    rc, o, e = sb.run(args, bin=b, timeout=60)
                    if rc == 124:
                        # our own time limit, not an exit status of renamify: a pattern such as `.` on a 20 kB line makes a plan whose
                        # size is quadratic in the line length (every hunk stores the line twice) - slow and large, but it terminates.
                        # Only a run that does not end within 20 minutes counts as not terminating
                        stats["slow_runs_repeated"] = stats.get("slow_runs_repeated", 0) + 1
                        rc, o, e = sb.run(args, bin=b, timeout=1200)
                    stats["cli_runs"] += 1
                    stats["exit_codes"][rc] = stats["exit_codes"].get(rc, 0) + 1
                    R.case(("cli", i, tuple(args)), nontrivial=True)
                    err = e.decode("utf-8", "replace")
                    if rc in (-6, 134, -9, 137) and ("memory allocation of" in err or rc in (-9, 137)):
                        # memory exhaustion under the checks' own address-space limit (lib/cli.py) or the kernel's: out of C16's scope
                        # (a plan is quadratic in line length for patterns that match everywhere); counted, the sequence ends here
                        stats["memory_exhausted_runs"] = stats.get("memory_exhausted_runs", 0) + 1
                        break
                    if rc == 101 or "panicked at" in err or rc not in OK_EXITS:
                        fails.append({"why": f"command exited with status {rc}" + (": " + err[err.find("panicked at"):][:200] if "panicked at" in err else ""),
                                      "args": args, "tree": cli.tree_json(tree), "history": [list(x) for x in seq], "build": os.path.basename(os.path.dirname(b))})
                    if i < 2 and len(R.coverage["samples"]) < 4:
                        R.sample({"args": args, "exit": rc})
    # every boolean option of every subcommand that takes terms, once with each of a few non-ASCII terms (first character of 2, 3
    # and 4 bytes, characters whose case mapping changes length): a deterministic sweep, the fuzz above only samples this product
    na_terms = ["\u00c9mile", "\u00dcberbau_x", "\u0130stanbul", "\u01c5x", "\u65e5\u672c\u8a9e", "\U0001d4b3y", "\u00dfa"]
    small_na = [{"p": "a.txt", "k": "f", "c": "\u00c9mile \u00dcberbau_x \u0130stanbul old_name\n".encode(), "m": 0o644}]
    for sc in grammar["subcommands"]:
        if sc["name"] in GRAMMAR_SKIP_CMDS:
            continue
        pos = sorted([a for a in sc["args"] if a["positional"] and a["required"]], key=lambda a: a["index"] or 0)
        if not pos or any(a["id"] == "id" for a in pos):
            continue
        has_dry = any(a["long"] == "dry-run" for a in sc["args"])
        flags = [a for a in sc["args"] if not a["positional"] and not a["global"] and a["long"] and not a["takes_value"]
                 and a["long"] not in GRAMMAR_SKIP_OPTS and a["long"] != "dry-run"]
        with cli.Sandbox(small_na) as sb:
            for fi, a in enumerate(flags):
                for ti in range(len(na_terms) if R.tier == "thorough" else 3):
                    t1 = na_terms[(fi + ti) % len(na_terms)]
                    t2 = na_terms[(fi + ti + 3) % len(na_terms)]
                    args = ["--no-auto-init", "-y", sc["name"]] + [t1 if k == 0 else t2 for k, _ in enumerate(pos)] + ["--" + a["long"]] + (["--dry-run"] if has_dry else [])
                    rc, o, e = sb.run(args, timeout=60)
                    stats["cli_runs"] += 1
                    stats["flag_x_nonascii_runs"] = stats.get("flag_x_nonascii_runs", 0) + 1
                    stats["exit_codes"][rc] = stats["exit_codes"].get(rc, 0) + 1
                    R.case(("flag_nonascii", tuple(args)), nontrivial=True)
                    err = e.decode("utf-8", "replace")
                    if rc == 101 or "panicked at" in err or rc not in OK_EXITS:
                        fails.append({"why": f"command exited with status {rc}" + (": " + err[err.find("panicked at"):][:200] if "panicked at" in err else ""),
                                      "args": args, "tree": cli.tree_json(small_na), "history": [args], "build": "debug"})
    # a workspace configuration file (.renamify/config.toml) in every state a hand edit or a crash can leave it in
    configs = [b"", b"garbage [[[ = \n", b"[defaults]\npreview_format = \"bogus\"\n", "atomic = [\"\u00dcberbau\", \"\", \"old_name\", \"\u0130x\"]\n".encode(),
               b"[defaults]\nunrestricted_level = 255\nuse_color = true\nrename_files = false\n", b"\xff\xfe\x00", b"[defaults]\npreview_format = 7\n",
               b"atomic = \"old_name\"\n", b"[defaults]\npreview_format = \"none\"\n[unknown]\nx = 1\n"]
    cfg_tree = [{"p": "a.txt", "k": "f", "c": "old_name OldName \u00dcberbau \u0130x\n".encode(), "m": 0o644}, {"p": "old_name_dir", "k": "d", "m": 0o755}]
    for ci, cfg in enumerate(configs):
        for cmd in (["plan", "old_name", "new_name", "--dry-run"], ["rename", "\u00dcberbau", "Neubau", "--dry-run"], ["search", "\u0130x"],
                    ["replace", "old_name", "new_name", "--dry-run"], ["rename", "old_name", "new_name"], ["status"], ["history"], ["undo", "latest"]):
            with cli.Sandbox(cfg_tree) as sb:
                (sb.root / ".renamify").mkdir(exist_ok=True)
                (sb.root / ".renamify" / "config.toml").write_bytes(cfg)
                args = ["--no-auto-init", "-y"] + cmd
                rc, o, e = sb.run(args, timeout=60)
                stats["cli_runs"] += 1
                stats["config_file_runs"] = stats.get("config_file_runs", 0) + 1
                stats["exit_codes"][rc] = stats["exit_codes"].get(rc, 0) + 1
                R.case(("config", ci, tuple(args)), nontrivial=True)
                err = e.decode("utf-8", "replace")
                if rc == 101 or "panicked at" in err or rc not in OK_EXITS:
                    fails.append({"why": f"command exited with status {rc} with .renamify/config.toml = {cfg[:60]!r}" + (": " + err[err.find("panicked at"):][:200] if "panicked at" in err else ""),
                                  "args": args, "tree": cli.tree_json(cfg_tree), "history": [args], "build": "debug", "config": cfg.decode("latin1")})
    # a working directory, a search root and entries whose names are not valid UTF-8 (legal Unix file names), every planning and
    # applying command, with and without --output json
    with cli.Sandbox([{"p": "a.txt", "k": "f", "c": b"old_name\n", "m": 0o644}]) as sb:
        rb = os.fsencode(str(sb.root))
        for d in (rb + b"/w\xffork/src", rb + b"/plain/d\xfe", rb + b"/plain/old_name_\xfd"):
            os.makedirs(d)
            with open(d + b"/old_name_\xfc.txt", "wb") as fh:
                fh.write(b"old_name OldName\n")
            with open(d + b"/old_name.txt", "wb") as fh:
                fh.write(b"old_name OldName\n")
        for cmd in (["search", "old_name"], ["plan", "old_name", "new_name", "--dry-run"], ["plan", "old_name", "new_name"], ["apply"],
                    ["rename", "old_name", "new_name", "--dry-run"], ["replace", "old_name", "new_name", "--dry-run"],
                    ["rename", "old_name", "new_name"], ["undo", "latest"], ["status"], ["history"]):
            for out in ([], ["--output", "json"], ["--preview", "diff"] if cmd[0] in ("plan", "rename", "search") else ["--quiet"]):
                for cwd, extra in ((rb + b"/w\xffork", []), (rb + b"/plain", [b"d\xfe"] if cmd[0] in ("search", "plan", "rename", "replace") else []),
                                   (rb + b"/plain", [])):
                    args = ["--no-auto-init", "-y"] + cmd + extra + out
                    rc, o, e = sb.run(args, timeout=60, cwd=cwd)
                    stats["cli_runs"] += 1
                    stats["non_utf8_place_runs"] = stats.get("non_utf8_place_runs", 0) + 1
                    stats["exit_codes"][rc] = stats["exit_codes"].get(rc, 0) + 1
                    shown = [a if isinstance(a, str) else repr(a) for a in args]
                    R.case(("nonutf8_place", tuple(shown), repr(cwd[len(rb):])), nontrivial=True)
                    err = e.decode("utf-8", "replace")
                    if rc == 101 or "panicked at" in err or rc not in OK_EXITS:
                        fails.append({"why": f"command exited with status {rc} in a place with a non-UTF-8 name" + (": " + err[err.find("panicked at"):][:200] if "panicked at" in err else ""),
                                      "args": shown, "cwd_below_root": repr(cwd[len(rb):]), "history": [shown], "build": "debug"})
    # every enumerated value of every option of every subcommand, once on its own (the values come from the real clap grammar)
    small = [{"p": "a.txt", "k": "f", "c": b"old_name OldName old-name\nOld Name\n", "m": 0o644}, {"p": "old_name_dir", "k": "d", "m": 0o755}]
    for sc in grammar["subcommands"]:
        if sc["name"] in GRAMMAR_SKIP_CMDS:
            continue
        pos = sorted([a for a in sc["args"] if a["positional"] and a["required"]], key=lambda a: a["index"] or 0)
        base = ["--no-auto-init", "-y", sc["name"]] + ["latest" if a["id"] == "id" else "old_name" if k == 0 else "new_name" for k, a in enumerate(pos)]
        has_dry = any(a["long"] == "dry-run" for a in sc["args"])
        with cli.Sandbox(small) as sb:
            for a in sc["args"]:
                if a["positional"] or a["global"] or not a["long"] or not a["takes_value"] or not a["possible"]:
                    continue
                for val in a["possible"]:
                    args = base + ["--" + a["long"], val] + (["--dry-run"] if has_dry else [])
                    rc, o, e = sb.run(args, timeout=60)
                    stats["enumerated_value_runs"] = stats.get("enumerated_value_runs", 0) + 1
                    stats["exit_codes"][rc] = stats["exit_codes"].get(rc, 0) + 1
                    R.case(("enum", tuple(args)), nontrivial=True)
                    err = e.decode("utf-8", "replace")
                    if rc == 101 or "panicked at" in err or rc not in OK_EXITS:
                        fails.append({"why": f"command exited with status {rc}" + (": " + err[err.find("panicked at"):][:200] if "panicked at" in err else ""),
                                      "args": args, "tree": cli.tree_json(small), "history": [args], "build": "debug"})
    R.coverage["input_distribution"] = stats
    for f in fails[:3]:
        R.violation(f["why"], {"kind": "impl_failure", **f})
    if fails:
        return
    if not proved:
        R.violation("proof obligation of Props/C16.v no longer checks (no crashing input found)",
                    {"kind": "proof_broken", **getattr(R, "broken", {})}, has_input=False)


def replay(R, obj):
    print(json.dumps({k: v for k, v in obj.items() if k != "tree"}, indent=1)[:2500])
    if "request" in obj:
        hp, _ = core.build_harness()
        H = core.Harness([str(hp)])
        resp = H.ask(obj["request"])
        H.close()
        print("harness:", str(resp)[:400])
        return 1 if ("panic" in resp or "crash" in resp) else 0
    if "args" in obj and "tree" in obj:
        with cli.Sandbox(cli.tree_from_json(obj["tree"])) as sb:
            for args in obj.get("history", [obj["args"]]):
                rc, o, e = sb.run(args)
                print(args, "->", rc, e.decode("utf-8", "replace")[-200:])
                if rc == 101:
                    return 1
    return 0
