import re
from pathlib import Path


class TranslateError(Exception):
    pass


def coq_bytes(s):
    """Coq term of type bytes (list N) for a python str/bytes."""
    if isinstance(s, str):
        s = s.encode("utf-8")
    return "[" + "; ".join(str(b) for b in s) + "]%N"


def write_if_changed(path: Path, text: str):
    path.parent.mkdir(parents=True, exist_ok=True)
    if path.exists() and path.read_text() == text:
        return False
    path.write_text(text)
    return True


def rust_struct_body(src: str, name: str) -> str:
    m = re.search(r"pub struct " + re.escape(name) + r"\s*\{", src)
    if not m:
        raise TranslateError(f"struct {name} not found")
    i = m.end()
    depth = 1
    j = i
    while j < len(src) and depth > 0:
        if src[j] == "{":
            depth += 1
        elif src[j] == "}":
            depth -= 1
        j += 1
    return src[i:j - 1]


def strip_line_comment(ln):
    # remove // comments (not inside strings; the sources keep it simple)
    out = []
    instr = False
    i = 0
    while i < len(ln):
        c = ln[i]
        if c == '"' and (i == 0 or ln[i - 1] != "\\"):
            instr = not instr
        if not instr and ln.startswith("//", i):
            break
        out.append(c)
        i += 1
    return "".join(out)
