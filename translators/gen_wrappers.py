"""GenWrappers.v: every args-builder of the MCP service and of the VS Code CLI service, translated from
TypeScript to a Gallina function from an option record to an argument vector, plus, per builder, the
list of its option fields with their kinds and representative values (from the TS types).
Restricted TS subset: array literal, args.push, if / else if / else, for-of, helper calls
this.addX(args, ...), `?.length`, `=== false`, `!== undefined`, `||`, `.join(',')`, `.toString()`.
Anything else that touches `args` makes the translator fail loudly."""
import re
from common import TranslateError, coq_bytes

MCP = "renamify-mcp/src/renamify-service.ts"
VSC = "renamify-vscode/extension/src/cliService.ts"

# (coq name, file, method, how the arguments of the method are named in the option record)
BUILDERS = [
    ("mcp_available", MCP, "checkAvailability"), ("mcp_version", MCP, "getCliVersion"),
    ("mcp_search", MCP, "buildSearchArgs"), ("mcp_plan", MCP, "buildPlanArgs"), ("mcp_apply", MCP, "buildApplyArgs"),
    ("mcp_undo", MCP, "undo"), ("mcp_redo", MCP, "redo"), ("mcp_history", MCP, "history"), ("mcp_status", MCP, "status"),
    ("mcp_preview", MCP, "buildPreviewArgs"), ("mcp_rename", MCP, "rename"), ("mcp_replace", MCP, "replace"),
    ("vsc_search", VSC, "search"), ("vsc_plan", VSC, "createPlan"), ("vsc_rename", VSC, "rename"), ("vsc_apply", VSC, "apply"),
    ("vsc_undo", VSC, "undo"), ("vsc_redo", VSC, "redo"), ("vsc_history", VSC, "history"), ("vsc_status", VSC, "status"),
]


def strip_comments(src):
    src = re.sub(r"/\*.*?\*/", "", src, flags=re.S)
    return re.sub(r"(?m)//[^\n]*$", "", src)


def balanced(src, i, open_c, close_c):
    """src[i] == open_c; returns index just after the matching close"""
    depth, j, n = 0, i, len(src)
    instr = None
    while j < n:
        c = src[j]
        if instr:
            if c == "\\":
                j += 2
                continue
            if c == instr:
                instr = None
        elif c in "'\"`":
            instr = c
        elif c == open_c:
            depth += 1
        elif c == close_c:
            depth -= 1
            if depth == 0:
                return j + 1
        j += 1
    raise TranslateError("unbalanced " + open_c)


def find_method(src, name):
    for m in re.finditer(r"(?m)^\s*(?:private\s+|public\s+)?(?:async\s+)?" + re.escape(name) + r"\s*\(", src):
        pstart = src.index("(", m.start())
        pend = balanced(src, pstart, "(", ")")
        k = pend
        # skip return type up to the body's opening brace (types may contain braces only inside generics we do not use)
        b, adepth = -1, 0
        for j in range(k, min(len(src), k + 400)):
            if src[j] == "<":
                adepth += 1
            elif src[j] == ">" and src[j - 1] != "=":
                adepth -= 1
            elif src[j] == "{" and adepth == 0:
                b = j
                break
            elif src[j] == ";" and adepth == 0:
                break
        if b < 0:
            continue
        # `Promise<{...}>` is not used in these files; take the first '{' after the parameter list
        bend = balanced(src, b, "{", "}")
        return src[pstart + 1:pend - 1], src[b + 1:bend - 1]
    raise TranslateError(f"method {name} not found")


def split_args(s):
    out, depth, cur, instr = [], 0, "", None
    for c in s:
        if instr:
            cur += c
            if c == instr:
                instr = None
            continue
        if c in "'\"`":
            instr = c
            cur += c
        elif c in "([{":
            depth += 1
            cur += c
        elif c in ")]}":
            depth -= 1
            cur += c
        elif c == "," and depth == 0:
            out.append(cur.strip())
            cur = ""
        else:
            cur += c
    if cur.strip():
        out.append(cur.strip())
    return out


class Tr:
    def __init__(self, src, fname):
        self.src = strip_comments(src)
        self.fname = fname
        self.fields = {}      # field -> kind evidence set

    def note(self, f, kind):
        self.fields.setdefault(f, set()).add(kind)

    def field_of(self, e, env):
        e = e.strip()
        if e in env:
            return env[e]
        m = re.match(r"^options\.(\w+)$", e)
        if m:
            return ("field", m.group(1))
        m = re.match(r"^(\w+)$", e)
        if m:
            return ("field", m.group(1))
        raise TranslateError(f"{self.fname}: expression not understood: {e!r}")

    def expr(self, e, env):
        e = e.strip()
        m = re.match(r"^'([^']*)'$", e) or re.match(r'^"([^"]*)"$', e)
        if m:
            return ("lit", m.group(1))
        if e.startswith("..."):
            f = self.field_of(e[3:], env)
            self.note(f[1], "list")
            return ("spread", f[1])
        m = re.match(r"^(.+)\.join\(\s*'([^']*)'\s*\)$", e)
        if m:
            f = self.field_of(m.group(1), env)
            self.note(f[1], "list")
            if m.group(2) != ",":
                raise TranslateError(f"{self.fname}: join separator {m.group(2)!r} not supported")
            return ("join", f[1])
        m = re.match(r"^(.+)\.toString\(\)$", e)
        if m:
            f = self.field_of(m.group(1), env)
            self.note(f[1], "num")
            return ("str", f[1])
        m = re.match(r"^(.+?)\s*\|\|\s*'([^']*)'$", e)
        if m:
            f = self.field_of(m.group(1), env)
            self.note(f[1], "str")
            return ("or", f[1], m.group(2))
        f = self.field_of(e, env)
        if f[0] == "loopvar":
            return f
        self.note(f[1], "str")
        return ("val", f[1])

    def cond(self, c, env):
        c = c.strip()
        if "||" in c:
            a, b = c.split("||", 1)
            return ("or", self.cond(a, env), self.cond(b, env))
        m = re.match(r"^!config\.get\(\s*'(\w+)'\s*\)$", c)
        if m:
            self.note("config." + m.group(1), "bool")
            return ("not_truthy", "config." + m.group(1))
        m = re.match(r"^(.+?)\?\.length$", c)
        if m:
            f = self.field_of(m.group(1), env)
            self.note(f[1], "list")
            return ("has_len", f[1])
        m = re.match(r"^(.+?)\s*&&\s*(.+?)\.length\s*>\s*0$", c)
        if m and m.group(1).strip() == m.group(2).strip():
            f = self.field_of(m.group(1), env)
            self.note(f[1], "list")
            return ("has_len", f[1])
        m = re.match(r"^(.+?)\s*===\s*false$", c)
        if m:
            f = self.field_of(m.group(1), env)
            self.note(f[1], "bool")
            return ("is_false", f[1])
        m = re.match(r"^(.+?)\s*!==\s*undefined$", c)
        if m:
            f = self.field_of(m.group(1), env)
            return ("defined", f[1])
        f = self.field_of(c, env)
        self.note(f[1], "truthy")
        return ("truthy", f[1])

    def block(self, text, env, depth=0):
        """returns list of IR statements"""
        out, i, n = [], 0, len(text)
        if depth > 4:
            raise TranslateError("helper nesting too deep")
        while i < n:
            if text[i].isspace() or text[i] == ";":
                i += 1
                continue
            rest = text[i:]
            m = re.match(r"if\s*\(", rest)
            if m and not re.search(r"\bargs\b", text[i:self.stmt_end(text, i)]):
                i = self.stmt_end(text, i)      # control flow that does not touch the argument vector
                continue
            if m:
                ce = balanced(text, i + m.end() - 1, "(", ")")
                cond = self.cond(text[i + m.end():ce - 1], env)
                j = ce
                while text[j].isspace():
                    j += 1
                if text[j] == "{":
                    be = balanced(text, j, "{", "}")
                    then = self.block(text[j + 1:be - 1], env, depth)
                else:
                    be = text.index(";", j) + 1
                    then = self.block(text[j:be], env, depth)
                els = []
                k = be
                m2 = re.match(r"\s*else\s*", text[k:])
                if m2:
                    k += m2.end()
                    if text[k:k + 2] == "if":
                        # else if: parse the rest as one nested statement
                        sub_end = self.stmt_end(text, k)
                        els = self.block(text[k:sub_end], env, depth)
                        be = sub_end
                    else:
                        ee = balanced(text, k, "{", "}")
                        els = self.block(text[k + 1:ee - 1], env, depth)
                        be = ee
                out.append(("if", cond, then, els))
                i = be
                continue
            m = re.match(r"try\s*\{", rest)
            if m:
                bs_ = i + m.end() - 1
                be = balanced(text, bs_, "{", "}")
                out.extend(self.block(text[bs_ + 1:be - 1], env, depth))
                i = be
                # catch / finally blocks must not build command lines
                while True:
                    m2 = re.match(r"\s*(catch\s*(\([^)]*\))?|finally)\s*\{", text[i:])
                    if not m2:
                        break
                    cb = i + m2.end() - 1
                    ce = balanced(text, cb, "{", "}")
                    if re.search(r"\bargs\b|execa\s*\(|runCli\s*\(|executeCommand\s*\(", text[cb:ce]):
                        raise TranslateError(f"{self.fname}: a catch/finally block builds or runs a command line")
                    i = ce
                continue
            m = re.match(r"for\s*\(\s*const\s+(\w+)\s+of\s+([\w.]+)\s*\)\s*\{", rest)
            if m:
                bs_ = i + m.end() - 1
                be = balanced(text, bs_, "{", "}")
                f = self.field_of(m.group(2), env)
                self.note(f[1], "list")
                env2 = dict(env)
                env2[m.group(1)] = ("loopvar", m.group(1))
                out.append(("foreach", f[1], m.group(1), self.block(text[bs_ + 1:be - 1], env2, depth)))
                i = be
                continue
            m = re.match(r"const\s+args\s*=\s*\[", rest)
            if m:
                ae = balanced(text, i + m.end() - 1, "[", "]")
                out.append(("push", [self.expr(x, env) for x in split_args(text[i + m.end():ae - 1])]))
                i = ae
                continue
            m = re.match(r"args\.push\s*\(", rest)
            if m:
                pe = balanced(text, i + m.end() - 1, "(", ")")
                out.append(("push", [self.expr(x, env) for x in split_args(text[i + m.end():pe - 1])]))
                i = pe
                continue
            m = re.match(r"this\.(\w+)\s*\(\s*args\s*,?", rest)
            if m:
                ps = text.index("(", i)
                pe = balanced(text, ps, "(", ")")
                actual = split_args(text[ps + 1:pe - 1])[1:]
                params, body = find_method(self.src, m.group(1))
                formal = [re.sub(r"[?]?\s*:.*$", "", p, flags=re.S).strip() for p in split_args(params)][1:]
                if len(formal) != len(actual):
                    raise TranslateError(f"{self.fname}: helper {m.group(1)} arity mismatch")
                env2 = {fp: self.field_of(ap, env) for fp, ap in zip(formal, actual)}
                out.extend(self.block(body, env2, depth + 1))
                i = pe
                continue
            # a statement that must not touch args: runCli(['undo', id, ...]) / executeCommand(['status'], ..) inline arrays
            m = re.match(r"(?:const\s+\w+\s*=\s*)?(?:return\s+)?(?:await\s+)?(?:this\.(?:runCli|executeCommand)\s*\(|execa\s*\(\s*this\.renamifyPath\s*,)\s*\[", rest)
            if m:
                as_ = i + m.end() - 1
                ae = balanced(text, as_, "[", "]")
                out.append(("push", [self.expr(x, env) for x in split_args(text[as_ + 1:ae - 1])]))
                i = self.stmt_end(text, i)
                continue
            se = self.stmt_end(text, i)
            stmt = text[i:se]
            if re.search(r"\bargs\s*(\.|\[|=)", stmt) and not re.search(r"(runCli|executeCommand|execa)\s*\(\s*(this\.renamifyPath\s*,\s*)?args", stmt):
                raise TranslateError(f"{self.fname}: statement touching args not understood: {stmt.strip()[:80]!r}")
            i = se
        return out

    def stmt_end(self, text, i):
        """end of the statement starting at i (handles a trailing block)"""
        depth, j, n, instr = 0, i, len(text), None
        while j < n:
            c = text[j]
            if instr:
                if c == instr:
                    instr = None
            elif c in "'\"`":
                instr = c
            elif c in "([{":
                depth += 1
            elif c in ")]}":
                depth -= 1
                if depth == 0 and c == "}":
                    # `if (...) {...} else {...}` continues
                    m = re.match(r"\s*else\b", text[j + 1:])
                    if not m:
                        return j + 1
            elif c == ";" and depth == 0:
                return j + 1
            j += 1
        return n


def elems_coq(elems):
    parts = []
    for e in elems:
        if e[0] == "lit":
            parts.append(f"[{coq_bytes(e[1])}]")
        elif e[0] == "val":
            parts.append(f"[fstr o {coq_bytes(e[1])}]")
        elif e[0] == "spread":
            parts.append(f"flist o {coq_bytes(e[1])}")
        elif e[0] == "join":
            parts.append(f"[fjoin o {coq_bytes(e[1])}]")
        elif e[0] == "str":
            parts.append(f"[fstr o {coq_bytes(e[1])}]")
        elif e[0] == "or":
            parts.append(f"[if truthy o {coq_bytes(e[1])} then fstr o {coq_bytes(e[1])} else {coq_bytes(e[2])}]")
        elif e[0] == "loopvar":
            parts.append(f"[{e[1]}]")
        else:
            raise TranslateError(f"element {e}")
    return " ++ ".join(parts) if parts else "[]"


def cond_coq(c):
    k = c[0]
    if k == "or":
        return f"({cond_coq(c[1])} || {cond_coq(c[2])})"
    if k == "not_truthy":
        return f"negb (truthy o {coq_bytes(c[1])})"
    return f"{k} o {coq_bytes(c[1])}"


def stmts_coq(stmts):
    parts = []
    for s in stmts:
        if s[0] == "push":
            parts.append("(" + elems_coq(s[1]) + ")")
        elif s[0] == "if":
            parts.append(f"(if {cond_coq(s[1])} then {stmts_coq(s[2])} else {stmts_coq(s[3])})")
        elif s[0] == "foreach":
            parts.append(f"(flat_map (fun {s[2]} => {stmts_coq(s[3])}) (flist o {coq_bytes(s[1])}))")
    return " ++ ".join(parts) if parts else "[]"


def field_types(src, params, fields):
    """kinds and representative values from the TS types: union literals, string[], boolean, number"""
    types = {}
    # inline option type or named interface
    m = re.search(r"options\s*:\s*\{(.*)\}", params, re.S)
    texts = [m.group(1)] if m else []
    m = re.search(r"options\s*:\s*(\w+)", params)
    if m and not texts:
        mi = re.search(r"(?:interface|type)\s+" + m.group(1) + r"\s*=?\s*\{(.*?)\n\}", src, re.S)
        if mi:
            texts.append(mi.group(1))
    # direct parameters: id?: string, limit?: number
    texts.append(params)
    for t in texts:
        for fm in re.finditer(r"(\w+)\??\s*:\s*([^;,\n]+)", t):
            types.setdefault(fm.group(1), fm.group(2).strip())
    return types


def domain(field, kinds, ty):
    """list of Coq fval terms: the values the field ranges over (absent first when optional)"""
    vals = []
    ty = ty or ""
    lits = re.findall(r"'([^']+)'", ty)
    if lits:
        vals = [f"FStr {coq_bytes(x)}" for x in lits]
    elif "[]" in ty or "list" in kinds:
        vals = ["FList [" + coq_bytes("snake") + "; " + coq_bytes("camel") + "]"] if "tyle" in field else \
               ["FList [" + coq_bytes("src/a") + "; " + coq_bytes("lib") + "]"]
    elif "boolean" in ty or kinds <= {"bool", "truthy"} and "bool" in kinds or (kinds == {"truthy"} and "string" not in ty and "number" not in ty):
        vals = ["FBool true", "FBool false"]
    elif "number" in ty or "num" in kinds:
        vals = ["FNum 5", "FNum 0"]      # 0 is falsy in JS (`if (limit)`) and a boundary value for the CLI's number parsers
    else:
        rep = "snake" if "tyle" in field else ("^skip" if "ines" in field else ("*.rs" if "clude" in field else "value"))
        vals = [f"FStr {coq_bytes(rep)}"]
    return vals


def generate(repo):
    out = ["(* GENERATED by translators/gen_wrappers.py from the TypeScript sources — do not edit *)",
           "From RN Require Import Base.Bytes Model.ClapDef.", "Open Scope bool_scope.", ""]
    names = []
    for cname, rel, meth in BUILDERS:
        src = (repo / rel).read_text()
        tr = Tr(src, f"{rel}:{meth}")
        params, body = find_method(tr.src, meth)
        env = {}
        # positional method parameters (searchTerm, replaceTerm, id, limit, planId) are fields of the same record
        stmts = tr.block(body, env)
        if not any(s[0] == "push" for s in stmts) and not any(s[0] in ("if", "foreach") for s in stmts):
            raise TranslateError(f"{rel}:{meth}: no argument vector found")
        out.append(f"Definition build_{cname} (o : opts) : list bytes :=\n  {stmts_coq(stmts)}.")
        types = field_types(tr.src, params, tr.fields)
        # required = the fields that are pushed unconditionally at top level as values
        required = set()
        for s in stmts:
            if s[0] == "push":
                required |= {e[1] for e in s[1] if e[0] == "val"}
        rows = []
        for f in sorted(tr.fields):
            dom = domain(f, tr.fields[f], types.get(f))
            opt = "false" if f in required else "true"
            rows.append(f"  ({coq_bytes(f)}, {opt}, [{'; '.join(dom)}])")
        out.append(f"Definition fields_{cname} : list (bytes * bool * list fval) := [\n" + ";\n".join(rows) + "\n].\n")
        names.append(cname)
    out.append("Definition gen_builders : list (bytes * (opts -> list bytes) * list (bytes * bool * list fval)) := [")
    out.append(";\n".join(f"  ({coq_bytes(n)}, build_{n}, fields_{n})" for n in names))
    out.append("].\n")
    return "\n".join(out)
