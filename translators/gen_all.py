"""Regenerate rocq/Gen/*.v from the current /repo working tree."""
import importlib
import sys
import traceback
from pathlib import Path

sys.path.insert(0, str(Path(__file__).resolve().parent))
from common import TranslateError, write_if_changed  # noqa: E402

GENERATORS = [
    ("gen_serde", "generate", "GenSerde.v"),
    ("gen_styles", "generate_styles", "GenStyles.v"),
    ("gen_styles", "generate_acronyms", "GenAcronyms.v"),
    ("gen_lock", "generate", "GenLock.v"),
    ("gen_walker", "generate", "GenWalker.v"),
    ("gen_cli", "generate", "GenCli.v"),
    ("gen_wrappers", "generate", "GenWrappers.v"),
    ("gen_shapes", "generate", "GenShapes.v"),
    ("gen_constraints", "generate", "GenConstraints.v"),
]


FALLBACK = Path(__file__).resolve().parent / "fallback"
FAILED_FILES = {}     # "Gen/GenX.v" -> error text, filled by run()


def _failed(outdir, fname, why):
    """A translator could not read the current source. Every property whose proof depends on this table is reported as
    broken by lib/core.py (FAILED_FILES is matched against the property's dependency cone). So that the OTHER properties
    still build (one extraction unit holds all models), the last table that was translated successfully - committed under
    translators/fallback/ - is written with a banner; without one, a file that cannot be compiled."""
    FAILED_FILES["Gen/" + fname] = why
    fb = FALLBACK / fname
    if fb.exists():
        write_if_changed(Path(outdir) / fname, f"(* TRANSLATOR FAILED on the current source: {why.splitlines()[0][:200]} -- FALLBACK TABLE, "
                         "properties depending on it are reported as not shown *)\n" + fb.read_text())
    else:
        write_if_changed(Path(outdir) / fname, f"(* translator failed: {why.splitlines()[0][:200]} *)\nDefinition translator_failed : False := I.\n")


def run(repo: Path, outdir: Path):
    errors = []
    FAILED_FILES.clear()
    for modname, fn, fname in GENERATORS:
        try:
            mod = importlib.import_module(modname)
            text = getattr(mod, fn)(Path(repo))
            write_if_changed(Path(outdir) / fname, text + "\n")
        except TranslateError as e:
            errors.append(f"{modname}: {e}")
            _failed(outdir, fname, str(e))
        except Exception:
            errors.append(f"{modname}: {traceback.format_exc()}")
            _failed(outdir, fname, "translator crashed: " + traceback.format_exc().splitlines()[-1])
    return errors


if __name__ == "__main__":
    errs = run(Path(sys.argv[1] if len(sys.argv) > 1 else "/repo"),
               Path(__file__).resolve().parent.parent / "rocq" / "Gen")
    for e in errs:
        print("ERROR", e)
    sys.exit(1 if errs else 0)
