"""Regenerate rocq/Gen/*.v from the current /repo working tree."""
import importlib
import sys
import traceback
from pathlib import Path

sys.path.insert(0, str(Path(__file__).resolve().parent))
from common import TranslateError, write_if_changed  # noqa: E402

GENERATORS = [
    ("gen_serde", "generate", "GenSerde.v"),
    ("gen_styles", "generate_styles", "GenStyles.v"),
    ("gen_styles", "generate_acronyms", "GenAcronyms.v"),
    ("gen_lock", "generate", "GenLock.v"),
    ("gen_walker", "generate", "GenWalker.v"),
    ("gen_cli", "generate", "GenCli.v"),
    ("gen_wrappers", "generate", "GenWrappers.v"),
    ("gen_shapes", "generate", "GenShapes.v"),
    ("gen_constraints", "generate", "GenConstraints.v"),
]


def run(repo: Path, outdir: Path):
    errors = []
    for modname, fn, fname in GENERATORS:
        try:
            mod = importlib.import_module(modname)
            text = getattr(mod, fn)(Path(repo))
            write_if_changed(Path(outdir) / fname, text + "\n")
        except TranslateError as e:
            errors.append(f"{modname}: {e}")
            # leave a file that cannot be compiled, so no stale table is silently used
            write_if_changed(Path(outdir) / fname, f"(* translator failed: {e} *)\nDefinition translator_failed : False := I.\n")
        except Exception:
            errors.append(f"{modname}: {traceback.format_exc()}")
            write_if_changed(Path(outdir) / fname, "(* translator crashed *)\nDefinition translator_failed : False := I.\n")
    return errors


if __name__ == "__main__":
    errs = run(Path(sys.argv[1] if len(sys.argv) > 1 else "/repo"),
               Path(__file__).resolve().parent.parent / "rocq" / "Gen")
    for e in errs:
        print("ERROR", e)
    sys.exit(1 if errs else 0)
