"""GenShapes.v (C19):
 gen_rdefs : the Rust types that reach --output json, with their serde attributes: Plan, MatchHunk, Rename, Stats,
             HistoryEntry, the unit enums Style / RenameKind (rename_all applied), the result structs of output.rs, and,
             for every `json!({...})` envelope of output.rs::format_json, a synthetic struct "<Type>.json" whose fields
             are the keys of the template typed by the expressions they hold;
 gen_tdefs : the published TypeScript bindings, renamify-core/bindings/*.d.ts."""
import re
from common import TranslateError, coq_bytes, rust_struct_body, strip_line_comment
from gen_serde import parse_struct, struct_level_attrs

STRUCTS = [
    ("renamify-core/src/scanner.rs", "Plan"), ("renamify-core/src/scanner.rs", "MatchHunk"),
    ("renamify-core/src/scanner.rs", "Rename"), ("renamify-core/src/scanner.rs", "Stats"),
    ("renamify-core/src/history.rs", "HistoryEntry"),
    ("renamify-core/src/output.rs", "PlanResult"), ("renamify-core/src/output.rs", "ApplyResult"),
    ("renamify-core/src/output.rs", "UndoResult"), ("renamify-core/src/output.rs", "RedoResult"),
    ("renamify-core/src/output.rs", "StatusResult"), ("renamify-core/src/output.rs", "PendingPlan"),
    ("renamify-core/src/output.rs", "HistoryResult"), ("renamify-core/src/output.rs", "HistoryItem"),
    ("renamify-core/src/output.rs", "RenameResult"), ("renamify-core/src/output.rs", "VersionResult"),
]
ENUMS = [("renamify-core/src/case_model.rs", "Style"), ("renamify-core/src/scanner.rs", "RenameKind")]
NUMS = {"u8", "u16", "u32", "u64", "usize", "i32", "i64", "isize"}


def split_top(s, sep=","):
    out, depth, cur = [], 0, ""
    for c in s:
        if c in "<([{":
            depth += 1
        elif c in ">)]}":
            depth -= 1
        if c == sep and depth == 0:
            out.append(cur.strip())
            cur = ""
        else:
            cur += c
    if cur.strip():
        out.append(cur.strip())
    return out


def rty(ty, known, where):
    ty = ty.strip()
    ty = re.sub(r"^(crate::)?(\w+::)*(?=\w+(<|$))", "", ty)
    if ty in ("String", "PathBuf", "&str", "str"):
        return "RStr"
    if ty in NUMS:
        return "RNum"
    if ty == "bool":
        return "RBool"
    m = re.match(r"^Option<(.*)>$", ty)
    if m:
        return f"(ROpt {rty(m.group(1), known, where)})"
    m = re.match(r"^Vec<(.*)>$", ty)
    if m:
        return f"(RVec {rty(m.group(1), known, where)})"
    m = re.match(r"^(BTreeMap|HashMap)<(.*)>$", ty)
    if m:
        k, v = split_top(m.group(2))
        if k.strip() not in ("String", "PathBuf"):
            raise TranslateError(f"{where}: map key type {k} not modelled")
        return f"(RMap {rty(v, known, where)})"
    m = re.match(r"^\((.*)\)$", ty)
    if m:
        parts = split_top(m.group(1))
        if len(parts) != 2:
            raise TranslateError(f"{where}: tuple arity {len(parts)} not modelled")
        return f"(RPair {rty(parts[0], known, where)} {rty(parts[1], known, where)})"
    if ty in known:
        return f"(RRef {coq_bytes(ty)})"
    raise TranslateError(f"{where}: type {ty} not modelled")


def rename_all(rule, name):
    if rule is None:
        return name
    if rule == "lowercase":
        return name.lower()
    if rule == "UPPERCASE":
        return name.upper()
    words = re.findall(r"[A-Z][a-z0-9]*", name)
    if rule == "snake_case":
        return "_".join(w.lower() for w in words)
    if rule == "kebab-case":
        return "-".join(w.lower() for w in words)
    if rule == "camelCase":
        return words[0].lower() + "".join(words[1:])
    raise TranslateError(f"rename_all = {rule} not modelled")


def parse_enum(src, name):
    m = re.search(r"((?:#\[[^\n]*\]\s*\n)+)pub enum " + name + r"\s*\{", src)
    if not m:
        raise TranslateError(f"enum {name} not found")
    attrs = m.group(1)
    rule = None
    for a in re.findall(r"#\[serde\((.*?)\)\]", attrs):
        mm = re.match(r'rename_all\s*=\s*"([^"]+)"$', a.strip())
        if not mm:
            raise TranslateError(f"{name}: container serde attribute not understood: {a}")
        rule = mm.group(1)
    i = m.end()
    j = src.index("}", i)
    variants = []
    for raw in src[i:j].splitlines():
        ln = strip_line_comment(raw).strip().rstrip(",")
        if not ln or ln.startswith("///"):
            continue
        if ln.startswith("#["):
            if "serde" in ln:
                raise TranslateError(f"{name}: variant attribute not understood: {ln}")
            continue
        if not re.match(r"^[A-Z]\w*$", ln):
            raise TranslateError(f"{name}: only unit variants are modelled: {ln}")
        variants.append(rename_all(rule, ln))
    return variants


# ---- json!({...}) envelopes of output.rs
def find_format_json(src, name):
    m = re.search(r"impl OutputFormatter for " + name + r"\s*\{", src)
    if not m:
        return None
    k = src.index("fn format_json", m.end())
    b = src.index("{", k)
    depth, j = 0, b
    while True:
        if src[j] == "{":
            depth += 1
        elif src[j] == "}":
            depth -= 1
            if depth == 0:
                break
        j += 1
    return src[b + 1:j]


def parse_json_obj(text, sname, fields, known, synth, path):
    """text: the inside of a json!-object literal; returns list of (key, rty)"""
    out = []
    for part in split_top(text):
        if not part:
            continue
        m = re.match(r'^"([^"]+)"\s*:\s*(.*)$', part, re.S)
        if not m:
            raise TranslateError(f"{sname}.format_json: entry not understood: {part[:60]}")
        key, expr = m.group(1), m.group(2).strip()
        if expr in ("true", "false"):
            t = "RBool"
        elif re.match(r'^"[^"]*"$', expr):
            t = "RStr"
        elif re.match(r'^if\s+self\.\w+\.is_empty\(\)\s*\{\s*"[^"]*"\s*\}\s*else\s*\{\s*"[^"]*"\s*\}$', expr):
            t = "RStr"
        elif re.match(r"^self\.(\w+)$", expr):
            f = re.match(r"^self\.(\w+)$", expr).group(1)
            if f not in fields:
                raise TranslateError(f"{sname}.format_json: unknown field {f}")
            t = rty(fields[f], known, sname)
        elif expr.startswith("{") and expr.endswith("}"):
            sub = f"{path}.{key}"
            synth[sub] = parse_json_obj(expr[1:-1], sname, fields, known, synth, sub)
            t = f"(RRef {coq_bytes(sub)})"
        else:
            raise TranslateError(f"{sname}.format_json: value not understood: {expr[:60]}")
        out.append((key, t))
    return out


def envelope(src, name, fields, known, synth):
    body = find_format_json(src, name)
    if body is None:
        raise TranslateError(f"format_json of {name} not found")
    if re.search(r"serde_json::to_string\(\s*&?self\s*\)", body):
        synth[name + ".json"] = None        # alias of the struct itself
        return
    m = re.search(r"json!\(\s*\{", body)
    if not m:
        raise TranslateError(f"{name}.format_json: neither json! nor to_string(&self)")
    b = m.end() - 1
    depth, j = 0, b
    while True:
        if body[j] == "{":
            depth += 1
        elif body[j] == "}":
            depth -= 1
            if depth == 0:
                break
        j += 1
    synth[name + ".json"] = parse_json_obj(body[b + 1:j], name, fields, known, synth, name + ".json")


# ---- TypeScript bindings
class TsParser:
    def __init__(self, s):
        self.s, self.i = s, 0

    def ws(self):
        while self.i < len(self.s) and self.s[self.i].isspace():
            self.i += 1

    def eat(self, tok):
        self.ws()
        if self.s.startswith(tok, self.i):
            self.i += len(tok)
            return True
        return False

    def expect(self, tok):
        if not self.eat(tok):
            raise TranslateError(f"TS: expected {tok!r} at {self.s[self.i:self.i + 30]!r}")

    def ident(self):
        self.ws()
        m = re.match(r"[A-Za-z_]\w*", self.s[self.i:])
        if not m:
            raise TranslateError(f"TS: identifier expected at {self.s[self.i:self.i + 30]!r}")
        self.i += m.end()
        return m.group(0)

    def union(self):
        self.eat("|")
        parts = [self.postfix()]
        while self.eat("|"):
            parts.append(self.postfix())
        return parts[0] if len(parts) == 1 else "(TUnion [" + "; ".join(parts) + "])"

    def postfix(self):
        t = self.atom()
        while self.eat("[]"):
            t = f"(TArr {t})"
        return t

    def atom(self):
        self.ws()
        if self.eat("{"):
            fs = []
            while not self.eat("}"):
                self.ws()
                qm = re.match(r'"([^"]*)"', self.s[self.i:])
                if qm:
                    self.i += qm.end()
                    name = qm.group(1)
                else:
                    name = self.ident()
                opt = self.eat("?")
                self.expect(":")
                t = self.union()
                fs.append(f"({coq_bytes(name)}, {'true' if opt else 'false'}, {t})")
                if not self.eat(","):
                    self.eat(";")
            return "(TObj [" + "; ".join(fs) + "])"
        if self.eat("["):
            ts = []
            while not self.eat("]"):
                ts.append(self.union())
                self.eat(",")
            return "(TTuple [" + "; ".join(ts) + "])"
        if self.eat("("):
            t = self.union()
            self.expect(")")
            return t
        m = re.match(r'"([^"]*)"', self.s[self.i:])
        if m:
            self.i += m.end()
            return f"(TLit {coq_bytes(m.group(1))})"
        name = self.ident()
        if name in ("Array", "Record"):
            self.expect("<")
            a = self.union()
            if name == "Record":
                if a != "TStr":
                    raise TranslateError("TS: Record key must be string")
                self.expect(",")
                a = self.union()
            self.expect(">")
            return f"(TArr {a})" if name == "Array" else f"(TRecord {a})"
        return {"string": "TStr", "number": "TNum", "bigint": "TNum", "boolean": "TBool", "null": "TNull"}.get(name, f"(TRef {coq_bytes(name)})")


def parse_dts(text):
    text = re.sub(r"/\*.*?\*/", "", text, flags=re.S)
    text = re.sub(r"(?m)//[^\n]*$", "", text)
    out = []
    for m in re.finditer(r"(?:declare|export)\s+type\s+(\w+)\s*=", text):
        p = TsParser(text)
        p.i = m.end()
        t = p.union()
        p.expect(";")
        out.append((m.group(1), t))
    return out


def generate(repo):
    out = ["(* GENERATED by translators/gen_shapes.py from the Rust sources and renamify-core/bindings/*.d.ts — do not edit *)",
           "From RN Require Import Base.Bytes Model.SerdeAttr Model.Shapes.", ""]
    known = {n for _, n in STRUCTS} | {n for _, n in ENUMS}
    rows, synth, struct_fields = [], {}, {}
    for rel, name in STRUCTS:
        src = (repo / rel).read_text()
        struct_level_attrs(src, name)
        fields = parse_struct(src, name)
        struct_fields[name] = fields
        fr = "; ".join(f"({coq_bytes(f)}, {rty(ty, known, name)}, {sk})" for (f, ty, sk, _) in fields)
        rows.append(f"  ({coq_bytes(name)}, RStruct [{fr}])")
    for rel, name in ENUMS:
        vs = parse_enum((repo / rel).read_text(), name)
        rows.append(f"  ({coq_bytes(name)}, REnum [{'; '.join(coq_bytes(v) for v in vs)}])")
    osrc = (repo / "renamify-core/src/output.rs").read_text()
    aliases = []
    for rel, name in STRUCTS:
        if rel.endswith("output.rs") and re.search(r"impl OutputFormatter for " + name + r"\b", osrc):
            envelope(osrc, name, {f: ty for (f, ty, _, _) in struct_fields[name]}, known, synth)
    for sname, fs in synth.items():
        if fs is None:
            base = sname[:-5]
            fr = "; ".join(f"({coq_bytes(f)}, {rty(ty, known, base)}, {sk})" for (f, ty, sk, _) in struct_fields[base])
        else:
            fr = "; ".join(f"({coq_bytes(k)}, {t}, SkNever)" for k, t in fs)
        rows.append(f"  ({coq_bytes(sname)}, RStruct [{fr}])")
    out.append("Definition gen_rdefs : rdefs := [\n" + ";\n".join(rows) + "\n].\n")
    trows = []
    bdir = repo / "renamify-core/bindings"
    files = sorted(bdir.glob("*.d.ts"))
    if not files:
        raise TranslateError("no bindings found")
    for f in files:
        for name, t in parse_dts(f.read_text()):
            trows.append(f"  ({coq_bytes(name)}, {t})")
    out.append("Definition gen_tdefs : tdefs := [\n" + ";\n".join(trows) + "\n].\n")
    out.append("Definition gen_envelopes : list bytes := [" + "; ".join(coq_bytes(s) for s in synth if s.endswith(".json")) + "].\n")
    return "\n".join(out)
