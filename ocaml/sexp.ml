(* minimal s-expressions for the model driver protocol *)
type t = A of string | L of t list

let parse (s : string) : t =
  let n = String.length s in
  let pos = ref 0 in
  let rec skip () = if !pos < n && (s.[!pos] = ' ' || s.[!pos] = '\t') then (incr pos; skip ()) in
  let rec rd () : t =
    skip ();
    if !pos >= n then A ""
    else if s.[!pos] = '(' then begin
      incr pos;
      let items = ref [] in
      let rec loop () =
        skip ();
        if !pos >= n then ()
        else if s.[!pos] = ')' then incr pos
        else (items := rd () :: !items; loop ()) in
      loop ();
      L (List.rev !items)
    end else begin
      let st = !pos in
      while !pos < n && s.[!pos] <> ' ' && s.[!pos] <> '(' && s.[!pos] <> ')' && s.[!pos] <> '\t' do incr pos done;
      A (String.sub s st (!pos - st))
    end in
  rd ()

let rec to_buf b = function
  | A s -> Buffer.add_string b s
  | L l -> Buffer.add_char b '(';
    List.iteri (fun i x -> if i > 0 then Buffer.add_char b ' '; to_buf b x) l;
    Buffer.add_char b ')'

let to_string t = let b = Buffer.create 256 in to_buf b t; Buffer.contents b
