(* modelrun: line protocol driver around the extracted Gallina model.
   request: one s-expression per line, (op arg ...); response: one s-expression per line. *)
open Sexp
open Model

(* ---- conversions between OCaml ints / strings and the extracted inductives ---- *)
let rec nat_of_int (i : int) : nat = if i <= 0 then O else S (nat_of_int (i - 1))
let nat_of_int i = (* tail recursive *)
  let rec go acc k = if k <= 0 then acc else go (S acc) (k - 1) in go O i
let int_of_nat (n : nat) : int = let rec go acc = function O -> acc | S m -> go (acc + 1) m in go 0 n

let rec pos_of_int (i : int) : positive =
  if i <= 1 then XH else if i land 1 = 0 then XO (pos_of_int (i lsr 1)) else XI (pos_of_int (i lsr 1))
let n_of_int (i : int) : n = if i <= 0 then N0 else Npos (pos_of_int i)
let rec int_of_pos = function XH -> 1 | XO p -> 2 * int_of_pos p | XI p -> 2 * int_of_pos p + 1
let int_of_n = function N0 -> 0 | Npos p -> int_of_pos p

let bytes_of_string (s : String.t) : n list =
  let l = ref [] in
  for i = String.length s - 1 downto 0 do l := n_of_int (Char.code s.[i]) :: !l done; !l
let string_of_bytes (b : n list) : String.t =
  let buf = Buffer.create 64 in
  List.iter (fun c -> Buffer.add_char buf (Char.chr ((int_of_n c) land 255))) b; Buffer.contents buf

let unhex (s : String.t) : String.t =
  let n = String.length s / 2 in
  String.init n (fun i -> Char.chr (int_of_string ("0x" ^ String.sub s (2 * i) 2)))
let hex (s : String.t) : String.t =
  let b = Buffer.create (2 * String.length s) in
  String.iter (fun c -> Buffer.add_string b (Printf.sprintf "%02x" (Char.code c))) s; Buffer.contents b

(* atoms: x<hex> = bytes *)
let get_bytes = function A s when String.length s >= 1 && s.[0] = 'x' -> bytes_of_string (unhex (String.sub s 1 (String.length s - 1)))
                       | _ -> failwith "bytes expected"
let put_bytes b = A ("x" ^ hex (string_of_bytes b))
let get_int = function A s -> int_of_string s | _ -> failwith "int expected"
let get_nat x = nat_of_int (get_int x)
let get_n x = n_of_int (get_int x)
let put_int i = A (string_of_int i)
let put_nat n = put_int (int_of_nat n)
let put_n n = put_int (int_of_n n)
let get_list f = function L l -> List.map f l | _ -> failwith "list expected"
let put_list f l = L (List.map f l)
let get_bool = function A "true" -> true | A "false" -> false | _ -> failwith "bool expected"
let put_bool b = A (if b then "true" else "false")
let get_opt f = function A "none" -> None | L [A "some"; x] -> Some (f x) | _ -> failwith "option expected"
let put_opt f = function None -> A "none" | Some x -> L [A "some"; f x]
let get_atom = function A s -> s | _ -> failwith "atom expected"

let get_edit = function
  | L [s; e; o; n] -> { e_start = get_nat s; e_stop = get_nat e; e_old = get_bytes o; e_new = get_bytes n }
  | _ -> failwith "edit expected"

let put_res f = function
  | Ok x -> L [A "ok"; f x]
  | Mismatch -> A "mismatch"
  | Panic -> A "panic"


(* ---- shapes (C19) ---- *)
let rec get_json = function
  | A "null" -> JNull
  | L [A "b"; b] -> JBool (get_bool b)
  | L [A "n"; n] -> JNum (get_n n)
  | L [A "s"; s] -> JStr (get_bytes s)
  | L (A "a" :: l) -> JArr (List.map get_json l)
  | L (A "o" :: l) -> JObj (List.map (function L [k; v] -> (get_bytes k, get_json v) | _ -> failwith "kv") l)
  | _ -> failwith "json expected"

(* ---- clap model / wrappers (C20) ---- *)
let put_perr = function
  | EUnknownSubcommand -> L [A "UnknownSubcommand"]
  | EUnknownArgument t -> L [A "UnknownArgument"; put_bytes t]
  | EMissingValue i -> L [A "MissingValue"; put_bytes i]
  | EInvalidValue (i, v) -> L [A "InvalidValue"; put_bytes i; put_bytes v]
  | EUnexpectedValue i -> L [A "UnexpectedValue"; put_bytes i]
  | ETooManyPositionals t -> L [A "TooManyPositionals"; put_bytes t]
  | EMissingRequired i -> L [A "MissingRequired"; put_bytes i]
  | EConflict (a, b) -> L [A "Conflict"; put_bytes a; put_bytes b]
  | EUsedTwice i -> L [A "UsedTwice"; put_bytes i]
let put_pres = function
  | POk seen -> L [A "ok"; put_list put_bytes seen]
  | PErr e -> L [A "err"; put_perr e]
let put_fval = function
  | FAbsent -> A "absent"
  | FStr s -> L [A "s"; put_bytes s]
  | FBool b -> L [A "b"; put_bool b]
  | FList l -> L [A "l"; put_list put_bytes l]
  | FNum n -> L [A "n"; put_n n]

(* ---- serde (C17) ---- *)
let get_optb = get_opt get_bytes
let get_hunk = function
  | L [f; l; bo; co; v; c; r; s; e; lb; la; ca; of_; rf; ph] ->
    { h_file = get_bytes f; h_line = get_n l; h_byte_offset = get_n bo; h_char_offset = get_n co;
      h_variant = get_bytes v; h_content = get_bytes c; h_replace = get_bytes r; h_start = get_n s;
      h_end = get_n e; h_line_before = get_optb lb; h_line_after = get_optb la; h_coercion = get_optb ca;
      h_original_file = get_optb of_; h_renamed_file = get_optb rf; h_patch_hash = get_optb ph }
  | _ -> failwith "hunk expected"
let get_rename = function
  | L [p; np; k; c] ->
    { r_path = get_bytes p; r_new_path = get_bytes np;
      r_kind = (match k with A "dir" -> KDir | _ -> KFile); r_coercion = get_optb c }
  | _ -> failwith "rename expected"
let get_stats = function
  | L [a; b; m; d] ->
    { st_files_scanned = get_n a; st_total_matches = get_n b;
      st_by_variant = get_list (function L [k; n] -> (get_bytes k, get_n n) | _ -> failwith "kv") m;
      st_files_with_matches = get_n d }
  | _ -> failwith "stats expected"
let get_plan = function
  | L [id; ca; se; re; st; inc; exc; ms; ps; sts; ve; cd] ->
    { p_id = get_bytes id; p_created_at = get_bytes ca; p_search = get_bytes se; p_replace = get_bytes re;
      p_styles = get_list get_bytes st; p_includes = get_list get_bytes inc; p_excludes = get_list get_bytes exc;
      p_matches = get_list get_hunk ms; p_paths = get_list get_rename ps; p_stats = get_stats sts;
      p_version = get_bytes ve; p_created_dirs = get_opt (get_list get_bytes) cd }
  | _ -> failwith "plan expected"
let rec put_json = function
  | JNull -> A "null"
  | JBool b -> L [A "b"; put_bool b]
  | JNum n -> L [A "n"; put_n n]
  | JStr s -> L [A "s"; put_bytes s]
  | JArr l -> L (A "a" :: List.map put_json l)
  | JObj l -> L (A "o" :: List.map (fun (k, v) -> L [put_bytes k; put_json v]) l)

(* ---- case model (C18) ---- *)
let style_names = ["Snake", Snake; "Kebab", Kebab; "Camel", Camel; "Pascal", Pascal;
  "ScreamingSnake", ScreamingSnake; "Title", Title; "Train", Train; "ScreamingTrain", ScreamingTrain;
  "Dot", Dot; "LowerFlat", LowerFlat; "UpperFlat", UpperFlat; "Sentence", Sentence;
  "LowerSentence", LowerSentence; "UpperSentence", UpperSentence]
let get_style x = List.assoc (get_atom x) style_names
let put_style s = A (fst (List.find (fun (_, v) -> v = s) style_names))
let get_acr = function A "default" -> gen_acronyms | x -> get_list get_bytes x
let get_oracle x = get_list (function L [k; v] -> (get_bytes k, get_bytes v) | _ -> failwith "kv") x
let put_amap m = L (List.map (fun (k, v) -> L [put_bytes k; put_bytes v]) m)

(* ---- file system / apply model ---- *)
let get_path x = get_list get_bytes x
let put_path p = put_list put_bytes p
let get_node = function
  | L [A "f"; m; c] -> File (get_n m, get_bytes c)
  | L [A "d"; m] -> Dir (get_n m)
  | L [A "l"; t] -> Link (get_bytes t)
  | _ -> failwith "node expected"
let put_node = function
  | File (m, c) -> L [A "f"; put_n m; put_bytes c]
  | Dir m -> L [A "d"; put_n m]
  | Link t -> L [A "l"; put_bytes t]
let get_fs x = get_list (function L [p; n] -> (get_path p, get_node n) | _ -> failwith "fs entry") x
let put_fs t = put_list (fun (p, n) -> L [put_path p; put_node n]) t
let get_ahunk = function
  | L [f; s; e; c; r] -> { ah_file = get_path f; ah_start = get_nat s; ah_end = get_nat e;
                           ah_content = get_bytes c; ah_replace = get_bytes r }
  | _ -> failwith "ahunk"
let get_aren = function
  | L [p; np; d] -> { ar_path = get_path p; ar_new = get_path np; ar_dir = get_bool d }
  | _ -> failwith "aren"
let get_aplan = function
  | L [id; hs; rs] -> { ap_id = get_bytes id; ap_hunks = get_list get_ahunk hs; ap_renames = get_list get_aren rs }
  | _ -> failwith "aplan"
let put_mop = function
  | MCreate p -> L [A "create"; put_path p]
  | MWrite (p, d) -> L [A "write"; put_path p; put_bytes d]
  | MChmod (p, m) -> L [A "chmod"; put_path p; put_n m]
  | MRename (s, d) -> L [A "rename"; put_path s; put_path d]
  | MMkdir p -> L [A "mkdir"; put_path p]
  | MUnlink p -> L [A "unlink"; put_path p]
  | MRmdir p -> L [A "rmdir"; put_path p]
  | MSync p -> L [A "sync"; put_path p]
let put_failure = function
  | FailRead p -> L [A "read"; put_path p]
  | FailMismatch p -> L [A "mismatch"; put_path p]
  | FailPanic p -> L [A "panic"; put_path p]
  | FailConflict p -> L [A "conflict"; put_path p]
  | FailIo (o, e) -> L [A "io"; put_mop o;
      A (match e with ENOENT -> "ENOENT" | EEXIST -> "EEXIST" | ENOTEMPTY -> "ENOTEMPTY" | ENOTDIR -> "ENOTDIR"
                    | EISDIR -> "EISDIR" | EINVAL -> "EINVAL" | EINJECTED -> "EINJECTED")]
let get_inj = function A "none" -> no_fault | x -> one_fault (get_nat x)
let put_result r =
  L [put_bool r.r_ok; put_opt put_failure r.r_fail; put_fs r.r_fs; put_list put_mop r.r_trace;
     put_list (fun (a, b) -> L [put_path a; put_path b]) r.r_performed]

(* ---- lock protocol (C12) ---- *)
let get_content = function
  | A "empty" -> CEmpty | A "nocolon" -> CNoColon | A "garbagecolon" -> CGarbageColon
  | L [A "valid"; o; t] -> CValid (get_nat o, get_nat t)
  | _ -> failwith "content"
let put_content = function
  | CEmpty -> A "empty" | CNoColon -> A "nocolon" | CGarbageColon -> A "garbagecolon"
  | CValid (o, t) -> L [A "valid"; put_nat o; put_nat t]
let put_pc = function
  | PStart -> A "start" | PSawExists -> A "sawexists" | PRead c -> L [A "read"; put_content c]
  | PRemove -> A "remove" | PCreate -> A "create" | PWrite -> A "write" | PCritical -> A "critical"
  | PDropCheck -> A "dropcheck" | PDropRemove -> A "dropremove" | PDone b -> L [A "done"; put_bool b]
let get_ev = function
  | L [A "step"; p] -> Step (get_nat p) | L [A "tick"; n] -> Tick (get_nat n) | L [A "crash"; p] -> Crash (get_nat p)
  | _ -> failwith "ev"
let put_world w =
  L [put_opt put_content w.lock; put_nat w.now;
     put_list (fun (p, c) -> L [put_nat p; put_pc c]) w.procs; put_list put_nat w.dead;
     put_list put_nat (in_critical w)]

(* ---- history state machine (C10) ---- *)
let get_params = function L [p; f] -> { pp = get_nat p; feeds = get_bool f } | _ -> failwith "params"
let put_params p = L [put_nat p.pp; put_bool p.feeds]
let rec get_ident = function
  | L [A "plan"; p; s] -> IdPlan (get_params p, get_nat s)
  | L [A "revert"; i; s] -> IdRevert (get_ident i, get_nat s)
  | L [A "redo"; i; s] -> IdRedo (get_ident i, get_nat s)
  | _ -> failwith "ident"
let rec put_ident = function
  | IdPlan (p, s) -> L [A "plan"; put_params p; put_nat s]
  | IdRevert (i, s) -> L [A "revert"; put_ident i; put_nat s]
  | IdRedo (i, s) -> L [A "redo"; put_ident i; put_nat s]
let get_ref = function A "latest" -> RLatest | L [A "id"; i] -> RId (get_ident i) | _ -> failwith "ref"
let get_cmd = function
  | L [A "rename"; p] -> CRename (get_params p)
  | L [A "undo"; r] -> CUndo (get_ref r)
  | L [A "redo"; r] -> CRedo (get_ref r)
  | _ -> failwith "cmd"
let put_outcome = function Succeeded -> A "succeeded" | Rejected -> A "rejected" | NothingToDo -> A "nothing"
let put_hstate s =
  L [put_list (fun e -> L [put_ident e.e_id; put_opt put_ident e.e_revert_of]) s.h_hist;
     put_list put_params s.h_tree; put_list put_params (implied_tree s.h_hist)]

(* ---- matcher / hunks (C03, C15) ---- *)
let get_fhunk = function
  | L [line; col; ch; st; en; content; repl; before; after] ->
    { fh_line = get_nat line; fh_col = get_nat col; fh_char = get_nat ch; fh_start = get_nat st; fh_end = get_nat en;
      fh_content = get_bytes content; fh_replace = get_bytes repl; fh_before = get_opt get_bytes before;
      fh_after = get_opt get_bytes after }
  | _ -> failwith "fhunk"

let dispatch (req : Sexp.t) : Sexp.t =
  match req with
  | L (A op :: args) -> begin
      match op, args with
      | "ping", _ -> A "pong"
      | "splice", [orig; es] ->
        let orig = get_bytes orig and es = get_list get_edit es in
        L [put_res put_bytes (apply_edits_rev orig es); put_bool (wf_edits orig es); put_bytes (spec_splice orig es)]
      | "tokens", [acr; s] ->
        put_opt (put_list put_bytes) (parse_to_tokens (get_acr acr) (get_bytes s))
      | "to_style", [acr; ws; st] ->
        put_bytes (to_style (get_acr acr) (get_list get_bytes ws) (get_style st))
      | "detect_style", [acr; s] ->
        put_opt put_style (detect_style (get_acr acr) (get_bytes s))
      | "vmap_core", [acr; sing; plur; plurals; amb; search; repl; styles] ->
        put_amap (variant_map_core (get_acr acr) gen_vm_core_default (get_oracle sing) (get_oracle plur)
                    (get_bool plurals) (get_bool amb) (get_bytes search) (get_bytes repl)
                    (get_opt (get_list get_style) styles))
      | "vmap_scan", [acr; sing; plur; plurals; search; repl; styles] ->
        put_amap (vmap_to_amap (variant_map_scanner (get_acr acr) gen_acronyms gen_vm_scanner_default
                    (get_oracle sing) (get_oracle plur)
                    (get_bool plurals) (get_bytes search) (get_bytes repl)
                    (get_opt (get_list get_style) styles)))
      | "apply_core", [inj; p; t] ->
        put_result (apply_core (get_inj inj) (get_aplan p) (get_fs t))
      | "rewrite_headers", [from; to_; patch] ->
        put_bytes (rewrite_headers (get_bytes from) (get_bytes to_) (get_bytes patch))
      | "rewrite_headers_old", [from; to_; patch] ->
        put_bytes (rewrite_headers_old (get_bytes from) (get_bytes to_) (get_bytes patch))
      | "diffy_body", [patch] -> put_opt (put_list put_bytes) (diffy_body (get_bytes patch))
      | "undo_core", [rs; restore; created; t] ->
        let r = undo_core (get_list get_aren rs)
            (get_list (function L [p; c] -> (get_path p, get_opt get_bytes c) | _ -> failwith "restore") restore)
            (get_list get_path created) (get_fs t) in
        L [put_bool r.u_ok; put_fs r.u_fs; put_list put_path r.u_failed]
      | "lock_trace", [l; now; pids; deadl; evs] ->
        let w00 = init (get_opt get_content l) (get_nat now) (get_list get_nat pids) in
        let w0 = { w00 with dead = get_list get_nat deadl } in
        let rec go w es acc = match es with
          | [] -> List.rev acc
          | e :: es' -> (match exec1 w e with
              | Some w' -> go w' es' (put_world w' :: acc)
              | None -> List.rev (A "invalid" :: acc)) in
        L (put_world w0 :: go w0 (get_list get_ev evs) [])
      | "hist_run", [cs] ->
        let rec go s cs acc = match cs with
          | [] -> List.rev acc
          | L [c; sec] :: cs' ->
            let (s', o) = hist_step s (get_cmd c) (get_nat sec) in
            go s' cs' (L [put_outcome o; put_hstate s'] :: acc)
          | _ -> failwith "cmd list" in
        L (go h_init (match cs with L l -> l | _ -> failwith "list") [])
      | "crash_prefix", [p; t; k] -> put_fs (crash_prefix (get_aplan p) (get_fs t) (get_nat k))
      | "find_matches", [vs; c] ->
        put_list (fun m -> L [put_nat m.m_line; put_nat m.m_col; put_nat m.m_start; put_nat m.m_end; put_bytes m.m_text])
          (find_matches (get_list get_bytes vs) (get_bytes c))
      | "is_boundary", [c; a; b] -> put_bool (is_boundary (get_bytes c) (get_nat a) (get_nat b))
      | "file_consistent", [wt; c; hs] ->
        let c = get_bytes c and hs = get_list get_fhunk hs and wt = get_bool wt in
        L [put_bool (file_consistent wt c hs); put_list (fun h -> put_bool (hunk_ok wt c h)) hs]
      | "diff_after", [hs] -> put_bytes (diff_after (get_list get_fhunk hs))
      | "line_after_plan", [l; hs] -> put_bytes (line_after_plan (get_bytes l) (get_list get_fhunk hs))
      | "plan_listing", [m; rf; rd; l] ->
        let m = get_list (function L [k; v] -> (get_bytes k, get_bytes v) | _ -> failwith "kv") m in
        let l = get_list (function L [p; d] -> { en_path = get_path p; en_dir = get_bool d } | _ -> failwith "entry") l in
        let rs = plan_listing (name_by_map m) (get_bool rf) (get_bool rd) l in
        put_list (fun r -> L [put_path r.ar_path; put_path r.ar_new; put_bool r.ar_dir]) rs
      | "enc_plan_generic", [p] -> put_opt put_json (enc_plan_generic (get_plan p))
      | "conforms_named", [n; j] -> put_bool (conforms_named (get_bytes n) (get_json j))
      | "conforms_expect", [n; j] -> put_opt put_bool (conforms_expect (get_bytes n) (get_json j))
      | "compat_named", [r; t] -> put_bool (compat_named (get_bytes r) (get_bytes t))
      | "rdef_keys", [n] -> put_list (fun (k, b) -> L [put_bytes k; put_bool b]) (rdef_keys (get_bytes n))
      | "compat_expect", [n] -> put_opt put_bool (compat_expect (get_bytes n))
      | "compound", [i; s; r; styles] ->
        let sts = (match styles with L [] -> gen_all_styles | x -> get_list get_style x) in
        put_list (fun m -> L [put_bytes m.cm_full; put_bytes m.cm_repl; put_style m.cm_style; put_nat m.cm_start; put_nat m.cm_end])
          (find_compound_variants (get_bytes i) (get_bytes s) (get_bytes r) sts)
      | "identifiers", [styles; c] ->
        put_list (fun ((a, b), id) -> L [put_nat a; put_nat b; put_bytes id]) (ident_find_all (get_list get_style styles) (get_bytes c))
      | "enhanced", [c; s; r; keys; styles; extra] ->
        put_list (fun m -> L [put_nat m.e_line; put_nat m.e_col; put_nat m.e_start0; put_nat m.e_end; put_bytes m.e_variant; put_bytes m.e_text])
          (find_enhanced_matches (get_bytes c) (get_bytes s) (get_bytes r) (get_list get_bytes keys) (get_list get_style styles)
             (get_opt (get_list get_nat) extra))
      | "compatible_styles", [t; styles] -> put_list put_style (compatible_styles (get_bytes t) (get_list get_style styles))
      | "clap_accepts", [argv] -> put_pres (clap_accepts (get_list get_bytes argv))
      | "wrapper_names", [] ->
        put_list (fun ((n, _), fs) -> L [put_bytes n; put_int (List.length (all_opts fs))]) gen_builders
      | "wrapper_space", [name; stride; offset] ->
        let name = get_bytes name and stride = get_int stride and offset = get_int offset in
        let ((_, b), fs) = List.find (fun ((n, _), _) -> n = name) gen_builders in
        let out = ref [] and i = ref 0 in
        List.iter (fun o ->
            if !i mod stride = offset then begin
              let v = b o in
              out := L [put_list (fun (k, x) -> L [put_bytes k; put_fval x]) o; put_list put_bytes v; put_pres (clap_accepts v)] :: !out
            end; incr i) (all_opts fs);
        L (List.rev !out)
      | "wrapper_rejected", [name; limit] ->
        (* the whole option space of one builder: the records whose vector the grammar model rejects, one per distinct vector *)
        let name = get_bytes name and limit = get_int limit in
        let ((_, b), fs) = List.find (fun ((n, _), _) -> n = name) gen_builders in
        let seen = Hashtbl.create 64 and out = ref [] and n = ref 0 in
        List.iter (fun o ->
            if !n < limit then begin
              let v = b o in
              match clap_accepts v with
              | POk _ -> ()
              | r -> if not (Hashtbl.mem seen v) then begin
                    Hashtbl.add seen v ();
                    out := L [put_list (fun (k, x) -> L [put_bytes k; put_fval x]) o; put_list put_bytes v; put_pres r] :: !out;
                    incr n end
            end) (all_opts fs);
        L (List.rev !out)
      | "spec_apply", [p; t] -> put_fs (spec_apply (get_aplan p) (get_fs t))
      | "serde_plan", [p] ->
        let p = get_plan p in
        let j = enc_plan p in
        let back = (match dec_plan j with Some p' -> p' = p | None -> false) in
        L [put_json j; put_bool back]
      | _ -> L [A "error"; A ("unknown_op_" ^ op)]
    end
  | _ -> L [A "error"; A "request"]

let () =
  try
    while true do
      let line = input_line stdin in
      let resp = try dispatch (Sexp.parse line) with
        | Failure m -> L [A "error"; A (String.map (fun c -> if c = ' ' || c = '(' || c = ')' then '_' else c) m)]
        | Stack_overflow -> L [A "error"; A "stack_overflow"]
        | Not_found -> L [A "error"; A "not_found"] in
      print_string (Sexp.to_string resp); print_newline ()
    done
  with End_of_file -> ()
