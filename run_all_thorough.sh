#!/bin/bash
# runs every thorough check sequentially (RN_REPO may point at a copy of the repository); summary on stdout
cd "$(dirname "$0")"
mkdir -p build/logs
rc=0
for i in ${PROPS:-01 02 03 04 05 06 07 08 09 10 11 12 13 14 15 16 17 18 19 20}; do
  s=$(date +%s)
  timeout ${PER_CHECK_TIMEOUT:-5400} ./check C$i --tier thorough > build/logs/C$i.thorough.log 2>&1
  e=$?
  echo "C$i exit=$e $(( $(date +%s) - s ))s $(grep -c KNOWN-FINDING build/logs/C$i.thorough.log) known $(grep VIOLATION build/logs/C$i.thorough.log | head -3)"
  [ $e -ne 0 ] && rc=1
done
exit $rc
