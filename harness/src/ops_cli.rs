use serde_json::{json, Value};

pub fn clap_dump(_req: &Value) -> Value {
    json!({"error": "not built"})
}
pub fn clap_parse(_req: &Value) -> Value {
    json!({"error": "not built"})
}
