// clap metadata of the real CLI (the argument definitions are compiled in from /repo's sources)
use clap::{CommandFactory, Parser};
use serde_json::{json, Value};

#[allow(dead_code, unused_imports)]
#[path = "/repo/renamify-cli/src/cli/mod.rs"]
mod cli;

use cli::args::Cli;

fn arg_json(a: &clap::Arg) -> Value {
    let possible: Vec<String> = a
        .get_possible_values()
        .iter()
        .filter(|p| !p.is_hide_set())
        .map(|p| p.get_name().to_string())
        .collect();
    let num = a.get_num_args();
    json!({
        "id": a.get_id().as_str(),
        "long": a.get_long(),
        "short": a.get_short().map(|c| c.to_string()),
        "positional": a.is_positional(),
        "required": a.is_required_set(),
        "takes_value": a.get_action().takes_values(),
        "action": format!("{:?}", a.get_action()),
        "multiple": matches!(a.get_action(), clap::ArgAction::Append) || num.map_or(false, |n| n.max_values() > 1),
        "delimiter": a.get_value_delimiter().map(|c| c.to_string()),
        "possible": possible,
        "global": a.is_global_set(),
        "value_parser": format!("{:?}", a.get_value_parser()),
        "index": a.get_index(),
        "default": a.get_default_values().iter().map(|v| v.to_string_lossy().to_string()).collect::<Vec<_>>(),
    })
}

pub fn clap_dump(_req: &Value) -> Value {
    let cmd = Cli::command();
    let globals: Vec<Value> = cmd.get_arguments().map(arg_json).collect();
    let mut subs = vec![];
    for sc in cmd.get_subcommands() {
        let args: Vec<Value> = sc.get_arguments().map(arg_json).collect();
        let mut conflicts = vec![];
        for a in sc.get_arguments() {
            for c in sc.get_arg_conflicts_with(a) {
                conflicts.push(json!([a.get_id().as_str(), c.get_id().as_str()]));
            }
        }
        // argument groups: `#[group(multiple = false)]` makes the members mutually exclusive (not reported by
        // get_arg_conflicts_with); a required group is reported so that the translator can refuse it
        let groups: Vec<Value> = sc
            .get_groups()
            .map(|g| json!({"id": g.get_id().as_str(), "args": g.get_args().map(|a| a.as_str().to_string()).collect::<Vec<_>>(),
                            "multiple": g.clone().is_multiple(), "required": g.is_required_set()}))
            .collect();
        subs.push(json!({"name": sc.get_name(), "args": args, "conflicts": conflicts, "groups": groups, "hidden": sc.is_hide_set()}));
    }
    let mut gconf = vec![];
    for a in cmd.get_arguments() {
        for c in cmd.get_arg_conflicts_with(a) {
            gconf.push(json!([a.get_id().as_str(), c.get_id().as_str()]));
        }
    }
    let ggroups: Vec<Value> = cmd
        .get_groups()
        .map(|g| json!({"id": g.get_id().as_str(), "args": g.get_args().map(|a| a.as_str().to_string()).collect::<Vec<_>>(),
                        "multiple": g.clone().is_multiple(), "required": g.is_required_set()}))
        .collect();
    json!({"ok": {"globals": globals, "global_conflicts": gconf, "global_groups": ggroups, "subcommands": subs}})
}

pub fn clap_parse(req: &Value) -> Value {
    let empty = vec![];
    let mut argv: Vec<String> = vec!["renamify".to_string()];
    argv.extend(req["argv"].as_array().unwrap_or(&empty).iter().filter_map(|x| x.as_str().map(String::from)));
    // make sure env does not leak into parsing
    std::env::remove_var("NO_COLOR");
    std::env::remove_var("RENAMIFY_YES");
    match Cli::try_parse_from(&argv) {
        Ok(cli) => json!({"ok": true, "parsed": format!("{:?}", cli)}),
        // --version / --help are answered by clap itself: the command line is accepted
        Err(e) if matches!(e.kind(), clap::error::ErrorKind::DisplayVersion | clap::error::ErrorKind::DisplayHelp) =>
            json!({"ok": true, "parsed": format!("display: {:?}", e.kind())}),
        Err(e) => json!({"ok": false, "kind": format!("{:?}", e.kind()), "msg": e.to_string().lines().next().unwrap_or("").to_string()}),
    }
}
