// rn-harness: JSON-lines driver around /repo/renamify-core (feature verif-hooks).
// One request per line on stdin, one response per line on stdout. Every call runs under
// catch_unwind; a panic is reported as {"panic": "..."}.
use serde_json::{json, Value};
use std::io::{BufRead, Write};
use std::panic;

mod ops_case;
mod ops_cli;
mod ops_plan;
mod ops_tree;
mod util;

fn dispatch(req: &Value) -> Value {
    let op = req["op"].as_str().unwrap_or("");
    match op {
        "ping" => json!({"ok": "pong"}),
        // case algebra
        "tokens" => ops_case::tokens(req),
        "to_style" => ops_case::to_style(req),
        "detect_style" => ops_case::detect_style(req),
        "variant_map" => ops_case::variant_map(req),
        "acronyms" => ops_case::acronyms(req),
        "compound_variants" => ops_case::compound_variants(req),
        "apply_coercion" => ops_case::apply_coercion(req),
        "coercion_detect" => ops_case::coercion_detect(req),
        "constraints" => ops_case::constraints(req),
        "identifiers" => ops_case::identifiers(req),
        "resolve" => ops_case::resolve(req),
        "enhanced_matches" => ops_case::enhanced_matches(req),
        // plan / splice / serde
        "splice" => ops_plan::splice(req),
        "patch_headers" => ops_plan::patch_headers(req),
        "plan_roundtrip" => ops_plan::plan_roundtrip(req),
        "json_text" => ops_plan::json_text(req),
        "json_parse" => ops_plan::json_parse(req),
        "diffy" => ops_plan::diffy_roundtrip(req),
        // tree level
        "apply_tree" => ops_tree::apply_tree(req),
        "scan_tree" => ops_tree::scan_tree(req),
        "simple_plan_tree" => ops_tree::simple_plan_tree(req),
        "render_diff" => ops_tree::render_diff(req),
        "find_matches" => ops_plan::find_matches(req),
        "is_boundary" => ops_plan::is_boundary(req),
        // clap
        "clap_dump" => ops_cli::clap_dump(req),
        "clap_parse" => ops_cli::clap_parse(req),
        _ => json!({"error": format!("unknown op {}", op)}),
    }
}

fn main() {
    // RN_TRACE=1 keeps the default hook (message, location and backtrace on stderr) for replays
    if std::env::var("RN_TRACE").is_err() {
        panic::set_hook(Box::new(|_| {}));
    }
    let stdin = std::io::stdin();
    let stdout = std::io::stdout();
    let mut out = stdout.lock();
    for line in stdin.lock().lines() {
        let Ok(line) = line else { break };
        if line.trim().is_empty() {
            continue;
        }
        let resp = match serde_json::from_str::<Value>(&line) {
            Err(e) => json!({"error": format!("bad request: {}", e)}),
            Ok(req) => {
                let r = panic::catch_unwind(panic::AssertUnwindSafe(|| dispatch(&req)));
                match r {
                    Ok(v) => v,
                    Err(e) => {
                        let msg = if let Some(s) = e.downcast_ref::<String>() {
                            s.clone()
                        } else if let Some(s) = e.downcast_ref::<&str>() {
                            (*s).to_string()
                        } else {
                            "panic".to_string()
                        };
                        json!({"panic": msg})
                    }
                }
            }
        };
        let _ = writeln!(out, "{}", resp);
        let _ = out.flush();
    }
}
