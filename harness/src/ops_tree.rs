use crate::util::*;
use renamify_core::apply::{apply_plan, ApplyOptions};
use renamify_core::scanner::{Plan, PlanOptions};
use serde_json::{json, Value};
use std::path::PathBuf;

fn err_class(msg: &str) -> &'static str {
    if msg.contains("Content mismatch") {
        "mismatch"
    } else if msg.contains("Failed to read") {
        "read"
    } else if msg.contains("already exists") {
        "exists"
    } else if msg.contains("Failed to rename") {
        "rename"
    } else {
        "other"
    }
}

/// Materialise `tree` in a fresh directory, chdir there, apply `plan` (paths relative to the
/// root), return the snapshot afterwards.
pub fn apply_tree(req: &Value) -> Value {
    let dir = tempfile::tempdir().expect("tempdir");
    let root = dir.path().canonicalize().expect("canon");
    if let Err(e) = materialize(&root, &req["tree"]) {
        return json!({"error": format!("materialize: {}", e)});
    }
    let mut plan: Plan = match serde_json::from_value(req["plan"].clone()) {
        Ok(p) => p,
        Err(e) => return json!({"error": format!("input plan: {}", e)}),
    };
    let absolute = req["absolute"].as_bool().unwrap_or(false);
    if absolute {
        for h in &mut plan.matches {
            h.file = root.join(&h.file);
        }
        for r in &mut plan.paths {
            r.path = root.join(&r.path);
            r.new_path = root.join(&r.new_path);
        }
    }
    let backups = req["backups"].as_bool().unwrap_or(true);
    let r = with_cwd(&root, || {
        let opts = ApplyOptions {
            create_backups: backups,
            backup_dir: PathBuf::from(".renamify/backups"),
            commit: false,
            force: false,
            skip_symlinks: true,
            log_file: None,
        };
        apply_plan(&mut plan, &opts)
    });
    let snap = snapshot(&root);
    match r {
        Ok(()) => json!({"ok": true, "tree": snap}),
        Err(e) => {
            let m = format!("{:#}", e);
            json!({"ok": false, "err": err_class(&m), "msg": m, "tree": snap})
        }
    }
}

/// Materialise `tree`, run the case-aware scanner, return the plan JSON (paths made relative).
pub fn scan_tree(req: &Value) -> Value {
    let dir = tempfile::tempdir().expect("tempdir");
    let root = dir.path().canonicalize().expect("canon");
    if let Err(e) = materialize(&root, &req["tree"]) {
        return json!({"error": format!("materialize: {}", e)});
    }
    let Some(search) = str_field(req, "search") else { return json!({"skip": "utf8"}) };
    let Some(replace) = str_field(req, "replace") else { return json!({"skip": "utf8"}) };
    let mut opts = PlanOptions::default();
    if let Some(o) = req.get("options") {
        if let Some(l) = o["unrestricted_level"].as_u64() {
            opts.unrestricted_level = l as u8;
        }
        if let Some(b) = o["rename_files"].as_bool() {
            opts.rename_files = b;
        }
        if let Some(b) = o["rename_dirs"].as_bool() {
            opts.rename_dirs = b;
        }
        if let Some(b) = o["enable_plural_variants"].as_bool() {
            opts.enable_plural_variants = b;
        }
        if let Some(b) = o["no_acronyms"].as_bool() {
            opts.no_acronyms = b;
        }
        if let Some(a) = o["styles"].as_array() {
            opts.styles = Some(a.iter().filter_map(|x| x.as_str().and_then(crate::ops_case::style_from)).collect());
        }
        if let Some(a) = o["includes"].as_array() {
            opts.includes = a.iter().filter_map(|x| x.as_str().map(String::from)).collect();
        }
        if let Some(a) = o["excludes"].as_array() {
            opts.excludes = a.iter().filter_map(|x| x.as_str().map(String::from)).collect();
        }
        if let Some(a) = o["exclude_match"].as_array() {
            opts.exclude_match = a.iter().filter_map(|x| x.as_str().map(String::from)).collect();
        }
        if let Some(s) = o["exclude_matching_lines"].as_str() {
            opts.exclude_matching_lines = Some(s.to_string());
        }
        if let Some(b) = o["ignore_ambiguous"].as_bool() {
            opts.ignore_ambiguous = b;
        }
        if let Some(s) = o["coerce"].as_str() {
            opts.coerce_separators = if s == "off" {
                renamify_core::scanner::CoercionMode::Off
            } else {
                renamify_core::scanner::CoercionMode::Auto
            };
        }
    }
    let roots: Vec<PathBuf> = match req.get("roots").and_then(|r| r.as_array()) {
        Some(a) if !a.is_empty() => a.iter().map(|x| root.join(x.as_str().unwrap_or(""))).collect(),
        _ => vec![root.clone()],
    };
    let r = with_cwd(&root, || renamify_core::scanner::scan_repository_multi(&roots, &search, &replace, &opts));
    match r {
        Ok(plan) => {
            let mut v = serde_json::to_value(&plan).unwrap();
            let rs = root.to_string_lossy().to_string();
            strip_root(&mut v, &rs);
            json!({"ok": true, "plan": v, "tree": snapshot(&root)})
        }
        Err(e) => json!({"ok": false, "msg": format!("{:#}", e)}),
    }
}

fn strip_root(v: &mut Value, root: &str) {
    match v {
        Value::String(s) => {
            if let Some(rest) = s.strip_prefix(root) {
                *s = rest.trim_start_matches('/').to_string();
            }
        }
        Value::Array(a) => a.iter_mut().for_each(|x| strip_root(x, root)),
        Value::Object(o) => o.values_mut().for_each(|x| strip_root(x, root)),
        _ => {}
    }
}

/// Materialise `tree`, run create_simple_plan (the `replace` planner) from inside the root.
pub fn simple_plan_tree(req: &Value) -> Value {
    let dir = tempfile::tempdir().expect("tempdir");
    let root = dir.path().canonicalize().expect("canon");
    if let Err(e) = materialize(&root, &req["tree"]) {
        return json!({"error": format!("materialize: {}", e)});
    }
    let Some(pattern) = str_field(req, "pattern") else { return json!({"skip": "utf8"}) };
    let Some(replacement) = str_field(req, "replacement") else { return json!({"skip": "utf8"}) };
    let is_regex = req["regex"].as_bool().unwrap_or(false);
    let mut opts = PlanOptions::default();
    opts.no_acronyms = true;
    opts.coerce_separators = renamify_core::scanner::CoercionMode::Off;
    if let Some(x) = req["exclude_matching_lines"].as_str() {
        opts.exclude_matching_lines = Some(x.to_string());
    }
    let r = with_cwd(&root, || renamify_core::scanner::create_simple_plan(&pattern, &replacement, vec![], &opts, is_regex));
    match r {
        Ok(plan) => {
            let mut v = serde_json::to_value(&plan).unwrap();
            let rs = root.to_string_lossy().to_string();
            strip_root(&mut v, &rs);
            json!({"ok": true, "plan": v})
        }
        Err(e) => json!({"ok": false, "msg": format!("{:#}", e)}),
    }
}

/// preview::render_plan(plan, Diff, no colour)
pub fn render_diff(req: &Value) -> Value {
    let plan: Plan = match serde_json::from_value(req["plan"].clone()) {
        Ok(p) => p,
        Err(e) => return json!({"error": format!("input plan: {}", e)}),
    };
    let out = renamify_core::preview::render_plan(&plan, renamify_core::preview::Preview::Diff, Some(false));
    json!({"ok": out})
}
