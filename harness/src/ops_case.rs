use crate::util::*;
use renamify_core::acronym::AcronymSet;
use renamify_core::case_model::{self, Style, Token, TokenModel};
use serde_json::{json, Value};

pub fn style_from(s: &str) -> Option<Style> {
    Style::all_styles().into_iter().find(|x| format!("{:?}", x) == s)
}

fn acr_set(req: &Value) -> Option<AcronymSet> {
    // "acr": null => default set; [] => given list (upper-case strings)
    req.get("acr").and_then(|a| a.as_array()).map(|a| {
        let l: Vec<String> = a.iter().filter_map(|x| x.as_str().map(String::from)).collect();
        AcronymSet::from_list(&l)
    })
}

pub fn tokens(req: &Value) -> Value {
    let Some(s) = str_field(req, "s") else { return json!({"skip": "utf8"}) };
    let m = match acr_set(req) {
        Some(set) => case_model::parse_to_tokens_with_acronyms(&s, &set),
        None => case_model::parse_to_tokens(&s),
    };
    json!({"ok": m.tokens.iter().map(|t| hex(t.text.as_bytes())).collect::<Vec<_>>()})
}

pub fn to_style(req: &Value) -> Value {
    let empty = vec![];
    let ws: Vec<Token> = req["ws"]
        .as_array()
        .unwrap_or(&empty)
        .iter()
        .map(|w| Token::new(String::from_utf8_lossy(&unhex(w.as_str().unwrap_or(""))).to_string()))
        .collect();
    let Some(st) = style_from(req["style"].as_str().unwrap_or("")) else {
        return json!({"error": "style"});
    };
    let r = case_model::to_style(&TokenModel::new(ws), st);
    json!({"ok": hex(r.as_bytes())})
}

pub fn detect_style(req: &Value) -> Value {
    let Some(s) = str_field(req, "s") else { return json!({"skip": "utf8"}) };
    let r = case_model::detect_style(&s);
    json!({"ok": r.map(|x| format!("{:?}", x))})
}

pub fn variant_map(req: &Value) -> Value {
    let Some(search) = str_field(req, "search") else { return json!({"skip": "utf8"}) };
    let Some(replace) = str_field(req, "replace") else { return json!({"skip": "utf8"}) };
    let styles: Option<Vec<Style>> = req.get("styles").and_then(|a| a.as_array()).map(|a| {
        a.iter().filter_map(|x| x.as_str().and_then(style_from)).collect()
    });
    let plurals = req["plurals"].as_bool().unwrap_or(true);
    let which = req["which"].as_str().unwrap_or("core");
    if which == "core" {
        let m = case_model::generate_variant_map_with_atomic_and_plurals(
            &search, &replace, styles.as_deref(), None, plurals);
        let v: Vec<Value> = m.iter().map(|(k, v)| json!([hex(k.as_bytes()), hex(v.as_bytes())])).collect();
        json!({"ok": v})
    } else {
        let set = acr_set(req).unwrap_or_else(|| renamify_core::acronym::get_default_acronym_set().clone());
        let m = renamify_core::scanner::verif_hooks::variant_map_with_acronyms(
            &search, &replace, styles.as_deref(), &set, plurals);
        let v: Vec<Value> = m.iter().map(|(k, v)| json!([hex(k.as_bytes()), hex(v.as_bytes())])).collect();
        json!({"ok": v})
    }
}

pub fn acronyms(_req: &Value) -> Value {
    let set = renamify_core::acronym::get_default_acronym_set();
    let probe = ["API", "ID", "HTTP", "URL", "FOO"];
    json!({"ok": probe.iter().map(|p| set.is_acronym(p)).collect::<Vec<_>>()})
}

// ---- compound matcher / coercion / case constraints (C06, C07)
fn styles_of(req: &Value) -> Vec<Style> {
    match req.get("styles").and_then(|a| a.as_array()) {
        Some(a) => a.iter().filter_map(|x| x.as_str().and_then(style_from)).collect(),
        None => Style::all_styles(),
    }
}

pub fn compound_variants(req: &Value) -> Value {
    let Some(id) = str_field(req, "identifier") else { return json!({"skip": "utf8"}) };
    let Some(search) = str_field(req, "search") else { return json!({"skip": "utf8"}) };
    let Some(replace) = str_field(req, "replace") else { return json!({"skip": "utf8"}) };
    let styles = styles_of(req);
    let ms = renamify_core::compound_matcher::find_compound_variants(&id, &search, &replace, &styles);
    let v: Vec<Value> = ms
        .iter()
        .map(|m| json!({"full": hex(m.full_identifier.as_bytes()), "replacement": hex(m.replacement.as_bytes()),
                        "style": format!("{:?}", m.style), "start": m.pattern_start, "end": m.pattern_end}))
        .collect();
    json!({"ok": v})
}

pub fn apply_coercion(req: &Value) -> Value {
    let Some(c) = str_field(req, "container") else { return json!({"skip": "utf8"}) };
    let Some(o) = str_field(req, "old") else { return json!({"skip": "utf8"}) };
    let Some(n) = str_field(req, "new") else { return json!({"skip": "utf8"}) };
    match renamify_core::coercion::apply_coercion(&c, &o, &n) {
        Some((s, why)) => json!({"ok": {"some": hex(s.as_bytes()), "why": why}}),
        None => json!({"ok": "none"}),
    }
}

pub fn coercion_detect(req: &Value) -> Value {
    let Some(s) = str_field(req, "s") else { return json!({"skip": "utf8"}) };
    json!({"ok": format!("{:?}", renamify_core::coercion::detect_style(&s))})
}

pub fn constraints(req: &Value) -> Value {
    let Some(s) = str_field(req, "s") else { return json!({"skip": "utf8"}) };
    let styles = styles_of(req);
    let comp: Vec<String> = renamify_core::case_constraints::filter_compatible_styles(&s, &styles)
        .iter()
        .map(|x| format!("{:?}", x))
        .collect();
    json!({"ok": {"compatible": comp, "ambiguous": renamify_core::ambiguity::is_ambiguous(&s, &styles)}})
}

pub fn identifiers(req: &Value) -> Value {
    let content = crate::util::hex_field(req, "content");
    let styles = styles_of(req);
    let ex = renamify_core::compound_scanner::IdentifierExtractor::new(&styles);
    let v: Vec<Value> = ex.find_all(&content).iter().map(|(a, b, s)| json!([a, b, hex(s.as_bytes())])).collect();
    json!({"ok": v})
}

/// AmbiguityResolver::resolve on (matched text, replacement, file name, file content, line, column):
/// the style it picks, how, and whether that style is compatible with the matched text (the contract)
pub fn resolve(req: &Value) -> Value {
    use renamify_core::ambiguity::{AmbiguityContext, AmbiguityResolver};
    let Some(m) = str_field(req, "matched") else { return json!({"skip": "utf8"}) };
    let Some(r) = str_field(req, "replacement") else { return json!({"skip": "utf8"}) };
    let ctx = AmbiguityContext {
        file_path: str_field(req, "file").map(std::path::PathBuf::from),
        file_content: str_field(req, "content"),
        line_content: str_field(req, "line"),
        match_position: req["column"].as_u64().map(|x| x as usize),
        project_root: None,
    };
    let res = AmbiguityResolver::new().resolve(&m, &r, &ctx);
    let compatible = renamify_core::case_constraints::can_match_style(&m, res.style);
    let any = !renamify_core::case_constraints::filter_compatible_styles(&m, &Style::all_styles()).is_empty();
    json!({"ok": {"style": format!("{:?}", res.style), "method": format!("{:?}", res.method), "compatible": compatible, "some_compatible": any}})
}

/// compound_scanner::find_enhanced_matches on raw content with the variant table the scanner builds
/// (verif_hooks::variant_map_with_acronyms, default acronym set); "lines": optional additional candidate lines
pub fn enhanced_matches(req: &Value) -> Value {
    let content = crate::util::hex_field(req, "content");
    let Some(search) = str_field(req, "search") else { return json!({"skip": "utf8"}) };
    let Some(replace) = str_field(req, "replace") else { return json!({"skip": "utf8"}) };
    let styles = styles_of(req);
    let plurals = req["plurals"].as_bool().unwrap_or(true);
    let set = renamify_core::acronym::get_default_acronym_set().clone();
    let vm = renamify_core::scanner::verif_hooks::variant_map_with_acronyms(&search, &replace, Some(&styles), &set, plurals);
    // find_enhanced_matches reads only the keys of the table
    let mut vmap = renamify_core::scanner::VariantMap::new();
    for (k, v) in &vm {
        vmap.insert(k.clone(), None, v.clone());
    }
    let ex = renamify_core::compound_scanner::IdentifierExtractor::new(&styles);
    let lines: Option<std::collections::BTreeSet<usize>> = req.get("lines").and_then(|a| a.as_array())
        .map(|a| a.iter().filter_map(|x| x.as_u64().map(|n| n as usize)).collect());
    let ms = renamify_core::compound_scanner::find_enhanced_matches(&content, "f", &search, &replace, &vmap, &styles, &ex, lines.as_ref());
    let v: Vec<Value> = ms.iter()
        .map(|m| json!([m.line, m.column, m.start, m.end, hex(m.variant.as_bytes()), hex(m.text.as_bytes())]))
        .collect();
    json!({"ok": v, "table": vm.iter().map(|(k, v)| json!([hex(k.as_bytes()), hex(v.as_bytes())])).collect::<Vec<_>>()})
}
