use crate::util::*;
use renamify_core::scanner::Plan;
use serde_json::{json, Value};
use std::path::Path;

fn classify_err(msg: &str) -> &'static str {
    if msg.contains("Content mismatch") {
        "mismatch"
    } else {
        "other"
    }
}

/// apply_content_edits_with_content on a scratch file
pub fn splice(req: &Value) -> Value {
    let Some(content) = str_field(req, "content") else { return json!({"skip": "utf8"}) };
    let empty = vec![];
    let mut reps: Vec<(String, String, usize, usize)> = vec![];
    for e in req["edits"].as_array().unwrap_or(&empty) {
        let Some(old) = str_field(e, "old") else { return json!({"skip": "utf8"}) };
        let Some(new) = str_field(e, "new") else { return json!({"skip": "utf8"}) };
        reps.push((old, new, e["start"].as_u64().unwrap_or(0) as usize, e["end"].as_u64().unwrap_or(0) as usize));
    }
    let dir = tempfile::tempdir().expect("tempdir");
    let p = dir.path().join("f.txt");
    std::fs::write(&p, content.as_bytes()).expect("write");
    match renamify_core::apply::verif_hooks::apply_content_edits(&p, &content, &reps) {
        Ok(b) => json!({"ok": hex(&b)}),
        Err(e) => json!({"err": classify_err(&format!("{:#}", e)), "msg": format!("{:#}", e)}),
    }
}

pub fn patch_headers(req: &Value) -> Value {
    let Some(patch) = str_field(req, "patch") else { return json!({"skip": "utf8"}) };
    let Some(from) = str_field(req, "from") else { return json!({"skip": "utf8"}) };
    let Some(to) = str_field(req, "to") else { return json!({"skip": "utf8"}) };
    let r = renamify_core::apply::verif_hooks::replace_patch_headers(&patch, Path::new(&from), Path::new(&to));
    json!({"ok": hex(r.as_bytes())})
}

/// Full plan JSON in (every field present) -> Plan -> to_string_pretty -> from_str -> again
pub fn plan_roundtrip(req: &Value) -> Value {
    let plan: Plan = match serde_json::from_value(req["plan"].clone()) {
        Ok(p) => p,
        Err(e) => return json!({"error": format!("input plan: {}", e)}),
    };
    let t1 = match serde_json::to_string_pretty(&plan) {
        Ok(t) => t,
        Err(e) => return json!({"ser_err": e.to_string()}),
    };
    match serde_json::from_str::<Plan>(&t1) {
        Ok(p2) => {
            let t2 = serde_json::to_string_pretty(&p2).unwrap_or_default();
            // compare as JSON values: HashMap iteration order is not part of the contract
            let v1: Value = serde_json::from_str(&t1).unwrap_or(Value::Null);
            let v2: Value = serde_json::from_str(&t2).unwrap_or(Value::Null);
            json!({"ok": true, "t1": t1, "same": v1 == v2})
        }
        Err(e) => json!({"ok": false, "t1": t1, "de_err": e.to_string()}),
    }
}

/// serde_json's text layer on its own: the pretty and the compact text of a JSON value (hex), and, when the value
/// deserialises as a Plan, the pretty text of that Plan (struct field order, which is what renamify writes)
pub fn json_text(req: &Value) -> Value {
    let v = &req["value"];
    let pretty = serde_json::to_string_pretty(v).unwrap_or_default();
    let compact = serde_json::to_string(v).unwrap_or_default();
    let plan_pretty = serde_json::from_value::<Plan>(v.clone())
        .ok()
        .and_then(|p| serde_json::to_string_pretty(&p).ok());
    json!({"pretty": crate::util::hex(pretty.as_bytes()), "compact": crate::util::hex(compact.as_bytes()),
           "plan_pretty": plan_pretty.map(|t| crate::util::hex(t.as_bytes()))})
}

/// serde_json::from_slice on arbitrary bytes (hex): the parsed value, or the error text
pub fn json_parse(req: &Value) -> Value {
    let bytes = crate::util::hex_field(req, "text");
    match serde_json::from_slice::<Value>(&bytes) {
        Ok(v) => json!({"ok": v}),
        Err(e) => json!({"err": e.to_string()}),
    }
}

/// diffy: create_patch(a,b).to_string(), optional header rewrite, from_str, apply(a) == b ?
pub fn diffy_roundtrip(req: &Value) -> Value {
    let Some(a) = str_field(req, "a") else { return json!({"skip": "utf8"}) };
    let Some(b) = str_field(req, "b") else { return json!({"skip": "utf8"}) };
    let patch = diffy::create_patch(&a, &b);
    let mut text = patch.to_string();
    if let (Some(from), Some(to)) = (str_field(req, "from"), str_field(req, "to")) {
        if req.get("from").is_some() {
            text = renamify_core::apply::verif_hooks::replace_patch_headers(&text, Path::new(&from), Path::new(&to));
        }
    }
    match diffy::Patch::from_str(&text) {
        Err(e) => json!({"ok": false, "stage": "parse", "msg": e.to_string(), "text": hex(text.as_bytes())}),
        Ok(p) => match diffy::apply(&a, &p) {
            Err(e) => json!({"ok": false, "stage": "apply", "msg": e.to_string(), "text": hex(text.as_bytes())}),
            Ok(r) => json!({"ok": r == b, "stage": "done", "result": hex(r.as_bytes()), "text": hex(text.as_bytes())}),
        },
    }
}

/// pattern::build_pattern + find_matches on raw bytes
pub fn find_matches(req: &Value) -> Value {
    let content = hex_field(req, "content");
    let empty = vec![];
    let variants: Vec<String> = req["variants"].as_array().unwrap_or(&empty).iter()
        .filter_map(|v| String::from_utf8(unhex(v.as_str().unwrap_or(""))).ok()).collect();
    let pat = match renamify_core::pattern::build_pattern(&variants) {
        Ok(p) => p,
        Err(e) => return json!({"err": e.to_string()}),
    };
    let ms = renamify_core::pattern::find_matches(&pat, &content, "f");
    json!({"ok": ms.iter().map(|m| json!([m.line, m.column, m.start, m.end, hex(&content[m.start..m.end])])).collect::<Vec<_>>()})
}

pub fn is_boundary(req: &Value) -> Value {
    let content = hex_field(req, "content");
    let a = req["start"].as_u64().unwrap_or(0) as usize;
    let b = req["end"].as_u64().unwrap_or(0) as usize;
    json!({"ok": renamify_core::pattern::is_boundary(&content, a, b)})
}
