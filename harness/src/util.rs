use serde_json::{json, Value};
use std::fs;
use std::os::unix::fs::PermissionsExt;
use std::path::{Path, PathBuf};

pub fn unhex(s: &str) -> Vec<u8> {
    let b = s.as_bytes();
    let mut out = Vec::with_capacity(b.len() / 2);
    let v = |c: u8| -> u8 {
        match c {
            b'0'..=b'9' => c - b'0',
            b'a'..=b'f' => c - b'a' + 10,
            b'A'..=b'F' => c - b'A' + 10,
            _ => 0,
        }
    };
    let mut i = 0;
    while i + 1 < b.len() {
        out.push(v(b[i]) * 16 + v(b[i + 1]));
        i += 2;
    }
    out
}

pub fn hex(b: &[u8]) -> String {
    let mut s = String::with_capacity(b.len() * 2);
    for x in b {
        s.push_str(&format!("{:02x}", x));
    }
    s
}

pub fn hex_field(req: &Value, k: &str) -> Vec<u8> {
    unhex(req[k].as_str().unwrap_or(""))
}

/// string field given as hex; None when not valid UTF-8
pub fn str_field(req: &Value, k: &str) -> Option<String> {
    String::from_utf8(hex_field(req, k)).ok()
}

/// Materialise a tree description under `root`.
/// entries: [{"p": rel path, "k": "f"|"d"|"l", "c": hex content, "m": mode, "t": link target}]
pub fn materialize(root: &Path, tree: &Value) -> std::io::Result<()> {
    let empty = vec![];
    let entries = tree.as_array().unwrap_or(&empty);
    // directories first (shallow first), then files and links; modes of dirs last
    let mut dirs: Vec<(&Value, PathBuf)> = vec![];
    for e in entries {
        let p = root.join(e["p"].as_str().unwrap_or(""));
        match e["k"].as_str().unwrap_or("f") {
            "d" => {
                fs::create_dir_all(&p)?;
                dirs.push((e, p));
            }
            "l" => {
                if let Some(parent) = p.parent() {
                    fs::create_dir_all(parent)?;
                }
                std::os::unix::fs::symlink(e["t"].as_str().unwrap_or(""), &p)?;
            }
            _ => {
                if let Some(parent) = p.parent() {
                    fs::create_dir_all(parent)?;
                }
                fs::write(&p, unhex(e["c"].as_str().unwrap_or("")))?;
                if let Some(m) = e["m"].as_u64() {
                    fs::set_permissions(&p, fs::Permissions::from_mode(m as u32))?;
                }
            }
        }
    }
    for (e, p) in dirs.iter().rev() {
        if let Some(m) = e["m"].as_u64() {
            fs::set_permissions(p, fs::Permissions::from_mode(m as u32))?;
        }
    }
    Ok(())
}

/// Snapshot of everything under `root` (not following symlinks), sorted by path.
pub fn snapshot(root: &Path) -> Value {
    let mut out: Vec<(String, Value)> = vec![];
    fn walk(root: &Path, dir: &Path, out: &mut Vec<(String, Value)>) {
        let Ok(rd) = fs::read_dir(dir) else { return };
        for ent in rd.flatten() {
            let p = ent.path();
            let rel = p.strip_prefix(root).unwrap().to_string_lossy().to_string();
            let Ok(md) = fs::symlink_metadata(&p) else { continue };
            let mode = md.permissions().mode() & 0o7777;
            if md.file_type().is_symlink() {
                let t = fs::read_link(&p).map(|t| t.to_string_lossy().to_string()).unwrap_or_default();
                out.push((rel.clone(), json!({"p": rel, "k": "l", "t": t})));
            } else if md.is_dir() {
                out.push((rel.clone(), json!({"p": rel, "k": "d", "m": mode})));
                walk(root, &p, out);
            } else {
                let c = fs::read(&p).unwrap_or_default();
                out.push((rel.clone(), json!({"p": rel, "k": "f", "c": hex(&c), "m": mode})));
            }
        }
    }
    walk(root, root, &mut out);
    out.sort_by(|a, b| a.0.cmp(&b.0));
    Value::Array(out.into_iter().map(|x| x.1).collect())
}

/// Run `f` with the process cwd set to `dir` (the harness is single threaded).
pub fn with_cwd<T>(dir: &Path, f: impl FnOnce() -> T) -> T {
    let old = std::env::current_dir().ok();
    std::env::set_current_dir(dir).expect("chdir");
    let r = std::panic::catch_unwind(std::panic::AssertUnwindSafe(f));
    if let Some(o) = old {
        let _ = std::env::set_current_dir(o);
    }
    match r {
        Ok(v) => v,
        Err(e) => std::panic::resume_unwind(e),
    }
}
