#!/bin/bash
# runs every quick check sequentially on /repo as it is; summary on stdout
cd "$(dirname "$0")"
mkdir -p build/logs
rc=0
for i in 01 02 03 04 05 06 07 08 09 10 11 12 13 14 15 16 17 18 19 20; do
  s=$(date +%s)
  ./check C$i --tier quick > build/logs/C$i.quick.log 2>&1
  e=$?
  echo "C$i exit=$e $(( $(date +%s) - s ))s $(grep -c KNOWN-FINDING build/logs/C$i.quick.log) known $(grep VIOLATION build/logs/C$i.quick.log | head -2)"
  [ $e -ne 0 ] && rc=1
done
exit $rc
