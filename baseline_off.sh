#!/bin/bash
# Runs the repository's pinned test suite with the verif-hooks feature OFF and reports
# pass/fail counts. Usage: ./baseline_off.sh [logfile]
cd /repo || exit 2
LOG=${1:-/verif/build/baseline.log}
mkdir -p "$(dirname "$LOG")"
export CARGO_NET_OFFLINE=true
if [ -f /w/lib/nextest.toml ] && cargo nextest --version >/dev/null 2>&1; then
  cargo nextest run --workspace --no-fail-fast --tool-config-file pb:/w/lib/nextest.toml --profile pb --test-threads 8 --offline >"$LOG" 2>&1
else
  cargo test --workspace --no-fail-fast --offline >"$LOG" 2>&1
fi
rc=$?
grep -E "Summary|tests run|test result|FAIL " "$LOG" | tail -20
exit $rc
