(* Proofs/CompoundP.v — theorems about Model/Compound.v (find_compound_variants), property C07
   "only the term changes: match soundness and locality".  Stdlib + lia only.

   (a) compound_soundness      a non-empty result implies a whole-word, case-insensitive window
   (b) compound_near_miss      no such window -> no edit; xfoo_bar / foo_barn / foobar corollaries
   (c) compound_locality_*     single-style identifiers: everything outside the term is preserved
   (d) compound_doubled_separator_refuted   my__old_name_x -> my_new_name_x *)
From Coq Require Import String.
From Coq Require Import Lia.
From RN Require Import Base.Bytes Base.Str Model.StyleDef Model.CaseModel Model.CaseSpec Model.Compound.
From RN Require Import Gen.GenAcronyms Gen.GenStyles.
From RN Require Import Proofs.CaseP1 Proofs.CaseP2 Proofs.CaseP3 Proofs.CaseP Proofs.CompoundP1.
Open Scope N_scope.
Open Scope list_scope.

(* ================================================================== (a) soundness *)
Lemma is_sep3_delim c : is_sep3 c = true -> is_delim c = true.
Proof.
  unfold is_sep3, is_delim. intro H. rewrite H. reflexivity.
Qed.

Lemma nth_error_app_exact {A} (l r : list A) : nth_error (l ++ r) (length l) = nth_error r 0.
Proof. induction l as [|x l IH]; [reflexivity | exact IH]. Qed.

Ltac nilne := let H := fresh "H" in intro H; exfalso; apply H; reflexivity.

Section Sound.
Variable acr : acr_tab.
Hypothesis Hwf : wf_acr acr = true.

Theorem fcv_sound ident search repl styles :
  fcv acr ident search repl styles <> [] ->
  ci_window (tokens acr search) (tokens acr (snd (extract_prefix ident))).
Proof.
  unfold fcv. destruct (extract_prefix ident) as [prefix idw]. cbn [snd].
  destruct (Nat.eqb _ _ && tokens_match _ _); [nilne|].
  match goal with |- (if ?c then _ else _) <> [] -> _ => destruct c eqn:Emix end.
  - (* mixed separators: the identifier starts with the raw pattern followed by a separator *)
    intros _.
    apply andb_true_iff in Emix as [Emix Hch]. apply andb_true_iff in Emix as [Emix _].
    apply andb_true_iff in Emix as [_ Hpre].
    apply is_prefix_spec in Hpre as [r ->].
    rewrite nth_error_app_exact in Hch.
    destruct r as [|ch r]; [discriminate|]. cbn [nth_error] in Hch.
    destruct (tokens_app_delim acr Hwf ch search r (is_sep3_delim _ Hch)) as [X ->].
    exists [], (tokens acr search), X. split; reflexivity.
  - clear Emix. destruct (Nat.ltb _ _); [nilne|].
    destruct (Nat.eqb _ _ || Nat.eqb _ _); [nilne|].
    destruct (Nat.eqb (length (tokens acr repl)) 0); [nilne|].
    destruct (scan acr _ idw (tokens acr search) (tokens acr repl) 0 (tokens acr idw))
      as [rt made] eqn:Es.
    destruct (Nat.eqb made 0) eqn:Em; [nilne|].
    intros _. apply Nat.eqb_neq in Em. eapply scan_sound; eauto.
Qed.
End Sound.

(* every planned edit lies on a whole-word occurrence of the term: if the function returns
   anything, the tokens of the identifier (after prefix extraction) contain a contiguous window
   equal to the tokens of the search term up to ASCII case *)
Theorem compound_soundness : forall ident search repl styles,
  find_compound_variants ident search repl styles <> [] ->
  ci_window (tokens gen_acronyms search) (tokens gen_acronyms (snd (extract_prefix ident))).
Proof. intros ident search repl styles H. exact (fcv_sound gen_acronyms gen_acronyms_wf ident search repl styles H). Qed.

(* ================================================================== (b) near misses *)
Theorem compound_near_miss : forall ident search repl styles,
  ~ ci_window (tokens gen_acronyms search) (tokens gen_acronyms (snd (extract_prefix ident))) ->
  find_compound_variants ident search repl styles = [].
Proof.
  intros ident search repl styles Hno.
  destruct (find_compound_variants ident search repl styles) as [|m ms] eqn:E; [reflexivity|].
  exfalso. apply Hno. apply (compound_soundness ident search repl styles). rewrite E. discriminate.
Qed.

(* boolean window test, to discharge the hypothesis by computation *)
Fixpoint has_window (ot l : list bytes) : bool :=
  tokens_match (firstn (length ot) l) ot ||
  match l with [] => false | _ :: l' => has_window ot l' end.

Lemma ci_window_has ot l : ci_window ot l -> has_window ot l = true.
Proof.
  intros (l1 & w & l2 & -> & Hw).
  assert (Hlen : length w = length ot).
  { rewrite <- (map_length lower w), Hw, map_length. reflexivity. }
  induction l1 as [|x l1 IH].
  - cbn [app]. assert (E : tokens_match (firstn (length ot) (w ++ l2)) ot = true).
    { rewrite firstn_app_exact by exact Hlen. apply tokens_match_spec, Hw. }
    destruct (w ++ l2); cbn [has_window]; rewrite E; reflexivity.
  - cbn [app has_window]. rewrite IH. apply orb_true_r.
Qed.

Corollary compound_near_miss_b : forall ident search repl styles,
  has_window (tokens gen_acronyms search) (tokens gen_acronyms (snd (extract_prefix ident))) = false ->
  find_compound_variants ident search repl styles = [].
Proof.
  intros ident search repl styles H. apply compound_near_miss. intro Hw.
  apply ci_window_has in Hw. congruence.
Qed.

(* text that merely shares letters with the term is never touched, whatever the replacement and
   the enabled styles *)
Corollary near_miss_xfoo_bar : forall repl styles,
  find_compound_variants (bs "xfoo_bar") (bs "foo_bar") repl styles = [].
Proof. intros. apply compound_near_miss_b. vm_compute. reflexivity. Qed.

Corollary near_miss_foo_barn : forall repl styles,
  find_compound_variants (bs "foo_barn") (bs "foo_bar") repl styles = [].
Proof. intros. apply compound_near_miss_b. vm_compute. reflexivity. Qed.

Corollary near_miss_foobar : forall repl styles,
  find_compound_variants (bs "foobar") (bs "foo_bar") repl styles = [].
Proof. intros. apply compound_near_miss_b. vm_compute. reflexivity. Qed.

Corollary near_miss_in_compound : forall repl styles,
  find_compound_variants (bs "get_xfoo_bar_now") (bs "foo_bar") repl styles = [] /\
  find_compound_variants (bs "getFooBarnNow") (bs "foo_bar") repl styles = [] /\
  find_compound_variants (bs "get-foobar-now") (bs "foo_bar") repl styles = [].
Proof. intros. repeat split; apply compound_near_miss_b; vm_compute; reflexivity. Qed.

(* ================================================================== (d) doubled separators *)
(* the clause "separators (including doubled ones) are preserved byte for byte" is FALSE of the
   model (and of the Rust function: same output through rn-harness): the doubled underscore
   between my and old collapses *)
Theorem compound_doubled_separator_refuted :
  find_compound_variants (bs "my__old_name_x") (bs "old_name") (bs "new_name") gen_all_styles =
  [mk_cmatch (bs "my__old_name_x") (bs "my_new_name_x") Snake 0 0].
Proof. vm_compute. reflexivity. Qed.

(* ================================================================== (c) locality *)
Lemma forallb_removelast {A} (p : A -> bool) l : forallb p l = true -> forallb p (removelast l) = true.
Proof.
  induction l as [|x l IH]; [auto|]. cbn [forallb]. intro H. apply andb_true_iff in H as [Hx Hl].
  destruct l as [|y l]; [reflexivity|]. cbn [removelast forallb]. rewrite Hx. cbn [andb].
  apply IH, Hl.
Qed.

Section Loc.
Variable acr : acr_tab.
Hypothesis Hwf : wf_acr acr = true.

Lemma neutral_words_lower ws : all_neutral acr ws = true -> map lower ws = ws.
Proof.
  rewrite all_neutral_Forall. induction 1 as [|w ws Hw _ IH]; [reflexivity|].
  cbn [map]. rewrite IH. f_equal. apply lower_of_lower.
  destruct (neutral_inv _ _ Hw) as (_ & H & _). exact H.
Qed.

Lemma neutral_all_lower ws : all_neutral acr ws = true -> forallb (forallb is_lower) ws = true.
Proof.
  unfold all_neutral. apply forallb_impl. intros w Hw.
  destruct (neutral_inv _ _ Hw) as (_ & H & _). exact H.
Qed.

(* a case-insensitive window inside lower-case words is a literal occurrence *)
Lemma ci_window_literal ot sw l : all_neutral acr l = true -> map lower ot = sw ->
  ci_window ot l -> exists l1 l2, l = l1 ++ sw ++ l2.
Proof.
  intros Hn Hot (l1 & w & l2 & -> & Hw).
  unfold all_neutral in Hn. rewrite !forallb_app in Hn.
  apply andb_true_iff in Hn as [_ Hn]. apply andb_true_iff in Hn as [Hn _].
  rewrite (neutral_words_lower w Hn) in Hw. subst. eauto.
Qed.

Lemma detect_word_none w : neutral acr w = true -> detect_style acr w = None.
Proof.
  intro Hn. destruct (neutral_shape _ _ Hn) as (c & c1 & w2 & E & _).
  pose proof (nw_alpha_low acr w Hn) as Ha.
  unfold detect_style. rewrite E. rewrite <- E.
  rewrite (alpha_no_byte w 95), (alpha_no_byte w 45), (alpha_no_byte w 46), (alpha_no_byte w 32);
    try exact Ha; try reflexivity.
  rewrite (nw_up_low acr w Hn). cbn [andb]. destruct (existsb is_lower w); reflexivity.
Qed.

Lemma ends_with_join_neutral d sep ws : all_neutral acr ws = true -> ws <> [] ->
  is_delim d = true -> ends_with d (join sep ws) = false.
Proof.
  intros Hn Hne Hd. destruct ws as [|w ws'] using rev_ind; [contradiction|]. clear IHws'.
  unfold all_neutral in Hn. rewrite forallb_app in Hn. apply andb_true_iff in Hn as [_ Hn].
  cbn [forallb] in Hn. apply andb_true_iff in Hn as [Hn _].
  destruct (neutral_inv _ _ Hn) as (Hlen & Hlow & _).
  assert (Hw : ends_with d w = false).
  { destruct w as [|c w0] using rev_ind; [cbn in Hlen; lia|]. clear IHw0.
    rewrite ends_with_app. rewrite forallb_app in Hlow. apply andb_true_iff in Hlow as [_ Hc].
    cbn [forallb] in Hc. apply andb_true_iff in Hc as [Hc _].
    destruct (c =? d) eqn:E; [|reflexivity]. apply N.eqb_eq in E. subst c.
    rewrite (delim_not_lower _ Hd) in Hc. discriminate. }
  assert (Hwne : w <> []) by (destruct w; [cbn in Hlen; lia | discriminate]).
  destruct ws' as [|x ws'].
  - exact Hw.
  - rewrite join_snoc by discriminate. rewrite app_assoc, ends_with_app_ne by exact Hwne. exact Hw.
Qed.

Lemma extract_prefix_lower pfx c s : pfx = [] \/ pfx = [95] \/ pfx = [95; 95] -> is_lower c = true ->
  extract_prefix (pfx ++ c :: s) = (pfx, c :: s).
Proof.
  intros Hp Hc. assert (E : (c =? 95) = false).
  { destruct (c =? 95) eqn:E; [|reflexivity]. apply N.eqb_eq in E. subst c. discriminate. }
  destruct Hp as [->|[->| ->]]; cbn [app extract_prefix]; rewrite ?N.eqb_refl, ?E; reflexivity.
Qed.

(* Snake, Kebab and Dot share one proof *)
Lemma locality_sep S sep pfx pre sw post search repl styles :
  (S = Snake /\ sep = 95) \/ (S = Kebab /\ sep = 45) \/ (S = Dot /\ sep = 46) ->
  pfx = [] \/ pfx = [95] \/ pfx = [95; 95] ->
  all_neutral acr pre = true -> all_neutral acr sw = true -> all_neutral acr post = true ->
  sw <> [] -> pre ++ post <> [] ->
  map lower (tokens acr search) = sw ->
  tokens acr repl <> [] ->
  (forall l1 l2, pre ++ removelast sw <> l1 ++ sw ++ l2) ->
  (forall l1 l2, post <> l1 ++ sw ++ l2) ->
  existsb (style_eqb S) styles = true ->
  fcv acr (pfx ++ join [sep] (pre ++ sw ++ post)) search repl styles =
  [mk_cmatch (pfx ++ join [sep] (pre ++ sw ++ post))
             (pfx ++ join [sep] (pre ++ map lower (tokens acr repl) ++ post)) S 0 0].
Proof.
  intros HS Hpfx Hpre Hsw Hpost Hswne Hpp Hsearch Hrepl Hno1 Hno2 Hsty.
  set (ws := pre ++ sw ++ post).
  assert (Hn : all_neutral acr ws = true).
  { unfold ws, all_neutral. rewrite !forallb_app. unfold all_neutral in *.
    rewrite Hpre, Hsw, Hpost. reflexivity. }
  assert (Hlen : (2 <= length ws)%nat).
  { unfold ws. rewrite !app_length. destruct sw; [contradiction|].
    destruct pre; destruct post; cbn [length app] in *; try lia. contradiction. }
  assert (Hne : ws <> []) by (destruct ws; [cbn in Hlen; lia | discriminate]).
  assert (Hvis : visible S = true) by (destruct HS as [[-> _]|[[-> _]|[-> _]]]; reflexivity).
  assert (Hsepd : is_delim sep = true) by (destruct HS as [[_ ->]|[[_ ->]|[_ ->]]]; reflexivity).
  assert (Hrender : join [sep] ws = render S ws).
  { destruct ws; [contradiction|]. destruct HS as [[-> ->]|[[-> ->]|[-> ->]]]; reflexivity. }
  assert (Htoks : toks_of S ws = ws) by (destruct HS as [[-> _]|[[-> _]|[-> _]]]; reflexivity).
  assert (Hsepof : sep_of S = Some sep) by (destruct HS as [[-> ->]|[[-> ->]|[-> ->]]]; reflexivity).
  set (idw := join [sep] ws).
  (* prefix *)
  assert (Hhd : exists c s, idw = c :: s /\ is_lower c = true).
  { unfold idw. rewrite Hrender.
    pose proof (proj1 (all_neutral_Forall acr ws) Hn) as HF.
    inversion HF as [E0|w0 ws' Hw0 _ E0]; [symmetry in E0; contradiction|].
    destruct (neutral_shape _ _ Hw0) as (c & c1 & w2 & -> & Hc & _).
    destruct (render_hd S c (c1 :: w2) ws') as [s' E].
    exists (hd_byte S c), s'. split; [exact E|].
    destruct HS as [[-> _]|[[-> _]|[-> _]]]; exact Hc. }
  destruct Hhd as (c0 & s0 & Eidw & Hc0).
  unfold fcv. rewrite Eidw, (extract_prefix_lower pfx c0 s0 Hpfx Hc0). rewrite <- Eidw.
  (* tokens *)
  assert (Hit : tokens acr idw = ws).
  { unfold idw. rewrite Hrender, <- (to_style_render acr ws S Hn).
    rewrite (tokens_render acr S ws Hwf Hvis Hne Hn). exact Htoks. }
  rewrite Hit.
  set (ot := tokens acr search) in *. set (nt := tokens acr repl) in *.
  assert (Hotlen : length ot = length sw) by (rewrite <- Hsearch, map_length; reflexivity).
  assert (Hotne : ot <> []) by (intro E; rewrite E in Hotlen; destruct sw; [contradiction|discriminate]).
  assert (Hwslen : (length ot < length ws)%nat).
  { unfold ws. rewrite !app_length, Hotlen. clear - Hswne Hpp.
    destruct pre; destruct post; cbn [length app] in *; try lia. contradiction. }
  replace (Nat.eqb (length ws) (length ot)) with false by (symmetry; apply Nat.eqb_neq; clear - Hwslen; lia).
  cbn [andb].
  (* separator flags *)
  assert (Hc : forall d, is_delim d = true -> contains d idw = (d =? sep)).
  { intros d Hd. unfold contains, idw. rewrite Hrender.
    rewrite (flag_byte acr ws Hn Hlen S d Hd), Hsepof. reflexivity. }
  assert (H95 : contains 95 idw = (95 =? sep)) by (apply Hc; reflexivity).
  assert (H45 : contains 45 idw = (45 =? sep)) by (apply Hc; reflexivity).
  assert (H46 : contains 46 idw = (46 =? sep)) by (apply Hc; reflexivity).
  assert (H32 : contains 32 idw = (32 =? sep)) by (apply Hc; reflexivity).
  assert (Hmixed : (contains 95 idw && contains 45 idw) || (contains 95 idw && contains 46 idw)
                   || (contains 45 idw && contains 46 idw) = false).
  { rewrite H95, H45, H46. destruct HS as [[_ ->]|[[_ ->]|[_ ->]]]; reflexivity. }
  rewrite Hmixed. cbn [andb].
  replace (Nat.ltb (length ws) (length ot)) with false by (symmetry; apply Nat.ltb_ge; clear - Hwslen; lia).
  replace (Nat.eqb (length ot) 0) with false
    by (symmetry; apply Nat.eqb_neq; destruct ot; [contradiction | discriminate]).
  replace (Nat.eqb (length ws) 0) with false by (symmetry; apply Nat.eqb_neq; clear - Hlen; lia).
  replace (Nat.eqb (length nt) 0) with false
    by (symmetry; apply Nat.eqb_neq; destruct nt; [contradiction | discriminate]).
  cbn [orb].
  (* the scan *)
  assert (Hswl : map lower sw = map lower ot) by (rewrite Hsearch; apply neutral_words_lower, Hsw).
  assert (Hnw1 : ~ ci_window ot (pre ++ removelast sw)).
  { intro Hw. eapply ci_window_literal in Hw as (l1 & l2 & E); [|  |exact Hsearch].
    - exact (Hno1 l1 l2 E).
    - unfold all_neutral in *. rewrite forallb_app, Hpre. cbn [andb].
      apply forallb_removelast, Hsw. }
  assert (Hnw2 : ~ ci_window ot post).
  { intro Hw. eapply ci_window_literal in Hw as (l1 & l2 & E); [| exact Hpost |exact Hsearch].
    exact (Hno2 l1 l2 E). }
  unfold ws at 1.
  rewrite (scan_one acr (pfx ++ idw) idw ot nt pre sw post Hotne Hswl Hnw1 Hnw2).
  cbn [Nat.eqb].
  (* styles *)
  assert (Hdet : detect_style acr idw = Some S).
  { unfold idw. rewrite Hrender, (detect_render acr S ws Hlen Hn), Hvis. reflexivity. }
  assert (Hfinal : final_style acr (pfx ++ idw) idw sw = Some S).
  { unfold final_style. rewrite Hdet.
    assert (Hm : matched_style acr (pfx ++ idw) idw sw = None \/
                 matched_style acr (pfx ++ idw) idw sw = Some S).
    { unfold matched_style. destruct sw as [|w [|w' sw']]; [contradiction| |].
      - left. apply detect_word_none. cbn in Hsw. apply andb_true_iff in Hsw as [H _]. exact H.
      - right. assert (Hw : neutral acr w = true)
          by (cbn in Hsw; apply andb_true_iff in Hsw as [H _]; exact H).
        assert (Ht : forallb is_title_word (w :: w' :: sw') = false)
          by (cbn [forallb]; rewrite (nw_title_low acr w Hw); reflexivity).
        rewrite Ht, (neutral_all_lower _ Hsw). cbn [andb]. exact Hdet. }
    destruct Hm as [-> | ->]; destruct HS as [[-> _]|[[-> _]|[-> _]]]; reflexivity. }
  rewrite Hfinal.
  assert (Hnew : join [sep] (pre ++ style_new acr nt sw (Some S) ++ post) =
                 join [sep] (pre ++ map lower nt ++ post)).
  { destruct HS as [[-> _]|[[-> _]|[-> ->]]]; try reflexivity.
    (* Dot: the new tokens are rendered into ONE token "a.b" and then joined with dots *)
    cbn [style_new]. unfold to_style. destruct nt as [|t0 nt'] eqn:Ent; [contradiction|].
    rewrite <- Ent. apply join_flatten. rewrite Ent. discriminate. }
  unfold inferred_style. rewrite Hdet, Hsty.
  (* rejoin and trailing delimiter *)
  assert (Hrejoin : forall rt, rejoin acr idw rt S = join [sep] rt).
  { intro rt. unfold rejoin. rewrite H95, H45, H46.
    destruct HS as [[-> ->]|[[-> ->]|[-> ->]]]; reflexivity. }
  rewrite Hrejoin, Hnew.
  assert (Htrail : forall r, restore_trailing idw r = r).
  { intro r. unfold restore_trailing, idw.
    rewrite !(ends_with_join_neutral _ [sep] ws Hn Hne) by reflexivity. reflexivity. }
  rewrite Htrail. reflexivity.
Qed.

End Loc.

(* ------------------------------------------------------------------ (c), exported statements *)
Definition pfx_ok (pfx : bytes) : Prop := pfx = [] \/ pfx = [95] \/ pfx = [95; 95].
(* [sw] does not occur in [l] as a contiguous sub-list *)
Definition no_occ (sw l : list bytes) : Prop := forall l1 l2, l <> l1 ++ sw ++ l2.

Section LocTop.
Let acr := gen_acronyms.

(* Hypotheses, in order:
   - the prefix is one of "", "_", "__";
   - pre / sw / post are neutral words (>= 3 lower-case letters, not an acronym: Model/CaseSpec.v);
   - the term has at least one word and the identifier is a proper compound;
   - [search] is ANY spelling whose tokens are the words sw up to case (snake, camel, ...);
   - the replacement has at least one token;
   - the term occurs exactly once: not in [pre ++ removelast sw] (this also excludes an earlier
     occurrence that straddles into the term), not in [post];
   - the style of the identifier is enabled.
   Conclusion: exactly one match; its replacement is the identifier with the words sw replaced by
   the lower-cased tokens of [repl]; prefix, other words and single separators are untouched. *)
Theorem compound_locality_snake : forall pfx pre sw post search repl styles,
  pfx_ok pfx ->
  all_neutral acr pre = true -> all_neutral acr sw = true -> all_neutral acr post = true ->
  sw <> [] -> pre ++ post <> [] ->
  map lower (tokens acr search) = sw ->
  tokens acr repl <> [] ->
  no_occ sw (pre ++ removelast sw) -> no_occ sw post ->
  existsb (style_eqb Snake) styles = true ->
  find_compound_variants (pfx ++ join [95] (pre ++ sw ++ post)) search repl styles =
  [mk_cmatch (pfx ++ join [95] (pre ++ sw ++ post))
             (pfx ++ join [95] (pre ++ map lower (tokens acr repl) ++ post)) Snake 0 0].
Proof. intros. apply (locality_sep acr gen_acronyms_wf Snake 95); auto. Qed.

Theorem compound_locality_kebab : forall pfx pre sw post search repl styles,
  pfx_ok pfx ->
  all_neutral acr pre = true -> all_neutral acr sw = true -> all_neutral acr post = true ->
  sw <> [] -> pre ++ post <> [] ->
  map lower (tokens acr search) = sw ->
  tokens acr repl <> [] ->
  no_occ sw (pre ++ removelast sw) -> no_occ sw post ->
  existsb (style_eqb Kebab) styles = true ->
  find_compound_variants (pfx ++ join [45] (pre ++ sw ++ post)) search repl styles =
  [mk_cmatch (pfx ++ join [45] (pre ++ sw ++ post))
             (pfx ++ join [45] (pre ++ map lower (tokens acr repl) ++ post)) Kebab 0 0].
Proof. intros. apply (locality_sep acr gen_acronyms_wf Kebab 45); auto. Qed.

Theorem compound_locality_dot : forall pfx pre sw post search repl styles,
  pfx_ok pfx ->
  all_neutral acr pre = true -> all_neutral acr sw = true -> all_neutral acr post = true ->
  sw <> [] -> pre ++ post <> [] ->
  map lower (tokens acr search) = sw ->
  tokens acr repl <> [] ->
  no_occ sw (pre ++ removelast sw) -> no_occ sw post ->
  existsb (style_eqb Dot) styles = true ->
  find_compound_variants (pfx ++ join [46] (pre ++ sw ++ post)) search repl styles =
  [mk_cmatch (pfx ++ join [46] (pre ++ sw ++ post))
             (pfx ++ join [46] (pre ++ map lower (tokens acr repl) ++ post)) Dot 0 0].
Proof. intros. apply (locality_sep acr gen_acronyms_wf Dot 46); auto 6. Qed.

(* the form asked for: search term and replacement are neutral words sw / rw written in ANY
   boundary-visible style S0 / S1; the result is pfx ++ join "_" (pre ++ rw ++ post) *)
Corollary compound_locality_snake_words : forall pfx pre sw rw post S0 S1 styles,
  pfx_ok pfx ->
  all_neutral acr pre = true -> all_neutral acr sw = true -> all_neutral acr post = true ->
  all_neutral acr rw = true ->
  sw <> [] -> rw <> [] -> pre ++ post <> [] ->
  visible S0 = true -> visible S1 = true ->
  no_occ sw (pre ++ removelast sw) -> no_occ sw post ->
  existsb (style_eqb Snake) styles = true ->
  find_compound_variants (pfx ++ join [95] (pre ++ sw ++ post))
                         (to_style acr sw S0) (to_style acr rw S1) styles =
  [mk_cmatch (pfx ++ join [95] (pre ++ sw ++ post)) (pfx ++ join [95] (pre ++ rw ++ post)) Snake 0 0].
Proof.
  intros pfx pre sw rw post S0 S1 styles Hp Hpre Hsw Hpost Hrw Hswne Hrwne Hpp Hv0 Hv1 Hn1 Hn2 Hst.
  pose proof (C18_roundtrip acr S0 sw gen_acronyms_wf Hv0 Hswne Hsw) as E0.
  pose proof (C18_roundtrip acr S1 rw gen_acronyms_wf Hv1 Hrwne Hrw) as E1.
  rewrite (compound_locality_snake pfx pre sw post _ _ styles); auto.
  - fold acr. rewrite E1. reflexivity.
  - fold acr. intro E. rewrite E in E1. cbn in E1. congruence.
Qed.

Corollary compound_locality_kebab_words : forall pfx pre sw rw post S0 S1 styles,
  pfx_ok pfx ->
  all_neutral acr pre = true -> all_neutral acr sw = true -> all_neutral acr post = true ->
  all_neutral acr rw = true ->
  sw <> [] -> rw <> [] -> pre ++ post <> [] ->
  visible S0 = true -> visible S1 = true ->
  no_occ sw (pre ++ removelast sw) -> no_occ sw post ->
  existsb (style_eqb Kebab) styles = true ->
  find_compound_variants (pfx ++ join [45] (pre ++ sw ++ post))
                         (to_style acr sw S0) (to_style acr rw S1) styles =
  [mk_cmatch (pfx ++ join [45] (pre ++ sw ++ post)) (pfx ++ join [45] (pre ++ rw ++ post)) Kebab 0 0].
Proof.
  intros pfx pre sw rw post S0 S1 styles Hp Hpre Hsw Hpost Hrw Hswne Hrwne Hpp Hv0 Hv1 Hn1 Hn2 Hst.
  pose proof (C18_roundtrip acr S0 sw gen_acronyms_wf Hv0 Hswne Hsw) as E0.
  pose proof (C18_roundtrip acr S1 rw gen_acronyms_wf Hv1 Hrwne Hrw) as E1.
  rewrite (compound_locality_kebab pfx pre sw post _ _ styles); auto.
  - fold acr. rewrite E1. reflexivity.
  - fold acr. intro E. rewrite E in E1. cbn in E1. congruence.
Qed.

Corollary compound_locality_dot_words : forall pfx pre sw rw post S0 S1 styles,
  pfx_ok pfx ->
  all_neutral acr pre = true -> all_neutral acr sw = true -> all_neutral acr post = true ->
  all_neutral acr rw = true ->
  sw <> [] -> rw <> [] -> pre ++ post <> [] ->
  visible S0 = true -> visible S1 = true ->
  no_occ sw (pre ++ removelast sw) -> no_occ sw post ->
  existsb (style_eqb Dot) styles = true ->
  find_compound_variants (pfx ++ join [46] (pre ++ sw ++ post))
                         (to_style acr sw S0) (to_style acr rw S1) styles =
  [mk_cmatch (pfx ++ join [46] (pre ++ sw ++ post)) (pfx ++ join [46] (pre ++ rw ++ post)) Dot 0 0].
Proof.
  intros pfx pre sw rw post S0 S1 styles Hp Hpre Hsw Hpost Hrw Hswne Hrwne Hpp Hv0 Hv1 Hn1 Hn2 Hst.
  pose proof (C18_roundtrip acr S0 sw gen_acronyms_wf Hv0 Hswne Hsw) as E0.
  pose proof (C18_roundtrip acr S1 rw gen_acronyms_wf Hv1 Hrwne Hrw) as E1.
  rewrite (compound_locality_dot pfx pre sw post _ _ styles); auto.
  - fold acr. rewrite E1. reflexivity.
  - fold acr. intro E. rewrite E in E1. cbn in E1. congruence.
Qed.
End LocTop.
