(* Proofs/Apply2P.v — three facts about apply_plan (Model/Edits.v, Model/Fs.v, Model/ApplyModel.v):
   A. ordered, non-overlapping edits never reach the panic site of the splice loop;
   B. crash atomicity of the content stage: after every prefix of the operation trace every
      original name holds its complete old or its complete new content;
   C. rollback after a failed rename stage restores the tree of the start of the stage exactly.
   Stdlib only, no axioms.  Counterexamples (vm_compute) for every hypothesis that was added. *)
From Coq Require Import List Arith Lia Bool NArith Sorted Permutation.
From RN Require Import Base.Bytes Model.Edits Model.Fs Model.ApplyModel
  Proofs.EditsP Proofs.RenameP Proofs.RenameP2.
Import ListNotations.

(* ==================================================================================== *)
(* Part A — ordered, non-overlapping edits never reach the panic site                    *)
(* ==================================================================================== *)

(* a well-formed list is accepted whatever [pos] is (no boundary condition on [pos]) *)
Lemma wf_from_start orig pos e es :
  wf_edits_from orig pos (e :: es) = true -> wf_edits_from orig (e_start e) (e :: es) = true.
Proof.
  cbn [wf_edits_from]. intro H.
  apply andb_true_iff in H as [H Hrest]. apply andb_true_iff in H as [H Hnew].
  apply andb_true_iff in H as [_ Hsl].
  rewrite Hsl, Hnew, Hrest, Nat.leb_refl. reflexivity.
Qed.

Lemma wf_edits_from_ok orig pos es :
  wf_edits_from orig pos es = true -> exists r, apply_rev_aux orig (rev es) orig = Ok r.
Proof.
  destruct es as [|e es]; intro H; [exists orig; reflexivity|].
  pose proof (wf_from_start _ _ _ _ H) as H1.
  cbn [wf_edits_from] in H.
  apply andb_true_iff in H as [H _]. apply andb_true_iff in H as [H _].
  apply andb_true_iff in H as [_ Hsl].
  destruct (str_slice orig (e_start e) (e_stop e)) as [actual|] eqn:Es; [|discriminate].
  apply str_slice_some in Es as (Hab & Hb2 & Hba & _ & _).
  eexists. apply (apply_rev_main orig (e :: es) (e_start e) H1); [lia|exact Hba].
Qed.

(* the disjunctive invariant: the already processed suffix was rejected, or it is well-formed *)
Lemma ordered_mismatch_or_wf orig es pos :
  ordered_from pos es = true -> forallb (fun e => head_ok (e_new e)) es = true ->
  apply_rev_aux orig (rev es) orig = Mismatch \/ wf_edits_from orig pos es = true.
Proof.
  revert pos; induction es as [|e es IH]; intros pos Ho Hh; [right; reflexivity|].
  cbn [ordered_from] in Ho. apply andb_true_iff in Ho as [Ho Ho3]. apply andb_true_iff in Ho as [Ho1 Ho2].
  cbn [forallb] in Hh. apply andb_true_iff in Hh as [Hh1 Hh2].
  cbn [rev]. rewrite apply_rev_aux_app.
  destruct (IH (e_stop e) Ho3 Hh2) as [M|W]; [left; rewrite M; reflexivity|].
  destruct (wf_edits_from_ok _ _ _ W) as [r Hr]. rewrite Hr.
  cbn [apply_rev_aux wf_edits_from]. rewrite Ho1, Hh1, W. cbn [andb].
  destruct (str_slice orig (e_start e) (e_stop e)) as [actual|]; [|left; reflexivity].
  destruct (beq actual (e_old e)); [right; reflexivity | left; reflexivity].
Qed.

(* the loop ends in Ok or Mismatch, never in Panic; [head_ok orig] is not even needed *)
Theorem ordered_edits_never_panic_gen : forall orig es,
  ordered_from 0 es = true -> forallb (fun e => head_ok (e_new e)) es = true ->
  apply_edits_pos orig es <> Panic.
Proof.
  intros orig es Ho Hh. unfold apply_edits_pos.
  destruct (ordered_mismatch_or_wf orig es 0 Ho Hh) as [M|W]; [rewrite M; discriminate|].
  destruct (wf_edits_from_ok _ _ _ W) as [r Hr]. rewrite Hr. discriminate.
Qed.

Theorem ordered_edits_never_panic : forall orig es,
  head_ok orig = true -> ordered_from 0 es = true -> forallb (fun e => head_ok (e_new e)) es = true ->
  apply_edits_pos orig es <> Panic.
Proof. intros orig es _. apply ordered_edits_never_panic_gen. Qed.

(* sharper: the result is the stale-plan error or exactly the reference splice *)
Theorem ordered_edits_mismatch_or_spec : forall orig es,
  head_ok orig = true -> ordered_from 0 es = true -> forallb (fun e => head_ok (e_new e)) es = true ->
  apply_edits_pos orig es = Mismatch \/
  (wf_edits orig es = true /\ apply_edits_pos orig es = Ok (spec_splice orig es)).
Proof.
  intros orig es H0 Ho Hh.
  destruct (ordered_mismatch_or_wf orig es 0 Ho Hh) as [M|W]; [left; exact M|].
  right. split; [exact W|]. apply apply_edits_pos_spec; assumption.
Qed.

(* an accepted ordered list is well-formed, hence the accepted result is the reference splice *)
Corollary ordered_ok_is_spec : forall orig es r,
  head_ok orig = true -> ordered_from 0 es = true -> forallb (fun e => head_ok (e_new e)) es = true ->
  apply_edits_pos orig es = Ok r -> r = spec_splice orig es.
Proof.
  intros orig es r H0 Ho Hh E.
  destruct (ordered_edits_mismatch_or_spec orig es H0 Ho Hh) as [M|[_ S]]; congruence.
Qed.

(* ---- the hypotheses are needed ---- *)
Definition mk_edit a b o n := {| e_start := a; e_stop := b; e_old := o; e_new := n |}.

(* without [ordered_from]: overlapping edits on "éa" reach the panic site *)
Example overlapping_edits_panic :
  let orig := [195; 169; 97] in
  let es := [mk_edit 0 2 [195; 169] [120]; mk_edit 0 3 [195; 169; 97] [121]] in
  head_ok orig = true /\ forallb (fun e => head_ok (e_new e)) es = true /\
  ordered_from 0 es = false /\ apply_edits_pos orig es = Panic.
Proof. vm_compute. repeat split. Qed.

(* out-of-order (non-overlapping) edits: a multi-byte character is cut *)
Example unordered_edits_panic :
  let orig := [97; 195; 169] in
  let es := [mk_edit 1 3 [195; 169] [120]; mk_edit 0 1 [97] [195; 169; 195; 169]] in
  head_ok orig = true /\ forallb (fun e => head_ok (e_new e)) es = true /\
  ordered_from 0 es = false /\ apply_edits_pos orig es = Panic.
Proof. vm_compute. repeat split. Qed.

(* without [head_ok (e_new e)] (impossible for a Rust String): the boundary test fails *)
Example bad_replacement_panic :
  let orig := [97; 98] in
  let es := [mk_edit 0 1 [97] [120]; mk_edit 1 2 [98] [128]] in
  head_ok orig = true /\ ordered_from 0 es = true /\
  forallb (fun e => head_ok (e_new e)) es = false /\ apply_edits_pos orig es = Panic.
Proof. vm_compute. repeat split. Qed.

(* arbitrary offsets are fine: outside the file, inside a character, stale text *)
Example ordered_weird_edits :
  let orig := [195; 169; 97] in
  apply_edits_pos orig [mk_edit 0 1 [195] [120]] = Mismatch /\
  apply_edits_pos orig [mk_edit 2 3 [97] [120]; mk_edit 7 9 [] [121]] = Mismatch /\
  apply_edits_pos orig [mk_edit 0 2 [195; 169] [101]; mk_edit 2 3 [98] [120]] = Mismatch /\
  apply_edits_pos orig [mk_edit 0 2 [195; 169] [101]; mk_edit 2 3 [97] [120]] = Ok [101; 120].
Proof. vm_compute. repeat split. Qed.


(* ---- the same for apply_content_edits_with_content as it is now: sort + overlap pre-check + loop ---- *)
Lemma forallb_perm {A : Type} (f : A -> bool) l l' : Permutation l l' -> forallb f l = true -> forallb f l' = true.
Proof.
  intros P H. apply forallb_forall. intros x Hx. rewrite forallb_forall in H. apply H.
  eapply Permutation_in; [apply Permutation_sym; exact P | exact Hx].
Qed.

(* NO hypothesis on order, overlap, offsets or recorded texts any more *)
Theorem edits_never_panic : forall orig es,
  forallb (fun e => head_ok (e_new e)) es = true -> apply_edits_rev orig es <> Panic.
Proof.
  intros orig es Hh. unfold apply_edits_rev.
  destruct (ordered_from 0 (sort_edits es)) eqn:E; [|discriminate].
  apply ordered_edits_never_panic_gen; [exact E|].
  eapply forallb_perm; [apply sort_edits_perm | exact Hh].
Qed.

Theorem edits_mismatch_or_spec : forall orig es,
  head_ok orig = true -> forallb (fun e => head_ok (e_new e)) es = true ->
  apply_edits_rev orig es = Mismatch \/
  (wf_edits orig (sort_edits es) = true /\ apply_edits_rev orig es = Ok (spec_splice orig (sort_edits es))).
Proof.
  intros orig es H0 Hh. unfold apply_edits_rev.
  destruct (ordered_from 0 (sort_edits es)) eqn:E; [|left; reflexivity].
  apply ordered_edits_mismatch_or_spec; [exact H0 | exact E|].
  eapply forallb_perm; [apply sort_edits_perm | exact Hh].
Qed.

Corollary ordered_ok_is_spec_rev : forall orig es r,
  head_ok orig = true -> ordered_from 0 es = true -> forallb (fun e => head_ok (e_new e)) es = true ->
  apply_edits_rev orig es = Ok r -> r = spec_splice orig es.
Proof.
  intros orig es r H0 Ho Hh E. rewrite (apply_edits_rev_ordered orig es Ho) in E.
  eapply ordered_ok_is_spec; eassumption.
Qed.

(* the loop alone still panics on unordered input: the pre-check is what protects it *)
Lemma unordered_edits_panic_ex : exists orig es,
  forallb (fun e => head_ok (e_new e)) es = true /\ apply_edits_pos orig es = Panic /\ apply_edits_rev orig es = Ok [195; 169; 195; 169; 120].
Proof.
  exists [97; 195; 169], [mk_edit 1 3 [195; 169] [120]; mk_edit 0 1 [97] [195; 169; 195; 169]].
  vm_compute. repeat split.
Qed.

(* ==================================================================================== *)
(* Part B — crash atomicity of the content stage                                         *)
(* ==================================================================================== *)

(* ------------------------------------------------------------------------------------ *)
(* trees: a name that is free together with everything below it                          *)
(* ------------------------------------------------------------------------------------ *)

(* [p] is not a key and no key lies below [p] *)
Definition free_at (t : fs) (p : path) : Prop :=
  forall k, In k (map fst t) -> path_prefix p k = false.

(* every non-empty prefix of a key is a key (what a real directory tree satisfies) *)
Definition closed (t : fs) : Prop :=
  forall a b, In (a ++ b) (map fst t) -> a <> [] -> lookup t a <> None.

Lemma free_at_lookup t p : free_at t p -> lookup t p = None.
Proof.
  intro F. apply lookup_none. intros k I ->. specialize (F _ I). rewrite path_prefix_refl in F. discriminate.
Qed.

Lemma closed_free_at t p : closed t -> p <> [] -> lookup t p = None -> free_at t p.
Proof.
  intros C Np L k I. destruct (path_prefix p k) eqn:E; [|reflexivity].
  apply path_prefix_spec in E as [b ->]. exfalso. exact (C p b I Np L).
Qed.

Lemma free_at_sub t t' p :
  (forall k, In k (map fst t') -> In k (map fst t)) -> free_at t p -> free_at t' p.
Proof. intros S F k I. apply F, S, I. Qed.

Lemma map_rebase_free t src dst :
  free_at t src -> map (fun e => (rebase src dst (fst e), snd e)) t = t.
Proof.
  intro F. rewrite <- (map_id t) at 2. apply map_ext_in. intros [k n] I. cbn [fst snd].
  rewrite rebase_miss; [reflexivity|]. apply F. apply in_map_iff. exists (k, n). auto.
Qed.

Lemma remove_keys t p k : In k (map fst (remove t p)) -> In k (map fst t).
Proof.
  unfold remove. intro H. apply in_map_iff in H as [[k' n] [E I]]. apply filter_In in I as [I _].
  apply in_map_iff. exists (k', n). auto.
Qed.

Lemma lookup_remove_neq t p q : q <> p -> lookup (remove t p) q = lookup t q.
Proof.
  intro N. unfold remove. induction t as [|[k n] t IH]; cbn [filter lookup fst]; [reflexivity|].
  destruct (path_eqb k p) eqn:E; cbn [negb lookup].
  - apply path_eqb_eq in E. subst k.
    assert (X : path_eqb p q = false) by (apply path_eqb_neq; congruence). rewrite X. exact IH.
  - rewrite IH. reflexivity.
Qed.

Lemma lookup_remove_eq t p : lookup (remove t p) p = None.
Proof.
  apply lookup_none. intros k I ->. unfold remove in I.
  apply in_map_iff in I as [[k' n] [E I]]. apply filter_In in I as [_ I]. cbn [fst] in *. subst k'.
  rewrite path_eqb_refl in I. discriminate.
Qed.

Lemma lookup_cons_neq k n t q : k <> q -> lookup ((k, n) :: t) q = lookup t q.
Proof. intro N. cbn [lookup]. apply path_eqb_neq in N. rewrite N. reflexivity. Qed.

Lemma lookup_cons_eq k n t : lookup ((k, n) :: t) k = Some n.
Proof. cbn [lookup]. rewrite path_eqb_refl. reflexivity. Qed.

(* ------------------------------------------------------------------------------------ *)
(* operation lists                                                                       *)
(* ------------------------------------------------------------------------------------ *)

(* all operations succeed *)
Fixpoint exec_all (os : list mop) (t : fs) : option fs :=
  match os with
  | [] => Some t
  | o :: os' => match exec_mop o t with FOk t' => exec_all os' t' | FErr _ => None end
  end.

Lemma exec_all_app os1 os2 t :
  exec_all (os1 ++ os2) t = match exec_all os1 t with Some t1 => exec_all os2 t1 | None => None end.
Proof.
  revert t; induction os1 as [|o os1 IH]; intro t; cbn [app exec_all]; [reflexivity|].
  destruct (exec_mop o t); [apply IH|reflexivity].
Qed.

Lemma run_ops_exec_all os t t' : exec_all os t = Some t' -> run_ops os t = t'.
Proof.
  revert t; induction os as [|o os IH]; intro t; cbn [exec_all run_ops]; [congruence|].
  destruct (exec_mop o t); [apply IH|discriminate].
Qed.

Lemma do_ops_no_fault os s s' :
  do_ops no_fault os s = inl s' ->
  exec_all os (s_fs s) = Some (s_fs s') /\ s_trace s' = rev os ++ s_trace s.
Proof.
  revert s; induction os as [|o os IH]; intro s; cbn [do_ops exec_all rev app].
  - intro H. inversion H. auto.
  - unfold do_op, no_fault. destruct (exec_mop o (s_fs s)) as [t1|e]; [|discriminate].
    intro H. apply IH in H as [H1 H2]. cbn [s_fs s_trace] in *. split; [exact H1|].
    rewrite H2, <- app_assoc. reflexivity.
Qed.

(* [P] holds after every prefix of the operation list (execution stops at the first error) *)
Fixpoint inv_run (P : fs -> Prop) (os : list mop) (t : fs) : Prop :=
  P t /\
  match os with
  | [] => True
  | o :: os' => match exec_mop o t with FOk t' => inv_run P os' t' | FErr _ => True end
  end.

Lemma inv_run_here P os t : inv_run P os t -> P t.
Proof. destruct os; cbn [inv_run]; tauto. Qed.

Lemma inv_run_firstn P os t : inv_run P os t -> forall k, P (run_ops (firstn k os) t).
Proof.
  revert t; induction os as [|o os IH]; intros t H k.
  - rewrite firstn_nil. cbn [run_ops]. exact (inv_run_here _ _ _ H).
  - destruct k as [|k]; cbn [firstn run_ops]; [exact (inv_run_here _ _ _ H)|].
    cbn [inv_run] in H. destruct H as [H0 H].
    destruct (exec_mop o t); [apply IH; exact H | exact H0].
Qed.

Lemma inv_run_app P os1 os2 t t1 :
  inv_run P os1 t -> exec_all os1 t = Some t1 -> inv_run P os2 t1 -> inv_run P (os1 ++ os2) t.
Proof.
  revert t; induction os1 as [|o os1 IH]; intros t H1 E H2; cbn [app exec_all] in *.
  - inversion E; subst. exact H2.
  - cbn [inv_run] in *. destruct H1 as [H0 H1]. split; [exact H0|].
    destruct (exec_mop o t); [|discriminate]. apply IH; assumption.
Qed.

Lemma inv_run_impl (P Q : fs -> Prop) os t :
  (forall x, P x -> Q x) -> inv_run P os t -> inv_run Q os t.
Proof.
  intro I. revert t; induction os as [|o os IH]; intros t H; cbn [inv_run] in *.
  - destruct H. split; auto.
  - destruct H as [H0 H]. split; [auto|]. destruct (exec_mop o t); [apply IH; exact H|trivial].
Qed.

(* ------------------------------------------------------------------------------------ *)
(* the temp name                                                                         *)
(* ------------------------------------------------------------------------------------ *)

Lemma tmp_of_snoc l x : tmp_of (l ++ [x]) = l ++ [file_stem x ++ tmp_suffix].
Proof. unfold tmp_of. rewrite rev_unit, rev_involutive. reflexivity. Qed.

Lemma tmp_of_nil_iff q : tmp_of q = [] <-> q = [].
Proof.
  destruct (snoc_cases q) as [->|[l [x ->]]]; [split; reflexivity|].
  rewrite tmp_of_snoc. split; intro H; destruct l; discriminate.
Qed.

Lemma parent_tmp_of q : parent (tmp_of q) = parent q.
Proof.
  destruct (snoc_cases q) as [->|[l [x ->]]]; [reflexivity|].
  rewrite tmp_of_snoc. unfold parent. rewrite !removelast_last. reflexivity.
Qed.

(* the remark of the task: [tmp_of] is not injective *)
Example tmp_of_not_injective :
  tmp_of [[97; 46; 116; 120; 116]] = tmp_of [[97; 46; 114; 115]] /\
  [[97; 46; 116; 120; 116]] <> [[97; 46; 114; 115]].
Proof. split; [vm_compute; reflexivity | discriminate]. Qed.

(* ------------------------------------------------------------------------------------ *)
(* one file                                                                              *)
(* ------------------------------------------------------------------------------------ *)

Lemma create_ok_parent p t t' : create_fs p t = FOk t' -> is_dir t (parent p) = true.
Proof. unfold create_fs. destruct (is_dir t (parent p)); [reflexivity|discriminate]. Qed.

Lemma rename_fs_nonnil src dst t :
  src <> [] -> dst <> [] ->
  rename_fs src dst t =
  match lookup t src with
  | None => FErr ENOENT
  | Some n =>
      if negb (is_dir t (parent dst)) then
        (if exists_ t (parent dst) then FErr ENOTDIR else FErr ENOENT)
      else if path_eqb src dst then FOk t
      else if path_prefix src dst then FErr EINVAL
      else
        match lookup t dst with
        | None => FOk (map (fun e => (rebase src dst (fst e), snd e)) t)
        | Some d =>
            match n, d with
            | Dir _, Dir _ =>
                if has_children t dst then FErr ENOTEMPTY
                else FOk (map (fun e => (rebase src dst (fst e), snd e)) (remove t dst))
            | Dir _, _ => FErr ENOTDIR
            | _, Dir _ => FErr EISDIR
            | _, _ => FOk (map (fun e => (rebase src dst (fst e), snd e)) (remove t dst))
            end
        end
  end.
Proof. intros Ns Nd. destruct src; [contradiction|]. destruct dst; [contradiction|]. reflexivity. Qed.

Section OneFile.
  Variables (q : path) (m : N) (c : bytes) (t : fs).
  Hypothesis Hq : lookup t q = Some (File m c).
  Hypothesis Hfree : free_at t (tmp_of q).
  Hypothesis Hpar : is_dir t (parent q) = true.

  Let T := tmp_of q.

  Lemma of_T_absent : lookup t T = None.
  Proof. apply free_at_lookup. exact Hfree. Qed.

  Lemma of_q_key : In q (map fst t).
  Proof. eapply lookup_some_in. exact Hq. Qed.

  Lemma of_T_not_prefix_q : path_prefix T q = false.
  Proof. apply Hfree. exact of_q_key. Qed.

  Lemma of_T_neq_q : T <> q.
  Proof. intro E. pose proof of_T_not_prefix_q as H. rewrite E, path_prefix_refl in H. discriminate. Qed.

  Lemma of_q_nonnil : q <> [].
  Proof. intro E. pose proof of_T_not_prefix_q as H. unfold T in H. rewrite E in H. discriminate. Qed.

  Lemma of_T_nonnil : T <> [].
  Proof. intro E. apply (proj1 (tmp_of_nil_iff q)) in E. exact (of_q_nonnil E). Qed.

  Lemma of_step_create : exec_mop (MCreate T) t = FOk ((T, File 420 []) :: t).
  Proof.
    cbn [exec_mop]. unfold create_fs. unfold T at 1. rewrite parent_tmp_of, Hpar. cbn [negb].
    rewrite of_T_absent. reflexivity.
  Qed.

  Lemma of_step_write x new :
    exec_mop (MWrite T new) ((T, File 420 x) :: t) = FOk ((T, File 420 (x ++ new)) :: t).
  Proof.
    cbn [exec_mop]. unfold append_fs. rewrite lookup_cons_eq, remove_cons_same, (remove_absent _ _ of_T_absent).
    reflexivity.
  Qed.

  Lemma of_step_chmod x :
    exec_mop (MChmod T m) ((T, File 420 x) :: t) = FOk ((T, File m x) :: t).
  Proof.
    cbn [exec_mop]. unfold chmod_fs. rewrite lookup_cons_eq, remove_cons_same, (remove_absent _ _ of_T_absent).
    reflexivity.
  Qed.

  Lemma of_step_rename new :
    exec_mop (MRename T q) ((T, File m new) :: t) = FOk ((q, File m new) :: remove t q).
  Proof.
    cbn [exec_mop]. rewrite (rename_fs_nonnil _ _ _ of_T_nonnil of_q_nonnil).
    rewrite lookup_cons_eq.
    assert (D : is_dir ((T, File m new) :: t) (parent q) = true).
    { unfold is_dir in *. destruct (parent q) as [|a0 a'] eqn:Ep; [reflexivity|].
      rewrite <- Ep in *.
      destruct (lookup t (parent q)) as [[| |]|] eqn:L; try discriminate.
      rewrite lookup_cons_neq; [rewrite L; reflexivity|].
      intro E. pose proof (Hfree _ (lookup_some_in _ _ _ L)) as X. fold T in X.
      rewrite <- E, path_prefix_refl in X. discriminate. }
    rewrite D. cbn [negb].
    assert (E1 : path_eqb T q = false) by (apply path_eqb_neq; exact of_T_neq_q).
    rewrite E1, of_T_not_prefix_q.
    rewrite (lookup_cons_neq _ _ _ _ of_T_neq_q), Hq.
    f_equal. unfold remove at 1. cbn [filter fst]. rewrite E1. cbn [negb map fst snd].
    fold (remove t q). f_equal.
    - f_equal. unfold rebase. rewrite path_prefix_refl, skipn_all, app_nil_r. reflexivity.
    - apply map_rebase_free. eapply free_at_sub; [|exact Hfree]. intros k I. eapply remove_keys; exact I.
  Qed.

  (* all operations of the file succeed; the result is the tree with [q] replaced *)
  Lemma content_ops_exec new :
    exec_all (content_ops q m new) t = Some ((q, File m new) :: remove t q).
  Proof.
    unfold content_ops. fold T. destruct new as [|b new]; cbn [app exec_all].
    - rewrite of_step_create, of_step_chmod, of_step_rename. reflexivity.
    - rewrite of_step_create, of_step_write, of_step_chmod, of_step_rename. reflexivity.
  Qed.

  (* the trees after the proper prefixes are [t] or [t] plus the temp file *)
  Lemma content_ops_inv_run (P : fs -> Prop) new :
    P t -> (forall n, P ((T, n) :: t)) -> P ((q, File m new) :: remove t q) ->
    inv_run P (content_ops q m new) t.
  Proof.
    intros P0 P1 P2. unfold content_ops. fold T. destruct new as [|b new]; cbn [app inv_run].
    - rewrite of_step_create, of_step_chmod, of_step_rename. repeat split; auto.
    - rewrite of_step_create, of_step_write, of_step_chmod, of_step_rename. repeat split; auto.
  Qed.

  (* the one-file lemma in the form of the task: after every proper prefix [q] still holds its
     complete old content, after the whole list its complete new content and the temp name is
     free again; every other name (except the temp name) is untouched by every prefix *)
  Theorem content_ops_one_file new k :
    let ops := content_ops q m new in
    let t' := run_ops (firstn k ops) t in
    ((k < length ops)%nat -> lookup t' q = Some (File m c)) /\
    ((length ops <= k)%nat -> t' = (q, File m new) :: remove t q /\
                               lookup t' q = Some (File m new) /\ lookup t' T = None) /\
    (forall q', q' <> q -> q' <> T -> lookup t' q' = lookup t q') /\
    exec_all ops t = Some ((q, File m new) :: remove t q).
  Proof.
    intros ops t'.
    assert (Fin : forall x, x = (q, File m new) :: remove t q ->
                  lookup x q = Some (File m new) /\ lookup x T = None /\
                  forall q', q' <> q -> q' <> T -> lookup x q' = lookup t q').
    { intros x ->. split; [apply lookup_cons_eq|]. split.
      - rewrite lookup_cons_neq by (intro E; apply of_T_neq_q; auto).
        rewrite lookup_remove_neq by exact of_T_neq_q. exact of_T_absent.
      - intros q' N1 N2. rewrite lookup_cons_neq by auto. apply lookup_remove_neq. exact N1. }
    assert (Mid : forall x, (x = t \/ exists n, x = (T, n) :: t) ->
                  lookup x q = Some (File m c) /\
                  forall q', q' <> q -> q' <> T -> lookup x q' = lookup t q').
    { intros x [->|[n ->]]; [auto|]. split.
      - rewrite lookup_cons_neq by exact of_T_neq_q. exact Hq.
      - intros q' _ N2. apply lookup_cons_neq. auto. }
    pose proof (content_ops_exec new) as EX. fold ops in EX.
    assert (Cases : ((k < length ops)%nat /\ (t' = t \/ exists n, t' = (T, n) :: t)) \/
                    ((length ops <= k)%nat /\ t' = (q, File m new) :: remove t q)).
    { subst t' ops. unfold content_ops. fold T.
      destruct new as [|b new]; cbn [app length];
        destruct k as [|[|[|[|k]]]]; cbn [firstn run_ops];
        rewrite ?of_step_create; cbn [firstn run_ops];
        rewrite ?of_step_write; cbn [firstn run_ops];
        rewrite ?of_step_chmod; cbn [firstn run_ops];
        rewrite ?of_step_rename; cbn [firstn run_ops];
        try rewrite firstn_nil; cbn [run_ops];
        first [ left; split; [lia|]; first [left; reflexivity | right; eexists; reflexivity]
              | right; split; [lia|reflexivity] ]. }
    destruct Cases as [[L C]|[L C]].
    - destruct (Mid _ C) as [M1 M2]. repeat split; try (intros; lia); auto.
    - destruct (Fin _ C) as [F1 [F2 F3]]. repeat split; try (intros; lia); auto.
  Qed.
End OneFile.

(* the same with the hypotheses in the form of the task, on a closed tree *)
Corollary content_ops_one_file_closed q m c t new k :
  lookup t q = Some (File m c) -> lookup t (tmp_of q) = None -> closed t ->
  is_dir t (parent q) = true ->
  let ops := content_ops q m new in
  let t' := run_ops (firstn k ops) t in
  tmp_of q <> q /\
  ((k < length ops)%nat -> lookup t' q = Some (File m c)) /\
  ((length ops <= k)%nat -> lookup t' q = Some (File m new) /\ lookup t' (tmp_of q) = None) /\
  (forall q', q' <> q -> q' <> tmp_of q -> lookup t' q' = lookup t q') /\
  exec_all ops t = Some ((q, File m new) :: remove t q).
Proof.
  intros Hq Ht C Hp ops t'.
  assert (Nq : tmp_of q <> []).
  { intro E. apply (proj1 (tmp_of_nil_iff q)) in E. subst q. cbn in Ht. congruence. }
  pose proof (closed_free_at _ _ C Nq Ht) as F.
  destruct (content_ops_one_file q m c t Hq F Hp new k) as (A1 & A2 & A3 & A4).
  split; [apply (of_T_neq_q q m c t Hq F)|].
  split; [exact A1|]. split; [|split; [exact A3|exact A4]].
  intro Hk. destruct (A2 Hk) as (_ & X & Y). auto.
Qed.

(* ------------------------------------------------------------------------------------ *)
(* the whole content stage                                                               *)
(* ------------------------------------------------------------------------------------ *)

(* what a crash may leave at [q] when the tree held [n] there: the old node, or — for a planned
   regular file — the complete result of the splice loop on the old content *)
Definition old_or_new (files : list (path * list edit)) (q : path) (n : node) (t' : fs) : Prop :=
  lookup t' q = Some n \/
  exists m c es new, n = File m c /\ In (q, es) files /\ utf8_ok c = true /\
                     apply_edits_rev c es = Ok new /\ lookup t' q = Some (File m new).

Lemma edit_file_inl p es s s' :
  edit_file no_fault p es s = inl s' ->
  exists m c new, lookup (s_fs s) p = Some (File m c) /\ utf8_ok c = true /\
                  apply_edits_rev c es = Ok new /\ do_ops no_fault (content_ops p m new) s = inl s'.
Proof.
  unfold edit_file. destruct (lookup (s_fs s) p) as [[m c| |]|]; try discriminate.
  destruct (utf8_ok c) eqn:U; cbn [negb]; [|discriminate].
  destruct (apply_edits_rev c es) as [new| |] eqn:A; try discriminate.
  intro H. exists m, c, new. repeat split; auto.
Qed.

Lemma content_ops_create_first p m new t t' :
  exec_all (content_ops p m new) t = Some t' -> is_dir t (parent p) = true.
Proof.
  unfold content_ops. cbn [app exec_all exec_mop]. destruct (create_fs (tmp_of p) t) eqn:E; [|discriminate].
  intros _. apply create_ok_parent in E. rewrite parent_tmp_of in E. exact E.
Qed.

Lemma content_stage_atomic files : forall s s',
  content_stage no_fault files s = inl s' ->
  NoDup (map fst files) ->
  (forall f, In f (map fst files) -> free_at (s_fs s) (tmp_of f)) ->
  exists ops,
    s_trace s' = rev ops ++ s_trace s /\
    exec_all ops (s_fs s) = Some (s_fs s') /\
    (forall k, In k (map fst (s_fs s')) -> In k (map fst (s_fs s))) /\
    (forall f, In f (map fst files) -> In f (map fst (s_fs s))) /\
    forall q n, lookup (s_fs s) q = Some n -> inv_run (old_or_new files q n) ops (s_fs s).
Proof.
  induction files as [|[p es] files IH]; intros s s' H ND F; cbn [content_stage] in H.
  - inversion H; subst. exists []. cbn [rev app exec_all inv_run]. repeat split; auto.
    + intros f [].
    + left. assumption.
  - destruct (edit_file no_fault p es s) as [s1|[f1 s1]] eqn:E; [|discriminate].
    apply edit_file_inl in E as (m0 & c0 & new0 & L0 & U0 & A0 & D0).
    apply do_ops_no_fault in D0 as [X0 T0].
    assert (Fp : free_at (s_fs s) (tmp_of p)) by (apply F; left; reflexivity).
    pose proof (content_ops_create_first _ _ _ _ _ X0) as Par.
    pose proof (content_ops_exec p m0 c0 (s_fs s) L0 Fp Par new0) as X1.
    assert (E1 : s_fs s1 = (p, File m0 new0) :: remove (s_fs s) p) by congruence.
    assert (K1 : forall k, In k (map fst (s_fs s1)) -> In k (map fst (s_fs s))).
    { rewrite E1. cbn [map fst]. intros k [<-|I]; [eapply lookup_some_in; exact L0|].
      eapply remove_keys; exact I. }
    inversion ND as [|? ? Np ND']; subst.
    destruct (IH s1 s' H ND') as (ops2 & T2 & X2 & K2 & Pl2 & I2).
    { intros f I. eapply free_at_sub; [exact K1|]. apply F. right. exact I. }
    exists (content_ops p m0 new0 ++ ops2). split; [|split; [|split; [|split]]].
    + rewrite T2, T0, rev_app_distr, app_assoc. reflexivity.
    + rewrite exec_all_app, X0. exact X2.
    + intros k I. apply K1, K2, I.
    + cbn [map fst]. intros f [<-|I]; [eapply lookup_some_in; exact L0|]. apply K1, Pl2, I.
    + intros q n Lq. eapply inv_run_app; [|exact X0|].
      * (* during the operations of [p] *)
        apply (content_ops_inv_run p m0 c0 (s_fs s) L0 Fp Par).
        -- left. exact Lq.
        -- intro n1. left. rewrite lookup_cons_neq; [exact Lq|].
           intro Eq. pose proof (Fp _ (lookup_some_in _ _ _ Lq)) as Y.
           rewrite <- Eq, path_prefix_refl in Y. discriminate.
        -- destruct (list_eq_dec (list_eq_dec N.eq_dec) q p) as [->|Nq].
           ++ right. rewrite L0 in Lq. inversion Lq; subst n.
              exists m0, c0, es, new0. repeat split; auto; [left; reflexivity|apply lookup_cons_eq].
           ++ left. rewrite lookup_cons_neq by auto. rewrite lookup_remove_neq by exact Nq. exact Lq.
      * (* afterwards *)
        destruct (list_eq_dec (list_eq_dec N.eq_dec) q p) as [->|Nq].
        -- rewrite L0 in Lq. inversion Lq; subst n.
           assert (L1 : lookup (s_fs s1) p = Some (File m0 new0)) by (rewrite E1; apply lookup_cons_eq).
           eapply inv_run_impl; [|exact (I2 p _ L1)].
           intros x [Hx|(m & c & es' & new & _ & In' & _)].
           ++ right. exists m0, c0, es, new0. repeat split; auto. left. reflexivity.
           ++ exfalso. apply Np. apply in_map_iff. exists (p, es'). auto.
        -- assert (L1 : lookup (s_fs s1) q = Some n).
           { rewrite E1, lookup_cons_neq by auto. rewrite lookup_remove_neq by exact Nq. exact Lq. }
           eapply inv_run_impl; [|exact (I2 q n L1)].
           intros x [Hx|(m & c & es' & new & En & In' & R)]; [left; exact Hx|].
           right. exists m, c, es', new. split; [exact En|]. split; [right; exact In'|exact R].
Qed.

(* ------------------------------------------------------------------------------------ *)
(* edits_by_file has pairwise distinct keys (BTreeMap)                                    *)
(* ------------------------------------------------------------------------------------ *)

Lemma bytes_ltb_irrefl a : bytes_ltb a a = false.
Proof. induction a as [|x a IH]; cbn [bytes_ltb]; [reflexivity|]. rewrite N.ltb_irrefl. exact IH. Qed.

Lemma bytes_ltb_trans a : forall b c, bytes_ltb a b = true -> bytes_ltb b c = true -> bytes_ltb a c = true.
Proof.
  induction a as [|x a IH]; intros [|y b] [|z c]; cbn [bytes_ltb]; try discriminate; try reflexivity.
  destruct (x <? y) eqn:E1, (y <? x) eqn:E2, (y <? z) eqn:E3, (z <? y) eqn:E4,
           (x <? z) eqn:E5, (z <? x) eqn:E6; try discriminate; try reflexivity;
    try (intros; exfalso;
         repeat match goal with
                | H : (_ <? _) = true |- _ => apply N.ltb_lt in H
                | H : (_ <? _) = false |- _ => apply N.ltb_ge in H
                end; lia).
  apply IH.
Qed.

Lemma bytes_ltb_total a : forall b, bytes_ltb a b = false -> bytes_ltb b a = false -> a = b.
Proof.
  induction a as [|x a IH]; intros [|y b]; cbn [bytes_ltb]; try discriminate; try reflexivity.
  destruct (x <? y) eqn:E1; [discriminate|]. destruct (y <? x) eqn:E2; [discriminate|].
  intros H1 H2. apply N.ltb_ge in E1. apply N.ltb_ge in E2. f_equal; [lia|]. apply IH; assumption.
Qed.

Lemma path_ltb_irrefl p : path_ltb p p = false.
Proof. induction p as [|a p IH]; cbn [path_ltb]; [reflexivity|]. rewrite bytes_ltb_irrefl. exact IH. Qed.

Lemma bytes_ltb_asym a b : bytes_ltb a b = true -> bytes_ltb b a = false.
Proof.
  intro H. destruct (bytes_ltb b a) eqn:E; [|reflexivity].
  pose proof (bytes_ltb_trans _ _ _ H E) as X. rewrite bytes_ltb_irrefl in X. discriminate.
Qed.

Lemma path_ltb_trans p : forall q r, path_ltb p q = true -> path_ltb q r = true -> path_ltb p r = true.
Proof.
  induction p as [|a p IH]; intros [|b q] [|c r]; cbn [path_ltb]; try discriminate; try reflexivity.
  destruct (bytes_ltb a b) eqn:E1.
  - intros _. destruct (bytes_ltb b c) eqn:E3.
    + intros _. rewrite (bytes_ltb_trans _ _ _ E1 E3). reflexivity.
    + destruct (bytes_ltb c b) eqn:E4; [discriminate|]. intros _.
      rewrite (bytes_ltb_total _ _ E3 E4) in E1. rewrite E1. reflexivity.
  - destruct (bytes_ltb b a) eqn:E2; [discriminate|].
    pose proof (bytes_ltb_total _ _ E1 E2) as ->. intro H1.
    destruct (bytes_ltb b c); [reflexivity|]. destruct (bytes_ltb c b); [discriminate|]. apply IH. exact H1.
Qed.

Lemma path_ltb_total p : forall q, path_ltb p q = false -> path_ltb q p = false -> p = q.
Proof.
  induction p as [|a p IH]; intros [|b q]; cbn [path_ltb]; try discriminate; try reflexivity.
  destruct (bytes_ltb a b) eqn:E1; [discriminate|]. destruct (bytes_ltb b a) eqn:E2; [discriminate|].
  intros H1 H2. f_equal; [apply bytes_ltb_total; assumption | apply IH; assumption].
Qed.

Definition plt (p q : path) : Prop := path_ltb p q = true.

Lemma insert_edit_keys f e m k :
  In k (map fst (insert_edit f e m)) -> k = f \/ In k (map fst m).
Proof.
  induction m as [|[g es] m IH]; cbn [insert_edit map fst In].
  - intros [<-|[]]. left. reflexivity.
  - destruct (path_eqb f g) eqn:E; cbn [map fst In]; [tauto|].
    destruct (path_ltb f g); cbn [map fst In]; [intuition|].
    intros [<-|I]; [tauto|]. apply IH in I. tauto.
Qed.

Lemma insert_edit_sorted f e m :
  StronglySorted plt (map fst m) -> StronglySorted plt (map fst (insert_edit f e m)).
Proof.
  induction m as [|[g es] m IH]; cbn [insert_edit map fst]; intro S.
  - repeat constructor.
  - inversion S as [|? ? S' Fa]; subst.
    destruct (path_eqb f g) eqn:E; cbn [map fst]; [exact S|].
    destruct (path_ltb f g) eqn:L; cbn [map fst].
    + constructor; [exact S|]. constructor; [exact L|].
      eapply Forall_impl; [|exact Fa]. intros x Hx. unfold plt in *. eapply path_ltb_trans; eauto.
    + constructor; [apply IH; exact S'|].
      apply Forall_forall. intros x I. apply insert_edit_keys in I as [->|I].
      * unfold plt. destruct (path_ltb g f) eqn:G; [reflexivity|].
        apply path_eqb_neq in E. exfalso. apply E. apply path_ltb_total; assumption.
      * rewrite Forall_forall in Fa. apply Fa. exact I.
Qed.

Lemma edits_by_file_sorted hs : StronglySorted plt (map fst (edits_by_file hs)).
Proof.
  unfold edits_by_file.
  assert (G : forall m, StronglySorted plt (map fst m) ->
              StronglySorted plt (map fst (fold_left (fun m h => insert_edit (ah_file h) (edit_of h) m) hs m))).
  { induction hs as [|h hs IH]; intros m S; cbn [fold_left]; [exact S|]. apply IH, insert_edit_sorted, S. }
  apply G. constructor.
Qed.

Lemma sorted_nodup l : StronglySorted plt l -> NoDup l.
Proof.
  induction 1 as [|x l S IH Fa]; constructor; [|exact IH].
  intro I. rewrite Forall_forall in Fa. specialize (Fa _ I). unfold plt in Fa.
  rewrite path_ltb_irrefl in Fa. discriminate.
Qed.

Theorem edits_by_file_nodup hs : NoDup (map fst (edits_by_file hs)).
Proof. apply sorted_nodup, edits_by_file_sorted. Qed.

(* ------------------------------------------------------------------------------------ *)
(* the crash theorems                                                                    *)
(* ------------------------------------------------------------------------------------ *)

Lemma apply_core_content_only p t :
  ap_renames p = [] -> r_ok (apply_core no_fault p t) = true ->
  exists s1, content_stage no_fault (edits_by_file (ap_hunks p)) {| s_fs := t; s_n := 0; s_trace := [] |} = inl s1
             /\ r_trace (apply_core no_fault p t) = rev (s_trace s1)
             /\ r_fs (apply_core no_fault p t) = s_fs s1.
Proof.
  intros R. unfold apply_core. rewrite R. cbn [first_conflict find sort_renames fold_right].
  destruct (first_unreadable t (edits_by_file (ap_hunks p))); [cbn; discriminate|].
  destruct (content_stage no_fault (edits_by_file (ap_hunks p)) _) as [s1|[f s1]]; cbn; [|discriminate].
  intros _. exists s1. auto.
Qed.

(* General form.  A crash after any number [k] of operations leaves at every original name [q]
   either its old node or, for a planned regular file, the complete output of the splice loop.
   Hypothesis on temp names: no key of the tree is at or below a temp name of a planned file. *)
Theorem crash_content_atomic_gen : forall p t k q n,
  ap_renames p = [] -> r_ok (apply_core no_fault p t) = true ->
  lookup t q = Some n ->
  (forall f es, In (f, es) (edits_by_file (ap_hunks p)) -> free_at t (tmp_of f)) ->
  old_or_new (edits_by_file (ap_hunks p)) q n (crash_prefix p t k).
Proof.
  intros p t k q n R Ok L F.
  destruct (apply_core_content_only p t R Ok) as (s1 & C & Tr & _).
  destruct (content_stage_atomic _ _ _ C (edits_by_file_nodup _)) as (ops & T1 & _ & _ & _ & I).
  { cbn [s_fs]. intros f If. apply in_map_iff in If as [[f' es] [<- If]]. exact (F _ _ If). }
  unfold crash_prefix. rewrite Tr, T1. cbn [s_trace]. rewrite app_nil_r, rev_involutive.
  exact (inv_run_firstn _ _ _ (I q n L) k).
Qed.

(* a name that is not planned keeps its node through every prefix *)
Corollary crash_unplanned_untouched : forall p t k q n,
  ap_renames p = [] -> r_ok (apply_core no_fault p t) = true ->
  lookup t q = Some n ->
  (forall f es, In (f, es) (edits_by_file (ap_hunks p)) -> free_at t (tmp_of f)) ->
  ~ In q (map fst (edits_by_file (ap_hunks p))) ->
  lookup (crash_prefix p t k) q = Some n.
Proof.
  intros p t k q n R Ok L F NI.
  destruct (crash_content_atomic_gen p t k q n R Ok L F) as [H|(m & c & es & new & _ & I & _)]; [exact H|].
  exfalso. apply NI. apply in_map_iff. exists (q, es). auto.
Qed.

Lemma utf8_head_ok c : utf8_ok c = true -> head_ok c = true.
Proof.
  destruct c as [|x c]; [reflexivity|]. cbn [utf8_ok head_ok]. unfold is_cont.
  destruct (x <? 128) eqn:E1.
  - intros _. apply N.ltb_lt in E1. apply negb_true_iff, andb_false_iff. left. apply N.leb_gt. exact E1.
  - intro H. apply negb_true_iff, andb_false_iff. right. apply N.ltb_ge.
    destruct ((194 <=? x) && (x <=? 223)) eqn:E2;
      [apply andb_true_iff in E2 as [E2 _]; apply N.leb_le in E2; lia|].
    destruct ((224 <=? x) && (x <=? 239)) eqn:E3;
      [apply andb_true_iff in E3 as [E3 _]; apply N.leb_le in E3; lia|].
    destruct ((240 <=? x) && (x <=? 244)) eqn:E4;
      [apply andb_true_iff in E4 as [E4 _]; apply N.leb_le in E4; lia|discriminate].
Qed.

(* The statement of the task (conclusion with [spec_splice]).  Two corrections, both necessary
   (see [crash_needs_ordered_edits] and [crash_needs_free_below_tmp]):
   - the edits of every planned file are ordered and non-overlapping (plan order = position order)
     and no replacement text starts with a continuation byte;
   - temp names are free together with everything below them.
   [NoDup (map fst t)] is not needed. *)
Theorem crash_content_atomic : forall p t k q m c,
  ap_renames p = [] -> r_ok (apply_core no_fault p t) = true ->
  lookup t q = Some (File m c) ->
  (forall f es, In (f, es) (edits_by_file (ap_hunks p)) ->
     free_at t (tmp_of f) /\ ordered_from 0 es = true /\ forallb (fun e => head_ok (e_new e)) es = true) ->
  lookup (crash_prefix p t k) q = Some (File m c) \/
  exists es, In (q, es) (edits_by_file (ap_hunks p)) /\
             lookup (crash_prefix p t k) q = Some (File m (spec_splice c es)).
Proof.
  intros p t k q m c R Ok L F.
  destruct (crash_content_atomic_gen p t k q _ R Ok L) as [H|(m' & c' & es & new & En & I & U & A & H)].
  - intros f es I. apply (F f es I).
  - left. exact H.
  - right. inversion En; subst m' c'. exists es. split; [exact I|].
    destruct (F _ _ I) as (_ & O & Hh).
    rewrite (ordered_ok_is_spec_rev c es new (utf8_head_ok _ U) O Hh A) in H. exact H.
Qed.

(* the same on a closed tree, with the hypothesis on temp names in the form of the task *)
Corollary crash_content_atomic_closed : forall p t k q m c,
  ap_renames p = [] -> r_ok (apply_core no_fault p t) = true ->
  lookup t q = Some (File m c) ->
  closed t ->
  (forall f es, In (f, es) (edits_by_file (ap_hunks p)) ->
     lookup t (tmp_of f) = None /\ ordered_from 0 es = true /\ forallb (fun e => head_ok (e_new e)) es = true) ->
  lookup (crash_prefix p t k) q = Some (File m c) \/
  exists es, In (q, es) (edits_by_file (ap_hunks p)) /\
             lookup (crash_prefix p t k) q = Some (File m (spec_splice c es)).
Proof.
  intros p t k q m c R Ok L C F. apply crash_content_atomic; auto.
  intros f es I. destruct (F f es I) as (N & O & H). split; [|auto].
  destruct (list_eq_dec (list_eq_dec N.eq_dec) f []) as [->|Nf].
  - (* the empty path is never planned in a successful run: its final rename is EINVAL *)
    exfalso. destruct (apply_core_content_only p t R Ok) as (s1 & CS & _ & _).
    clear - CS I. revert CS. generalize {| s_fs := t; s_n := 0; s_trace := [] |}.
    induction (edits_by_file (ap_hunks p)) as [|[g es'] files IH]; [destruct I|].
    intros s CS. cbn [content_stage] in CS.
    destruct (edit_file no_fault g es' s) as [s2|[f2 s2]] eqn:E; [|discriminate].
    destruct I as [I|I]; [|exact (IH I _ CS)].
    inversion I; subst g es'. apply edit_file_inl in E as (m0 & c0 & new0 & _ & _ & _ & D).
    apply do_ops_no_fault in D as [D _]. unfold content_ops in D.
    rewrite app_assoc, exec_all_app in D.
    destruct (exec_all _ (s_fs s)) as [tx|]; [|discriminate D].
    cbn [exec_all exec_mop] in D.
    cbn in D. destruct (chmod_fs [] m0 tx); discriminate D.
  - apply closed_free_at; [exact C| |exact N]. intro E. apply (proj1 (tmp_of_nil_iff f)) in E. contradiction.
Qed.

(* ------------------------------------------------------------------------------------ *)
(* the corrections are necessary; the hypotheses are satisfiable                          *)
(* ------------------------------------------------------------------------------------ *)
Module CrashExamples.
  Definition fa : path := [[97; 46; 116; 120; 116]].                         (* a.txt *)
  Definition hk f a b o n := {| ah_file := f; ah_start := a; ah_end := b; ah_content := o; ah_replace := n |}.

  (* 1. the statement with [spec_splice] is false when the plan order of the edits of a file is
        not their position order: the fault-free run SUCCEEDS on "abc" with the edits
        (2,3,"c"->"C"), (0,1,"a"->"AA") and installs "AAbC" (the splice of the SORTED edits; before
        the sort was added to apply.rs it installed "AACc"), which is not the reference splice
        "abCAA" of the edits in plan order *)
  Definition t_un : fs := [(fa, File 420 [97; 98; 99])].
  Definition p_un : aplan :=
    {| ap_id := []; ap_hunks := [hk fa 2 3 [99] [67]; hk fa 0 1 [97] [65; 65]]; ap_renames := [] |}.
  Example crash_needs_ordered_edits :
    r_ok (apply_core no_fault p_un t_un) = true /\
    lookup t_un (tmp_of fa) = None /\ tmp_of fa <> fa /\
    edits_by_file (ap_hunks p_un) = [(fa, [mk_edit 2 3 [99] [67]; mk_edit 0 1 [97] [65; 65]])] /\
    lookup (crash_prefix p_un t_un 4) fa = Some (File 420 [65; 65; 98; 67]) /\
    spec_splice [97; 98; 99] [mk_edit 2 3 [99] [67]; mk_edit 0 1 [97] [65; 65]] = [97; 98; 67; 65; 65].
  Proof. vm_compute. repeat split. discriminate. Qed.

  (* 2. "lookup t (tmp_of f) = None /\ tmp_of f <> q /\ NoDup" is not enough on a tree that is not
        closed: a key BELOW the (absent) temp name is dragged along by the final rename *)
  Definition q_below : path := tmp_of fa ++ [[120]].
  Definition t_open : fs := [(fa, File 420 [97]); (q_below, File 420 [122])].
  Definition p_one : aplan := {| ap_id := []; ap_hunks := [hk fa 0 1 [97] [98]]; ap_renames := [] |}.
  Example crash_needs_free_below_tmp :
    r_ok (apply_core no_fault p_one t_open) = true /\
    lookup t_open (tmp_of fa) = None /\ tmp_of fa <> q_below /\
    lookup t_open q_below = Some (File 420 [122]) /\
    lookup (crash_prefix p_one t_open 4) q_below = None.
  Proof. vm_compute. repeat split. discriminate. Qed.
  Example t_open_nodup : NoDup (map fst t_open).
  Proof. repeat constructor; cbn; intuition discriminate. Qed.

  (* 3. non-vacuity: the two-file witness of ApplyFaultP (flat tree, ordered edits) *)
  Definition fb : path := [[98]].
  Definition t_ok : fs := [([[97]], File 420 [111; 108; 100]); (fb, File 420 [111; 108; 100])].
  Definition p_ok : aplan :=
    {| ap_id := [];
       ap_hunks := [hk [[97]] 0 3 [111; 108; 100] [110; 101; 119]; hk fb 0 3 [111; 108; 100] [110; 101; 119]];
       ap_renames := [] |}.
  Lemma t_ok_closed : closed t_ok.
  Proof.
    intros a b I Na. cbn in I.
    destruct I as [E|[E|[]]]; destruct a as [|a0 [|a1 a]]; try contradiction; try discriminate;
      cbn in E; inversion E; subst; vm_compute; discriminate.
  Qed.
  Example crash_witness k :
    lookup (crash_prefix p_ok t_ok k) fb = Some (File 420 [111; 108; 100]) \/
    exists es, In (fb, es) (edits_by_file (ap_hunks p_ok)) /\
               lookup (crash_prefix p_ok t_ok k) fb = Some (File 420 (spec_splice [111; 108; 100] es)).
  Proof.
    apply crash_content_atomic_closed; [reflexivity|vm_compute; reflexivity|reflexivity|exact t_ok_closed|].
    intros f es I. vm_compute in I. destruct I as [I|[I|[]]]; inversion I; subst; vm_compute; auto.
  Qed.
  (* both outcomes occur *)
  Example crash_witness_values :
    lookup (crash_prefix p_ok t_ok 7) fb = Some (File 420 [111; 108; 100]) /\
    lookup (crash_prefix p_ok t_ok 8) fb = Some (File 420 [110; 101; 119]) /\
    lookup (crash_prefix p_ok t_ok 7) (tmp_of fb) = Some (File 420 [110; 101; 119]).
  Proof. vm_compute. repeat split. Qed.
End CrashExamples.

(* ==================================================================================== *)
(* Part C — what rollback guarantees for the rename stage                                *)
(* ==================================================================================== *)

(* ------------------------------------------------------------------------------------ *)
(* re-basing is injective away from the destination                                     *)
(* ------------------------------------------------------------------------------------ *)

Lemma rebase_self s d : rebase s d s = d.
Proof. unfold rebase. rewrite path_prefix_refl, skipn_all, app_nil_r. reflexivity. Qed.

Lemma rebase_inj_free s d a b :
  rebase s d a = rebase s d b -> path_prefix d a = false -> path_prefix d b = false -> a = b.
Proof.
  unfold rebase. intros E Fa Fb.
  destruct (path_prefix s a) eqn:Pa, (path_prefix s b) eqn:Pb.
  - apply path_prefix_spec in Pa as [ra ->]. apply path_prefix_spec in Pb as [rb ->].
    rewrite !skipn_app_len in E. apply app_inv_head in E. congruence.
  - rewrite <- E, path_prefix_app in Fb. discriminate.
  - rewrite E, path_prefix_app in Fa. discriminate.
  - exact E.
Qed.

Lemma lookup_map_inj (f : path -> path) t x :
  (forall k, In k (map fst t) -> f k = f x -> k = x) ->
  lookup (map (fun e => (f (fst e), snd e)) t) (f x) = lookup t x.
Proof.
  induction t as [|[k n] t IH]; intro Inj; cbn [map lookup fst snd]; [reflexivity|].
  destruct (path_eqb k x) eqn:E.
  - apply path_eqb_eq in E. subst k. rewrite path_eqb_refl. reflexivity.
  - assert (X : path_eqb (f k) (f x) = false).
    { apply path_eqb_neq. intro Y. apply path_eqb_neq in E. apply E. apply Inj; [left; reflexivity|exact Y]. }
    rewrite X. apply IH. intros k' I. apply Inj. right. exact I.
Qed.

Lemma lookup_rebase_free s d t x :
  free_at t d -> path_prefix d x = false ->
  lookup (map (fun e => (rebase s d (fst e), snd e)) t) (rebase s d x) = lookup t x.
Proof.
  intros F Fx. apply (lookup_map_inj (rebase s d)). intros k I E.
  apply (rebase_inj_free s d); auto.
Qed.

Lemma parent_prefix p : p <> [] -> exists c, p = parent p ++ [c].
Proof. intro N. exists (last p []). apply app_removelast_last. exact N. Qed.

(* ------------------------------------------------------------------------------------ *)
(* one rename onto a free name, and its inverse                                          *)
(* ------------------------------------------------------------------------------------ *)

Lemma rename_fs_ok_free src dst t t' :
  rename_fs src dst t = FOk t' -> free_at t dst ->
  src <> [] /\ dst <> [] /\ lookup t src <> None /\ is_dir t (parent dst) = true /\
  path_prefix src dst = false /\ path_prefix dst src = false /\
  t' = map (fun e => (rebase src dst (fst e), snd e)) t.
Proof.
  intros H F.
  assert (Ns : src <> []) by (intros ->; cbn in H; discriminate).
  assert (Nd : dst <> []) by (intros ->; destruct src; cbn in H; discriminate).
  rewrite (rename_fs_nonnil _ _ _ Ns Nd) in H.
  destruct (lookup t src) as [n|] eqn:Ls; [|discriminate].
  destruct (is_dir t (parent dst)) eqn:D; cbn [negb] in H; [|destruct (exists_ t (parent dst)); discriminate].
  pose proof (free_at_lookup _ _ F) as Ld.
  destruct (path_eqb src dst) eqn:E; [apply path_eqb_eq in E; congruence|].
  destruct (path_prefix src dst) eqn:P; [discriminate|].
  rewrite Ld in H. inversion H. repeat split; auto; try congruence.
  apply F. eapply lookup_some_in. exact Ls.
Qed.

(* CORE LEMMA.  A rename onto a name that is free (with everything below it), from a source whose
   parent is a directory, is undone by the opposite rename: the tree is restored EXACTLY
   (same association list, not only the same lookups).  No [NoDup] is needed. *)
Theorem rename_inverse src dst t t' :
  rename_fs src dst t = FOk t' -> free_at t dst -> is_dir t (parent src) = true ->
  rename_fs dst src t' = FOk t.
Proof.
  intros H F Ps.
  destruct (rename_fs_ok_free _ _ _ _ H F) as (Ns & Nd & Ls & Pd & Psd & Pds & ->).
  set (f := fun e : path * node => (rebase src dst (fst e), snd e)).
  rewrite (rename_fs_nonnil _ _ _ Nd Ns).
  (* the destination now holds the source's node *)
  assert (L1 : lookup (map f t) dst = lookup t src).
  { rewrite <- (rebase_self src dst) at 1. apply lookup_rebase_free; assumption. }
  rewrite L1. destruct (lookup t src) as [n|] eqn:Ls'; [|contradiction].
  (* the source's parent is still a directory *)
  assert (D : is_dir (map f t) (parent src) = true).
  { unfold is_dir in *. destruct (parent src) as [|a0 a'] eqn:Ep; [reflexivity|]. rewrite <- Ep in *.
    destruct (parent_prefix src Ns) as [c Ec].
    assert (X1 : path_prefix src (parent src) = false).
    { destruct (path_prefix src (parent src)) eqn:X; [|reflexivity].
      apply path_prefix_length in X. rewrite Ec in X at 1. rewrite app_length in X. cbn in X. lia. }
    assert (X2 : path_prefix dst (parent src) = false).
    { destruct (path_prefix dst (parent src)) eqn:X; [|reflexivity].
      rewrite Ec, (path_prefix_app_r _ _ _ X) in Pds. discriminate. }
    rewrite <- (rebase_miss src dst _ X1) at 1. unfold f. rewrite lookup_rebase_free by assumption.
    exact Ps. }
  rewrite D. cbn [negb].
  assert (E : path_eqb dst src = false).
  { apply path_eqb_neq. intros ->. rewrite path_prefix_refl in Pds. discriminate. }
  rewrite E, Pds.
  (* the source name is free again *)
  assert (L2 : lookup (map f t) src = None).
  { apply lookup_none. intros k I. unfold f in I. rewrite map_map in I. cbn [fst] in I.
    apply in_map_iff in I as [[k0 n0] [Ek I]]. cbn [fst] in Ek. subst k. unfold rebase.
    destruct (path_prefix src k0) eqn:P0.
    - intro Z. rewrite <- Z, path_prefix_app in Pds. discriminate.
    - intros ->. rewrite path_prefix_refl in P0. discriminate. }
  rewrite L2. f_equal. rewrite map_map. rewrite <- (map_id t) at 2. apply map_ext_in.
  intros [k n0] I. unfold f. cbn [fst snd]. f_equal.
  assert (Ik : In k (map fst t)) by (apply in_map_iff; exists (k, n0); auto).
  destruct (path_prefix src k) eqn:P0.
  - apply path_prefix_spec in P0 as [r ->]. rewrite !rebase_hit. reflexivity.
  - rewrite (rebase_miss src dst _ P0). apply rebase_miss. apply F. exact Ik.
Qed.

(* when the rename changes only the last component the parent condition is automatic *)
Corollary rename_inverse_same_parent src dst t t' :
  rename_fs src dst t = FOk t' -> free_at t dst -> parent dst = parent src ->
  rename_fs dst src t' = FOk t.
Proof.
  intros H F P. apply rename_inverse; [exact H|exact F|].
  destruct (rename_fs_ok_free _ _ _ _ H F) as (_ & _ & _ & Pd & _). rewrite <- P. exact Pd.
Qed.

(* "lookup t dst = None" alone is not enough on a tree with a key below the free name *)
Example rename_inverse_needs_free_below :
  let t := [([[97]], File 420 [1]); ([[98]; [120]], File 420 [2])] in
  exists t' t'',
    rename_fs [[97]] [[98]] t = FOk t' /\ lookup t [[98]] = None /\ NoDup (map fst t) /\
    is_dir t (parent [[97]]) = true /\
    rename_fs [[98]] [[97]] t' = FOk t'' /\
    lookup t'' [[98]; [120]] = None /\ lookup t [[98]; [120]] = Some (File 420 [2]).
Proof.
  eexists. eexists. split; [vm_compute; reflexivity|]. split; [reflexivity|]. split.
  - repeat constructor; cbn; intuition discriminate.
  - split; [reflexivity|]. split; [vm_compute; reflexivity|]. split; reflexivity.
Qed.

(* the parent condition is needed as well (a key whose parent is not in the tree) *)
Example rename_inverse_needs_parent :
  let t := [([[97]; [98]], File 420 [1])] in
  rename_fs [[97]; [98]] [[99]] t = FOk [([[99]], File 420 [1])] /\
  (forall k, In k (map fst t) -> path_prefix [[99]] k = false) /\
  rename_fs [[99]] [[97]; [98]] [([[99]], File 420 [1])] = FErr ENOENT.
Proof.
  split; [vm_compute; reflexivity|]. split; [|vm_compute; reflexivity].
  intros k [<-|[]]. reflexivity.
Qed.

(* ------------------------------------------------------------------------------------ *)
(* directory trees: every proper non-empty prefix of a key is a directory of the tree     *)
(* ------------------------------------------------------------------------------------ *)

Definition closed_dir (t : fs) : Prop :=
  forall a b, In (a ++ b) (map fst t) -> a <> [] -> b <> [] -> exists m, lookup t a = Some (Dir m).

Lemma closed_dir_free_at t p : closed_dir t -> lookup t p = None -> p <> [] -> free_at t p.
Proof.
  intros C L N k I. destruct (path_prefix p k) eqn:E; [|reflexivity]. exfalso.
  apply path_prefix_spec in E as [b ->]. destruct b as [|b0 b].
  - rewrite app_nil_r in I. exact (proj1 (lookup_none t p) L p I eq_refl).
  - destruct (C p (b0 :: b) I N) as [m Hm]; [discriminate|congruence].
Qed.

Lemma closed_dir_parent t p n : closed_dir t -> lookup t p = Some n -> p <> [] -> is_dir t (parent p) = true.
Proof.
  intros C L N. destruct (parent_prefix p N) as [c E]. unfold is_dir.
  destruct (parent p) as [|a0 a'] eqn:Ep; [reflexivity|]. rewrite <- Ep in *.
  destruct (C (parent p) [c]) as [m Hm].
  - rewrite <- E. eapply lookup_some_in. exact L.
  - rewrite Ep. discriminate.
  - discriminate.
  - rewrite Hm. reflexivity.
Qed.

(* a rename onto a free name keeps the tree a directory tree *)
Lemma rename_closed_dir src dst t t' :
  rename_fs src dst t = FOk t' -> free_at t dst -> closed_dir t -> closed_dir t'.
Proof.
  intros H F C.
  destruct (rename_fs_ok_free _ _ _ _ H F) as (Ns & Nd & Ls & Pd & Psd & Pds & ->).
  intros a b I Na Nb. rewrite map_map in I. cbn [fst] in I.
  apply in_map_iff in I as [[k n0] [Ek I]]. cbn [fst] in Ek.
  assert (Ik : In k (map fst t)) by (apply in_map_iff; exists (k, n0); auto).
  destruct (path_prefix src k) eqn:P0.
  - apply path_prefix_spec in P0 as [r ->]. rewrite rebase_hit in Ek.
    apply app_eq_app in Ek as [u [[E1 E2]|[E1 E2]]].
    + (* a is a prefix of dst *)
      destruct u as [|u0 u].
      * rewrite app_nil_r in E1. subst a. cbn [app] in E2. subst b.
        destruct r as [|r0 r]; [contradiction|].
        destruct (C src (r0 :: r) Ik Ns) as [m Hm]; [discriminate|].
        exists m. rewrite <- (rebase_self src dst) at 1.
        rewrite lookup_rebase_free; [exact Hm|exact F|exact Pds].
      * (* proper prefix of dst: at or above the destination's parent, which is a directory *)
        destruct (parent_prefix dst Nd) as [c Ec].
        assert (Pa : exists v, parent dst = a ++ v).
        { destruct (snoc_cases (u0 :: u)) as [Z|[u' [x Eu]]]; [discriminate|].
          rewrite Eu, app_assoc in E1. rewrite E1 in Ec at 1.
          apply app_inj_tail in Ec as [Ec _]. exists u'. symmetry. exact Ec. }
        destruct Pa as [v Ev].
        assert (Dp : exists m, lookup t a = Some (Dir m)).
        { unfold is_dir in Pd. destruct (parent dst) as [|p0 p'] eqn:Ep.
          - destruct a; [contradiction|discriminate].
          - rewrite <- Ep in *. destruct (lookup t (parent dst)) as [[| m|]|] eqn:Lp; try discriminate.
            destruct v as [|v0 v].
            + rewrite app_nil_r in Ev. subst a. eauto.
            + apply (C a (v0 :: v)); [|exact Na|discriminate]. rewrite <- Ev. eapply lookup_some_in. exact Lp. }
        destruct Dp as [m Hm]. exists m.
        assert (X1 : path_prefix src a = false).
        { destruct (path_prefix src a) eqn:X; [|reflexivity].
          rewrite E1, (path_prefix_app_r _ _ _ X) in Psd. discriminate. }
        rewrite <- (rebase_miss src dst _ X1).
        rewrite lookup_rebase_free; [exact Hm|exact F|]. apply F. eapply lookup_some_in. exact Hm.
    + (* a = dst ++ u : the image of the directory src ++ u *)
      subst a r. destruct (C (src ++ u) b) as [m Hm]; auto.
      { rewrite <- app_assoc. exact Ik. }
      { destruct src; [contradiction|discriminate]. }
      exists m. rewrite <- (rebase_hit src dst u).
      rewrite lookup_rebase_free; [exact Hm|exact F|]. apply F. eapply lookup_some_in. exact Hm.
  - rewrite (rebase_miss _ _ _ P0) in Ek. subst k.
    destruct (C a b Ik Na Nb) as [m Hm]. exists m.
    assert (X1 : path_prefix src a = false).
    { destruct (path_prefix src a) eqn:X; [|reflexivity].
      rewrite (path_prefix_app_r _ _ _ X) in P0. discriminate. }
    rewrite <- (rebase_miss src dst _ X1).
    rewrite lookup_rebase_free; [exact Hm|exact F|]. apply F. eapply lookup_some_in. exact Hm.
Qed.

(* the core lemma on a directory tree, in the form of the task: the destination is absent *)
Theorem rename_inverse_closed src dst t t' :
  rename_fs src dst t = FOk t' -> lookup t dst = None -> closed_dir t ->
  rename_fs dst src t' = FOk t /\ closed_dir t'.
Proof.
  intros H L C.
  assert (Ns : src <> []) by (intros ->; cbn in H; discriminate).
  assert (Nd : dst <> []) by (intros ->; destruct src; cbn in H; discriminate).
  pose proof (closed_dir_free_at _ _ C L Nd) as F.
  destruct (rename_fs_ok_free _ _ _ _ H F) as (_ & _ & Ls & _).
  destruct (lookup t src) as [n|] eqn:Ls'; [|contradiction].
  split; [|eapply rename_closed_dir; eauto].
  apply rename_inverse; [exact H|exact F|]. eapply closed_dir_parent; eauto.
Qed.

(* ------------------------------------------------------------------------------------ *)
(* lists of renames and rollback                                                         *)
(* ------------------------------------------------------------------------------------ *)

Fixpoint run_renames (exe : list (path * path)) (t : fs) : option fs :=
  match exe with
  | [] => Some t
  | (a, b) :: rest => match rename_fs a b t with FOk t' => run_renames rest t' | FErr _ => None end
  end.

(* as long as the steps succeed: every destination is free (with everything below it) and every
   source's parent is a directory, at the time of the step *)
Fixpoint steps_free (exe : list (path * path)) (t : fs) : Prop :=
  match exe with
  | [] => True
  | (a, b) :: rest =>
      match rename_fs a b t with
      | FOk t' => free_at t b /\ is_dir t (parent a) = true /\ steps_free rest t'
      | FErr _ => True
      end
  end.

(* the form of the task: every destination is absent at the time of the step *)
Fixpoint steps_dst_absent (exe : list (path * path)) (t : fs) : Prop :=
  match exe with
  | [] => True
  | (a, b) :: rest =>
      match rename_fs a b t with
      | FOk t' => lookup t b = None /\ steps_dst_absent rest t'
      | FErr _ => True
      end
  end.

Lemma steps_free_prefix exe rest t : steps_free (exe ++ rest) t -> steps_free exe t.
Proof.
  revert t; induction exe as [|[a b] exe IH]; intros t H; cbn [app steps_free] in *; [exact I|].
  destruct (rename_fs a b t); [|exact I].
  destruct H as (F & P & H). split; [exact F|]. split; [exact P|]. apply IH; exact H.
Qed.

Lemma steps_dst_absent_prefix exe rest t : steps_dst_absent (exe ++ rest) t -> steps_dst_absent exe t.
Proof.
  revert t; induction exe as [|[a b] exe IH]; intros t H; cbn [app steps_dst_absent] in *; [exact I|].
  destruct (rename_fs a b t); [|exact I].
  destruct H as (F & H). split; [exact F|]. apply IH; exact H.
Qed.

(* on a directory tree "absent" is enough *)
Lemma closed_steps_free exe : forall t,
  closed_dir t -> steps_dst_absent exe t -> steps_free exe t.
Proof.
  induction exe as [|[a b] exe IH]; intros t C H; cbn [steps_free steps_dst_absent] in *; [exact I|].
  destruct (rename_fs a b t) as [t'|e] eqn:R; [|exact I]. destruct H as [L H].
  assert (Na : a <> []) by (intros ->; cbn in R; discriminate).
  assert (Nb : b <> []) by (intros ->; destruct a; cbn in R; discriminate).
  pose proof (closed_dir_free_at _ _ C L Nb) as F.
  destruct (rename_fs_ok_free _ _ _ _ R F) as (_ & _ & Ls & _).
  destruct (lookup t a) as [n|] eqn:La; [|contradiction].
  split; [exact F|]. split; [eapply closed_dir_parent; eauto|].
  apply IH; [eapply rename_closed_dir; eauto|exact H].
Qed.

Lemma rollback_app inj l1 l2 s : rollback inj (l1 ++ l2) s = rollback inj l2 (rollback inj l1 s).
Proof.
  revert s; induction l1 as [|[a b] l1 IH]; intro s; cbn [app rollback]; [reflexivity|].
  destruct (do_op inj (MRename b a) s) as [s'|[f s']]; apply IH.
Qed.

Lemma do_op_n inj o s :
  match do_op inj o s with inl s' => s_n s' = S (s_n s) | inr (_, s') => s_n s' = S (s_n s) end.
Proof. unfold do_op. destruct (inj (s_n s)); [reflexivity|]. destruct (exec_mop o (s_fs s)); reflexivity. Qed.

Lemma rollback_n inj l s : s_n (rollback inj l s) = (s_n s + length l)%nat.
Proof.
  revert s; induction l as [|[a b] l IH]; intro s; cbn [rollback length]; [lia|].
  pose proof (do_op_n inj (MRename b a) s) as D.
  destruct (do_op inj (MRename b a) s) as [s'|[f s']]; rewrite IH, D; lia.
Qed.

(* ROLLBACK, list version: the executed renames are undone one by one, in reverse order, and the
   tree at the start of the stage is restored exactly *)
Theorem rollback_restores inj : forall exe t1 t2 s,
  run_renames exe t1 = Some t2 -> steps_free exe t1 ->
  s_fs s = t2 -> (forall n, (s_n s <= n)%nat -> inj n = false) ->
  s_fs (rollback inj (rev exe) s) = t1.
Proof.
  induction exe as [|[a b] exe IH]; intros t1 t2 s R F Es Hinj; cbn [run_renames steps_free rev] in *.
  - cbn [rollback]. congruence.
  - destruct (rename_fs a b t1) as [t'|e] eqn:Ren; [|discriminate]. destruct F as (Fb & Pa & F).
    rewrite rollback_app. pose proof (IH t' t2 s R F Es Hinj) as E1.
    cbn [rollback]. unfold do_op. rewrite Hinj by (rewrite rollback_n; lia).
    cbn [exec_mop]. rewrite E1, (rename_inverse _ _ _ _ Ren Fb Pa). reflexivity.
Qed.

Corollary rollback_restores_closed inj exe t1 t2 s :
  run_renames exe t1 = Some t2 -> closed_dir t1 -> steps_dst_absent exe t1 ->
  s_fs s = t2 -> (forall n, (s_n s <= n)%nat -> inj n = false) ->
  s_fs (rollback inj (rev exe) s) = t1.
Proof. intros R C A. apply rollback_restores; [exact R|apply closed_steps_free; assumption]. Qed.

(* ------------------------------------------------------------------------------------ *)
(* the rename stage                                                                      *)
(* ------------------------------------------------------------------------------------ *)

(* a failed rename stage without case-only steps (no probe operations): [executed] extends the
   initial list by a prefix of the planned steps, all of which succeeded one after another; the
   failing operation left the tree as it was; bookkeeping counts *)
Lemma rename_stage_fail_exec inj rs : forall perf0 exe0 s f s2 perf exe,
  (forall a b, In (a, b) (stage_steps rs perf0) -> case_only a b = false) ->
  rename_stage inj rs perf0 exe0 s = inr (f, s2, perf, exe) ->
  exists exe1 rest,
    exe = exe0 ++ exe1 /\ stage_steps rs perf0 = exe1 ++ rest /\
    run_renames exe1 (s_fs s) = Some (s_fs s2) /\
    s_n s2 = S (s_n s + length exe1) /\ length perf = (length perf0 + length exe1)%nat.
Proof.
  induction rs as [|r rs IH]; intros perf0 exe0 s f s2 perf exe NC H; cbn [rename_stage] in H; [discriminate|].
  cbn zeta in H. cbn [stage_steps] in NC. cbn zeta in NC.
  set (from := adjust perf0 (ar_path r)) in *. set (to := adjust perf0 (ar_new r)) in *.
  assert (CO : case_only from to = false) by (apply NC; left; reflexivity).
  unfold rename_ops in H. rewrite CO in H. cbn [app do_ops] in H.
  unfold do_op in H. destruct (inj (s_n s)) eqn:Ij.
  - inversion H; subst f s2 perf exe. exists [], (stage_steps (r :: rs) perf0).
    rewrite app_nil_r. cbn [app run_renames s_fs s_n length]. repeat split; auto; lia.
  - cbn [exec_mop] in H. destruct (rename_fs from to (s_fs s)) as [t'|e] eqn:Ren.
    + apply IH in H; [|intros a b I; apply NC; right; exact I].
      destruct H as (exe1 & rest & E1 & E2 & E3 & E4 & E5). cbn [s_fs s_n] in *.
      exists ((from, to) :: exe1), rest. cbn [stage_steps]. cbn zeta. fold from to.
      rewrite E1, <- app_assoc. cbn [app run_renames length]. rewrite Ren, E2.
      repeat split; auto; [lia|]. rewrite E5, app_length. cbn. lia.
    + inversion H; subst f s2 perf exe. exists [], (stage_steps (r :: rs) perf0).
      rewrite app_nil_r. cbn [app run_renames s_fs s_n length]. repeat split; auto; lia.
Qed.

(* MAIN THEOREM of part C.  A fault (injected or real) at any operation of the rename stage: after
   [rollback] the tree is exactly the tree at the start of the rename stage, provided
   - no step is a case-only rename (those issue create/unlink probes, see below),
   - every executed step found its destination free and its source's parent a directory,
   - no further fault is injected during rollback. *)
Theorem failed_rename_stage_rolled_back inj rs s1 f s2 perf exe :
  rename_stage inj rs [] [] s1 = inr (f, s2, perf, exe) ->
  (forall a b, In (a, b) (stage_steps rs []) -> case_only a b = false) ->
  steps_free exe (s_fs s1) ->
  (forall n, (s_n s2 <= n)%nat -> inj n = false) ->
  s_fs (rollback inj (rev exe) s2) = s_fs s1.
Proof.
  intros H NC F Hinj.
  destruct (rename_stage_fail_exec inj rs [] [] s1 f s2 perf exe NC H) as (exe1 & rest & E1 & _ & R & _).
  cbn [app] in E1. subst exe1. eapply rollback_restores; eauto.
Qed.

(* the same on a directory tree, destinations merely absent *)
Corollary failed_rename_stage_rolled_back_closed inj rs s1 f s2 perf exe :
  rename_stage inj rs [] [] s1 = inr (f, s2, perf, exe) ->
  (forall a b, In (a, b) (stage_steps rs []) -> case_only a b = false) ->
  closed_dir (s_fs s1) -> steps_dst_absent exe (s_fs s1) ->
  (forall n, (s_n s2 <= n)%nat -> inj n = false) ->
  s_fs (rollback inj (rev exe) s2) = s_fs s1 /\
  forall q, lookup (s_fs (rollback inj (rev exe) s2)) q = lookup (s_fs s1) q.
Proof.
  intros H NC C A Hinj.
  assert (E : s_fs (rollback inj (rev exe) s2) = s_fs s1).
  { eapply failed_rename_stage_rolled_back; eauto. apply closed_steps_free; assumption. }
  split; [exact E|]. intro q. rewrite E. reflexivity.
Qed.

(* ------------------------------------------------------------------------------------ *)
(* at the level of apply_core                                                            *)
(* ------------------------------------------------------------------------------------ *)

(* the content stage succeeded and produced [s1]; the rename stage failed: the tree that apply
   leaves behind is exactly the tree at the start of the rename stage.  The last hypothesis says
   that no fault is injected after the failing operation (its index is the number of operations of
   the content stage plus the number of renames performed). *)
Theorem apply_rename_fault_rolled_back inj p t s1 :
  first_conflict t (ap_renames p) = None ->
  first_unreadable t (edits_by_file (ap_hunks p)) = None ->
  content_stage inj (edits_by_file (ap_hunks p)) {| s_fs := t; s_n := 0; s_trace := [] |} = inl s1 ->
  r_ok (apply_core inj p t) = false ->
  (forall a b, In (a, b) (stage_steps (sort_renames (ap_renames p)) []) -> case_only a b = false) ->
  steps_free (stage_steps (sort_renames (ap_renames p)) []) (s_fs s1) ->
  (forall n, (s_n s1 + length (r_performed (apply_core inj p t)) < n)%nat -> inj n = false) ->
  r_fs (apply_core inj p t) = s_fs s1.
Proof.
  intros FC FU CS. unfold apply_core. rewrite FC, FU, CS.
  destruct (rename_stage inj (sort_renames (ap_renames p)) [] [] s1) as [[[s2 perf] exe]|[[[f s2] perf] exe]] eqn:RS;
    cbn [r_ok r_fs r_performed]; [discriminate|].
  intros _ NC F Hinj.
  destruct (rename_stage_fail_exec inj _ [] [] s1 f s2 perf exe NC RS) as (exe1 & rest & E1 & E2 & R & En & El).
  cbn [app length] in E1, El. subst exe1.
  eapply failed_rename_stage_rolled_back; [exact RS|exact NC| |].
  - eapply steps_free_prefix. rewrite <- E2. exact F.
  - intros n Hn. apply Hinj. lia.
Qed.

(* "a failed apply changes nothing" for a plan that only renames *)
Corollary rename_only_failed_apply_changes_nothing inj p t :
  ap_hunks p = [] ->
  r_ok (apply_core inj p t) = false ->
  (forall a b, In (a, b) (stage_steps (sort_renames (ap_renames p)) []) -> case_only a b = false) ->
  steps_free (stage_steps (sort_renames (ap_renames p)) []) t ->
  (forall n, (length (r_performed (apply_core inj p t)) < n)%nat -> inj n = false) ->
  r_fs (apply_core inj p t) = t.
Proof.
  intros Hh Hok NC F Hinj.
  destruct (first_conflict t (ap_renames p)) as [r|] eqn:FC.
  - unfold apply_core. rewrite FC. reflexivity.
  - apply (apply_rename_fault_rolled_back inj p t {| s_fs := t; s_n := 0; s_trace := [] |}); auto.
    + rewrite Hh. reflexivity.
    + rewrite Hh. reflexivity.
Qed.

Corollary rename_only_failed_apply_changes_nothing_closed inj p t :
  ap_hunks p = [] ->
  r_ok (apply_core inj p t) = false ->
  (forall a b, In (a, b) (stage_steps (sort_renames (ap_renames p)) []) -> case_only a b = false) ->
  closed_dir t -> steps_dst_absent (stage_steps (sort_renames (ap_renames p)) []) t ->
  (forall n, (length (r_performed (apply_core inj p t)) < n)%nat -> inj n = false) ->
  r_fs (apply_core inj p t) = t.
Proof.
  intros Hh Hok NC C A Hinj. apply rename_only_failed_apply_changes_nothing; auto.
  apply closed_steps_free; assumption.
Qed.

(* ------------------------------------------------------------------------------------ *)
(* discharging the step conditions from the conditions of the success theorem             *)
(* (RenameP2.rename_stage_fs): shape, distinct sources, distinct destinations, fs_ok       *)
(* ------------------------------------------------------------------------------------ *)

Section PlanSteps.
  Variables (L : list aren) (t : fs).
  Hypothesis O : ok L.
  Hypothesis G1 : forall k, In k (map fst t) -> avoids L k.
  Hypothesis G2 : forall r, In r L -> lookup t (ar_path r) <> None.
  Hypothesis G3 : forall r, In r L -> lookup t (ar_new r) = None.
  Hypothesis G4 : forall r, In r L -> forall a b, ar_path r = a ++ b -> a <> [] -> b <> [] ->
                                   exists m, lookup t a = Some (Dir m).

  Lemma dst_absent_step L1 r :
    ok (L1 ++ [r]) -> (forall k, In k (map fst t) -> avoids (L1 ++ [r]) k) ->
    lookup t (ar_path r) <> None -> lookup t (ar_new r) = None ->
    lookup (mapF L1 t) (final_path L1 (ar_new r)) = None.
  Proof.
    intros O1 Hkeys Hsrc Hdst.
    destruct (ok_snoc_facts _ _ O1) as [Hs [Hext [Hd Hav]]].
    destruct (adjusted_ends _ _ O1) as [s0 [c [n [E1 [E2 [Fs Fd]]]]]].
    pose proof (ok_base _ (ok_app_l _ _ O1)) as [S1 _ I1 _].
    pose proof (ok_base _ O1) as [_ _ I2 _].
    assert (K1 : forall k, In k (map fst t) -> avoids L1 k).
    { intros k H. eapply avoids_snoc_l. apply Hkeys. exact H. }
    assert (As0 : avoids L1 s0).
    { eapply avoids_app_l. rewrite <- E1. exact Hav. }
    rewrite Fd. apply (lookup_mapF_free L1 t s0 n S1 I1 K1 As0).
    - rewrite <- E2. exact Hdst.
    - intros r1 Ir1 D1.
      assert (X : ar_path r1 = ar_path r).
      { apply I2; [apply in_or_app; left; exact Ir1 | apply in_or_app; right; left; reflexivity | congruence]. }
      pose proof (Hext r1 Ir1) as Y. rewrite X, path_prefix_refl in Y. discriminate.
  Qed.

  Lemma stage_steps_absent_gen : forall L2 L1,
    L1 ++ L2 = L ->
    steps_dst_absent (stage_steps L2 (stage_perf L1 [])) (mapF L1 t) /\
    forall a b, In (a, b) (stage_steps L2 (stage_perf L1 [])) ->
                exists r, In r L /\ case_only a b = case_only (ar_path r) (ar_new r).
  Proof.
    induction L2 as [|r L2 IH]; intros L1 E.
    - cbn [stage_steps steps_dst_absent]. split; [exact I|intros a b []].
    - assert (E' : (L1 ++ [r]) ++ L2 = L) by (rewrite <- app_assoc; exact E).
      assert (O1 : ok (L1 ++ [r])) by (apply (ok_app_l _ L2); rewrite E'; exact O).
      assert (OL1 : ok L1) by (apply (ok_app_l _ [r]); exact O1).
      assert (Ir : In r L) by (rewrite <- E; apply in_or_app; right; left; reflexivity).
      assert (Sub : forall x, In x (L1 ++ [r]) -> In x L).
      { intros x H. rewrite <- E'. apply in_or_app. left. exact H. }
      cbn [stage_steps]. cbn zeta.
      destruct (stage_invariant _ OL1) as [IA _]. rewrite !IA.
      pose proof (fs_step L1 r t O1
                    (fun k H => avoids_sub _ _ _ Sub (G1 k H)) (G2 r Ir) (G3 r Ir) (G4 r Ir)) as F.
      pose proof (dst_absent_step L1 r O1
                    (fun k H => avoids_sub _ _ _ Sub (G1 k H)) (G2 r Ir) (G3 r Ir)) as A.
      rewrite <- (stage_perf_snoc L1 r OL1).
      destruct (IH (L1 ++ [r]) E') as [IH1 IH2]. split.
      + cbn [steps_dst_absent]. rewrite F. split; [exact A|exact IH1].
      + intros a b [Eab|Iab]; [|exact (IH2 a b Iab)].
        inversion Eab; subst a b. exists r. split; [exact Ir|].
        destruct (adjusted_ends _ _ O1) as [s0 [c [n [E1 [E2 [Fs Fd]]]]]].
        rewrite Fs, Fd, (case_only_snoc _ s0), <- E1, <- E2. reflexivity.
  Qed.
End PlanSteps.

Lemma mapF_nil t : mapF [] t = t.
Proof.
  unfold mapF. rewrite <- (map_id t) at 2. apply map_ext. intros [k n]. cbn [fst snd].
  rewrite final_path_no_renames. reflexivity.
Qed.

(* PLAN-LEVEL THEOREM.  Under exactly the conditions under which the fault-free rename stage is
   proved to succeed (RenameP2.rename_stage_fs), for a plan that only renames and has no case-only
   rename: whatever operation fails (injected fault or not), if no further fault is injected
   afterwards, the failed apply leaves the tree exactly as it found it. *)
Theorem failed_rename_plan_changes_nothing inj p t :
  ap_hunks p = [] ->
  (forall r, In r (ap_renames p) -> shape r) ->
  NoDup (map ar_path (ap_renames p)) ->
  (forall r1 r2, In r1 (ap_renames p) -> In r2 (ap_renames p) -> ar_new r1 = ar_new r2 -> ar_path r1 = ar_path r2) ->
  fs_ok t (ap_renames p) ->
  (forall r, In r (ap_renames p) -> case_only (ar_path r) (ar_new r) = false) ->
  r_ok (apply_core inj p t) = false ->
  (forall n, (length (r_performed (apply_core inj p t)) < n)%nat -> inj n = false) ->
  r_fs (apply_core inj p t) = t.
Proof.
  intros Hh Hshape Hnodup Hinj Hfs Hcase Hok Hnf.
  set (rs := ap_renames p) in *.
  pose proof (tree_wf_renames rs t Hshape Hnodup Hinj Hfs) as W.
  pose proof (wf_sorted_ok rs W) as O.
  assert (B : forall x, In x (sort_renames rs) -> In x rs).
  { intros x H. eapply Permutation_in; [apply sort_renames_perm|exact H]. }
  assert (K : forall k, In k (map fst t) -> avoids rs k) by (apply key_avoids; assumption).
  destruct (stage_steps_absent_gen (sort_renames rs) t O) with (L2 := sort_renames rs) (L1 := @nil aren)
    as [SA CO].
  - intros k H. eapply avoids_sub; [exact B|]. apply K. exact H.
  - intros r I. destruct (fo_src _ _ Hfs r (B r I)) as [n [Hn _]]. congruence.
  - intros r I. apply (fo_dst _ _ Hfs). apply B. exact I.
  - intros r I a b E Na Nb. destruct (fo_src _ _ Hfs r (B r I)) as [n [Hn _]].
    apply (fo_chain _ _ Hfs (ar_path r) a b); auto. eapply lookup_some_in. exact Hn.
  - reflexivity.
  - cbn [stage_perf] in SA, CO. rewrite mapF_nil in SA.
    apply rename_only_failed_apply_changes_nothing_closed; auto.
    + intros a b I. destruct (CO a b I) as [r [Ir ->]]. apply Hcase, B, Ir.
    + intros a b I Na Nb. apply (fo_chain _ _ Hfs (a ++ b) a b I eq_refl Na Nb).
Qed.

(* ------------------------------------------------------------------------------------ *)
(* examples                                                                              *)
(* ------------------------------------------------------------------------------------ *)
Module RollbackExamples.
  Definition mk p n d := {| ar_path := p; ar_new := n; ar_dir := d |}.
  Definition a : name := [97]. Definition b : name := [98]. Definition c : name := [99].
  Definition d : name := [100]. Definition x : name := [120]. Definition A : name := [65].

  (* a (dir) -> c, a/x (file) -> a/d, b (file) -> d *)
  Definition t0 : fs := [([a], Dir 493); ([a; x], File 420 [1]); ([b], File 420 [2])].
  Definition p0 : aplan :=
    {| ap_id := []; ap_hunks := [];
       ap_renames := [mk [a; x] [a; d] false; mk [b] [d] false; mk [a] [c] true] |}.

  Lemma t0_closed : closed_dir t0.
  Proof.
    intros p q I Np Nq. cbn in I.
    destruct I as [E|[E|[E|[]]]]; destruct p as [|p0 [|p1 [|p2 p]]]; try contradiction;
      cbn in E; inversion E; subst; try contradiction; eexists; vm_compute; reflexivity.
  Qed.

  (* the theorem applies for a fault at any of the three renames ... *)
  Example rollback_witness k : (k <= 2)%nat -> r_fs (apply_core (one_fault k) p0 t0) = t0.
  Proof.
    intro Hk. apply rename_only_failed_apply_changes_nothing_closed.
    - reflexivity.
    - destruct k as [|[|[|k]]]; [vm_compute; reflexivity..|lia].
    - intros p q I. vm_compute in I. repeat destruct I as [I|I]; try contradiction;
        inversion I; subst; vm_compute; reflexivity.
    - exact t0_closed.
    - vm_compute. repeat split.
    - intros n Hn. unfold one_fault. apply Nat.eqb_neq.
      destruct k as [|[|[|k]]]; [vm_compute in Hn; lia..|lia].
  Qed.
  (* ... and the run really fails and really moved things before the fault *)
  Example rollback_witness_values :
    r_ok (apply_core (one_fault 2) p0 t0) = false /\
    r_trace (apply_core (one_fault 2) p0 t0) =
      [MRename [a] [c]; MRename [c; x] [c; d]; MRename [b] [d];
       MRename [c; d] [c; x]; MRename [c] [a]] /\
    r_fs (apply_core (one_fault 2) p0 t0) = t0.
  Proof. vm_compute. repeat split. Qed.

  (* the plan-level theorem applies as well (its hypotheses are satisfiable) *)
  Ltac each_in H := cbn in H; repeat (destruct H as [<- | H]); try contradiction.
  Lemma p0_fs_ok : fs_ok t0 (ap_renames p0).
  Proof.
    split.
    - intros r I. each_in I; eexists; split; vm_compute; reflexivity.
    - intros k p q I E Np Nq. each_in I;
        destruct p as [|p0 [|p1 [|p2 p]]]; try contradiction; cbn in E;
        inversion E; subst; try contradiction; eexists; vm_compute; reflexivity.
    - intros r I. each_in I; vm_compute; reflexivity.
  Qed.
  Example plan_level_witness k : (k <= 2)%nat -> r_fs (apply_core (one_fault k) p0 t0) = t0.
  Proof.
    intro Hk. apply failed_rename_plan_changes_nothing.
    - reflexivity.
    - intros r I. each_in I; (split; [discriminate|split; reflexivity]).
    - repeat constructor; cbn; intuition discriminate.
    - intros r1 r2 I1 I2. each_in I1; each_in I2; cbn; intro H; try reflexivity; discriminate.
    - exact p0_fs_ok.
    - intros r I. each_in I; vm_compute; reflexivity.
    - destruct k as [|[|[|k]]]; [vm_compute; reflexivity..|lia].
    - intros n Hn. unfold one_fault. apply Nat.eqb_neq.
      destruct k as [|[|[|k]]]; [vm_compute in Hn; lia..|lia].
  Qed.

  (* a second fault during rollback defeats it *)
  Example second_fault_defeats_rollback :
    let inj := fun n => Nat.eqb n 2 || Nat.eqb n 3 in
    r_ok (apply_core inj p0 t0) = false /\
    lookup (r_fs (apply_core inj p0 t0)) [a; x] = None /\
    lookup (r_fs (apply_core inj p0 t0)) [a; d] = Some (File 420 [1]).
  Proof. vm_compute. repeat split. Qed.

  (* case-only renames probe with create+unlink: a fault at the unlink leaves the probe file
     behind and rollback (which only knows renames) does not remove it *)
  Definition t1 : fs := [([a], File 420 [1])].
  Definition p1 : aplan := {| ap_id := []; ap_hunks := []; ap_renames := [mk [a] [A] false] |}.
  Example case_only_probe_left_behind :
    r_ok (apply_core (one_fault 1) p1 t1) = false /\
    r_trace (apply_core (one_fault 1) p1 t1) = [MCreate [probe_name]; MUnlink [probe_name]] /\
    lookup t1 [probe_name] = None /\
    lookup (r_fs (apply_core (one_fault 1) p1 t1)) [probe_name] = Some (File 420 []).
  Proof. vm_compute. repeat split. Qed.
End RollbackExamples.

(* ------------------------------------------------------------------------------------ *)
(* closed_dir is the stronger of the two closedness notions                               *)
(* ------------------------------------------------------------------------------------ *)
Lemma closed_dir_closed t : ~ In [] (map fst t) -> closed_dir t -> closed t.
Proof.
  intros N0 C a b I Na. destruct b as [|b0 b].
  - rewrite app_nil_r in I. intro L. exact (proj1 (lookup_none t a) L a I eq_refl).
  - destruct (C a (b0 :: b) I Na) as [m Hm]; [discriminate|congruence].
Qed.

(* ==================================================================================== *)
(* Assumptions                                                                           *)
(* ==================================================================================== *)
Print Assumptions ordered_edits_never_panic.
Print Assumptions ordered_edits_never_panic_gen.
Print Assumptions ordered_edits_mismatch_or_spec.
Print Assumptions content_ops_one_file.
Print Assumptions content_ops_one_file_closed.
Print Assumptions edits_by_file_nodup.
Print Assumptions crash_content_atomic_gen.
Print Assumptions crash_unplanned_untouched.
Print Assumptions crash_content_atomic.
Print Assumptions crash_content_atomic_closed.
Print Assumptions rename_inverse.
Print Assumptions rename_inverse_closed.
Print Assumptions rollback_restores.
Print Assumptions rollback_restores_closed.
Print Assumptions failed_rename_stage_rolled_back.
Print Assumptions failed_rename_stage_rolled_back_closed.
Print Assumptions apply_rename_fault_rolled_back.
Print Assumptions rename_only_failed_apply_changes_nothing.
Print Assumptions failed_rename_plan_changes_nothing.
