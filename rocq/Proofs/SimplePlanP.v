(* Proofs/SimplePlanP.v — the planner behind `renamify replace --no-regex` (Model/SimplePlan.v: create_simple_plan /
   process_file_content_lossy, literal mode) produces plans that are consistent with the text it scanned, for EVERY input.
   Stdlib + lia only. *)
From RN Require Import Base.Bytes Model.Edits Model.Matcher Model.Hunks Model.SimplePlan Model.ApplyModel.
From RN Require Import Proofs.EditsP Proofs.HunksP.
Open Scope nat_scope.

(* ------------------------------------------------------------------------------------------ *)
(* small list facts                                                                           *)
(* ------------------------------------------------------------------------------------------ *)

Lemma count_byte_firstn_zero b s n : count_byte b s = 0 -> count_byte b (firstn n s) = 0.
Proof.
  intro H. rewrite <- (firstn_skipn n s), count_byte_app in H. lia.
Qed.

Lemma count_byte_skipn_zero b s n : count_byte b s = 0 -> count_byte b (skipn n s) = 0.
Proof.
  intro H. rewrite <- (firstn_skipn n s), count_byte_app in H. lia.
Qed.

Lemma firstn_skipn_prefix {A} (l : list A) L a n :
  a + n <= L -> firstn n (skipn a (firstn L l)) = firstn n (skipn a l).
Proof.
  intro H. rewrite skipn_firstn_comm, firstn_firstn. f_equal. lia.
Qed.

Lemma firstn_skipn_app_l {A} (l post : list A) a n :
  a + n <= length l -> firstn n (skipn a (l ++ post)) = firstn n (skipn a l).
Proof.
  intro H. rewrite skipn_app, firstn_app, skipn_length.
  replace (n - (length l - a)) with 0 by lia. rewrite firstn_O, app_nil_r. reflexivity.
Qed.

Lemma skipn_app_add {A} (pre rest : list A) a : skipn (length pre + a) (pre ++ rest) = skipn a rest.
Proof.
  rewrite skipn_app. rewrite skipn_all2 by lia. cbn [app]. f_equal. lia.
Qed.

Lemma firstn_app_add {A} (pre rest : list A) a : firstn (length pre + a) (pre ++ rest) = pre ++ firstn a rest.
Proof.
  rewrite firstn_app. rewrite firstn_all2 by lia. f_equal. f_equal. lia.
Qed.

Lemma occurrence_split (t p : bytes) a :
  a + length p <= length t -> firstn (length p) (skipn a t) = p ->
  t = firstn a t ++ p ++ skipn (a + length p) t.
Proof.
  intros Hle H. rewrite <- (firstn_skipn a t) at 1. f_equal.
  rewrite <- (firstn_skipn (length p) (skipn a t)) at 1. rewrite H. f_equal.
  rewrite skipn_skipn. f_equal. lia.
Qed.

(* ------------------------------------------------------------------------------------------ *)
(* S1: str::find and the literal loop on one line                                             *)
(* ------------------------------------------------------------------------------------------ *)

Lemma find_sub_some p : forall s i, find_sub p s = Some i ->
  is_prefix p (skipn i s) = true /\ i + length p <= length s /\
  (forall j, j < i -> is_prefix p (skipn j s) = false).
Proof.
  induction s as [|x s IH]; intros i H; cbn [find_sub] in H.
  - destruct (is_prefix p []) eqn:E; [|discriminate]. inversion H; subst i.
    split; [exact E|]. split; [apply is_prefix_length in E; cbn in *; lia|]. intros j Hj. lia.
  - destruct (is_prefix p (x :: s)) eqn:E.
    + inversion H; subst i. split; [exact E|]. split; [apply is_prefix_length in E; cbn in *; lia|].
      intros j Hj. lia.
    + destruct (find_sub p s) as [k|] eqn:Ek; [|discriminate]. cbn in H. inversion H; subst i.
      destruct (IH k eq_refl) as (H1 & H2 & H3). split; [exact H1|]. split; [cbn [length]; lia|].
      intros [|j] Hj; [exact E|]. cbn [skipn]. apply H3. lia.
Qed.

Lemma find_sub_none p : forall s, find_sub p s = None ->
  forall j, is_prefix p (skipn j s) = false.
Proof.
  induction s as [|x s IH]; intros H j; cbn [find_sub] in H.
  - destruct (is_prefix p []) eqn:E; [discriminate|]. rewrite skipn_nil. exact E.
  - destruct (is_prefix p (x :: s)) eqn:E; [discriminate|].
    destruct (find_sub p s) as [k|] eqn:Ek; [discriminate|].
    destruct j as [|j]; [exact E|]. cbn [skipn]. apply IH. reflexivity.
Qed.

(* the start columns: ascending, each match begins at or after the end of the previous one *)
Fixpoint starts_chain (plen : nat) (pos : nat) (l : list nat) : Prop :=
  match l with
  | [] => True
  | a :: l' => pos <= a /\ starts_chain plen (a + plen) l'
  end.

Lemma literal_starts_chain p line : forall fuel ss,
  starts_chain (length p) ss (literal_starts fuel p line ss).
Proof.
  induction fuel as [|fuel IH]; intros ss; cbn [literal_starts]; [exact I|].
  destruct (find_sub p (skipn ss line)) as [pos|]; [|exact I].
  cbn [starts_chain]. split; [lia|]. apply IH.
Qed.

(* every reported column is a real occurrence of the pattern inside the line *)
Lemma literal_starts_sound p line : forall fuel ss a,
  ss <= length line -> In a (literal_starts fuel p line ss) ->
  ss <= a /\ a + length p <= length line /\ firstn (length p) (skipn a line) = p.
Proof.
  induction fuel as [|fuel IH]; intros ss a Hss Hin; cbn [literal_starts] in Hin; [contradiction|].
  destruct (find_sub p (skipn ss line)) as [pos|] eqn:E; [|contradiction].
  apply find_sub_some in E as (E1 & E2 & _). rewrite skipn_length in E2. rewrite skipn_skipn in E1.
  destruct Hin as [<-|Hin].
  - split; [lia|]. split; [lia|]. rewrite Nat.add_comm. apply is_prefix_firstn. exact E1.
  - apply IH in Hin; [|lia]. destruct Hin as (H1 & H2 & H3). split; [lia|]. split; [lia|exact H3].
Qed.

(* ... and the loop misses nothing: an occurrence that is not reported overlaps a reported one that begins before it
   (leftmost, non-overlapping).  The fuel S (length line) of the model is enough. *)
Lemma literal_starts_complete p line : p <> [] -> forall fuel ss j,
  length line - ss < fuel -> ss <= j -> is_prefix p (skipn j line) = true ->
  exists a, In a (literal_starts fuel p line ss) /\ a <= j < a + length p.
Proof.
  intros Hp. assert (Hlp : 0 < length p) by (destruct p; [congruence|cbn; lia]).
  induction fuel as [|fuel IH]; intros ss j Hf Hss Hocc; [lia|].
  cbn [literal_starts].
  pose proof (is_prefix_length _ _ Hocc) as Hlen. rewrite skipn_length in Hlen.
  destruct (find_sub p (skipn ss line)) as [pos|] eqn:E.
  - apply find_sub_some in E as (E1 & E2 & E3). rewrite skipn_length in E2.
    assert (Hpos : pos <= j - ss).
    { destruct (Nat.le_gt_cases pos (j - ss)) as [H|H]; [exact H|].
      specialize (E3 (j - ss) H). rewrite skipn_skipn in E3.
      replace (j - ss + ss) with j in E3 by lia. congruence. }
    destruct (Nat.lt_ge_cases j (ss + pos + length p)) as [Hin|Hout].
    + exists (ss + pos). split; [left; reflexivity|lia].
    + destruct (IH (ss + pos + length p) j) as (a & Ha & Hr); [lia|lia|exact Hocc|].
      exists a. split; [right; exact Ha|exact Hr].
  - pose proof (find_sub_none _ _ E (j - ss)) as Hn. rewrite skipn_skipn in Hn.
    replace (j - ss + ss) with j in Hn by lia. congruence.
Qed.

(* ------------------------------------------------------------------------------------------ *)
(* S2: raw lines (split_inclusive), line starts, and the fused form of the loop               *)
(* ------------------------------------------------------------------------------------------ *)

(* shape of one raw line: ends with its '\n' and has no other, or is the unterminated last line *)
Definition raw_shape (raw post : bytes) : Prop :=
  (exists l, raw = l ++ [10%N] /\ count_byte 10 l = 0) \/ (count_byte 10 raw = 0 /\ post = [] /\ raw <> []).

Lemma split_incl_cons : forall s, s <> [] ->
  exists raw s', s = raw ++ s' /\ split_incl s = raw :: split_incl s' /\ raw_shape raw s'.
Proof.
  induction s as [|x s IH]; intros Hne; [congruence|]. cbn [split_incl].
  destruct (N.eqb_spec x 10) as [->|Hx].
  - exists [10%N], s. split; [reflexivity|]. split; [reflexivity|]. left. exists []. auto.
  - destruct s as [|y s'].
    + exists [x], []. split; [reflexivity|]. split; [reflexivity|]. right.
      cbn [count_byte]. apply N.eqb_neq in Hx. rewrite Hx. split; [reflexivity|]. split; [reflexivity|discriminate].
    + destruct (IH ltac:(discriminate)) as (raw & s2 & Hs & Hsp & Hshape).
      rewrite Hsp. exists (x :: raw), s2. split; [cbn; rewrite Hs; reflexivity|]. split; [reflexivity|].
      apply N.eqb_neq in Hx.
      destruct Hshape as [(l & -> & Hl)|(Hc & -> & Hr)].
      * left. exists (x :: l). split; [reflexivity|]. cbn [count_byte]. rewrite Hx, Hl. reflexivity.
      * right. cbn [count_byte]. rewrite Hx, Hc. split; [reflexivity|]. split; [reflexivity|discriminate].
Qed.

Lemma split_incl_concat : forall s, concat (split_incl s) = s.
Proof.
  induction s as [|x s IH]; [reflexivity|]. cbn [split_incl].
  destruct (x =? 10)%N; [cbn; rewrite IH; reflexivity|].
  destruct (split_incl s) as [|l ls]; cbn in *; rewrite <- IH; reflexivity.
Qed.

Section Loop.
Variable excl : bytes -> bool.
Variables p repl : bytes.

(* the loop with the two vectors (lines, line_starts) fused into one pass over the raw lines *)
Fixpoint fused (idx off : nat) (raws : list bytes) : list fhunk :=
  match raws with
  | [] => []
  | raw :: rest =>
      (if excl (strip_eol raw) then []
       else map (simple_hunk p repl idx off (strip_eol raw))
                (literal_starts (S (length (strip_eol raw))) p (strip_eol raw) 0))
      ++ fused (S idx) (off + length raw) rest
  end.

Lemma nth_line_starts : forall pre off0 raw rest,
  nth (length pre) (line_starts_from off0 (pre ++ raw :: rest)) 0 = off0 + length (concat pre).
Proof.
  induction pre as [|r pre IH]; intros off0 raw rest; cbn [app line_starts_from length nth concat].
  - lia.
  - rewrite IH, app_length. lia.
Qed.

Lemma lines_loop_fused : forall raws pre off0,
  lines_loop excl p repl (line_starts_from off0 (pre ++ raws)) (length pre) (map strip_eol raws) =
  fused (length pre) (off0 + length (concat pre)) raws.
Proof.
  induction raws as [|raw rest IH]; intros pre off0; [reflexivity|].
  cbn [map lines_loop fused]. rewrite nth_line_starts. f_equal.
  specialize (IH (pre ++ [raw]) off0). rewrite <- app_assoc in IH. cbn [app] in IH.
  rewrite app_length in IH. cbn [length] in IH. rewrite Nat.add_1_r in IH. rewrite IH.
  rewrite concat_app, app_length. cbn [concat]. rewrite app_nil_r. f_equal. lia.
Qed.

Lemma scan_text_fused t : scan_text excl p repl t = fused 0 0 (split_incl t).
Proof.
  unfold scan_text, str_lines. apply (lines_loop_fused (split_incl t) [] 0).
Qed.

End Loop.

(* ------------------------------------------------------------------------------------------ *)
(* S3: a raw line inside the text: line_start / line_of / line_at of its offsets               *)
(* ------------------------------------------------------------------------------------------ *)

Lemma index_nl_app_nl : forall l post, count_byte 10 l = 0 -> index_nl (l ++ 10%N :: post) = Some (length l).
Proof.
  induction l as [|x l IH]; intros post H; [reflexivity|].
  cbn [count_byte] in H. cbn [app index_nl length].
  destruct (x =? 10)%N; [lia|]. rewrite IH by lia. reflexivity.
Qed.

Lemma index_nl_no_nl : forall s, count_byte 10 s = 0 -> index_nl s = None.
Proof.
  induction s as [|x s IH]; intro H; [reflexivity|].
  cbn [count_byte] in H. cbn [index_nl]. destruct (x =? 10)%N; [lia|]. rewrite IH by lia. reflexivity.
Qed.

Lemma strip_eol_length_le l : length (strip_eol l) <= length l.
Proof.
  pose proof (f_equal (@length _) (strip_eol_prefix l)) as H. rewrite firstn_length in H. lia.
Qed.

(* str::lines() yields lines without '\n' *)
Lemma strip_eol_shape raw post : raw_shape raw post -> count_byte 10 (strip_eol raw) = 0.
Proof.
  intros [(l & -> & Hl)|(Hc & _ & _)].
  - rewrite strip_eol_prefix.
    assert (HL : length (strip_eol (l ++ [10%N])) <= length l).
    { rewrite strip_eol_snoc_length.
      destruct (match nth_error l (length l - 1) with Some y => (y =? 13)%N | None => false end); lia. }
    rewrite firstn_app. replace (length (strip_eol (l ++ [10%N])) - length l) with 0 by lia.
    rewrite firstn_O, app_nil_r. apply count_byte_firstn_zero. exact Hl.
  - rewrite strip_eol_no_nl; assumption.
Qed.

Definition pre_ok (pre : bytes) : Prop := pre = [] \/ exists pre', pre = pre' ++ [10%N].

Lemma line_facts t pre raw post a :
  t = pre ++ raw ++ post -> pre_ok pre -> raw_shape raw post ->
  a <= length raw -> count_byte 10 (firstn a raw) = 0 ->
  line_start t (length pre + a) = length pre /\
  line_of t (length pre + a) = S (count_byte 10 pre) /\
  line_at t (length pre + a) = raw.
Proof.
  intros Ht Hpre Hshape Ha Hc.
  assert (Hfa : firstn a (raw ++ post) = firstn a raw).
  { rewrite firstn_app. replace (a - length raw) with 0 by lia. rewrite firstn_O. apply app_nil_r. }
  assert (Hsk : skipn (length pre) t = raw ++ post).
  { subst t. rewrite <- (Nat.add_0_r (length pre)), skipn_app_add. reflexivity. }
  assert (Hls : line_start t (length pre + a) = length pre).
  { symmetry. apply line_start_unique.
    - subst t. rewrite !app_length. lia.
    - lia.
    - destruct Hpre as [->|[pre' ->]]; [left; reflexivity|right].
      subst t. rewrite app_length. cbn [length]. replace (length pre' + 1 - 1) with (length pre') by lia.
      rewrite <- !app_assoc. rewrite nth_error_app2 by lia. rewrite Nat.sub_diag. reflexivity.
    - replace (length pre + a - length pre) with a by lia. rewrite Hsk, Hfa. exact Hc. }
  split; [exact Hls|]. split.
  - unfold line_of. subst t. rewrite firstn_app_add, count_byte_app, Hfa, Hc. f_equal. lia.
  - unfold line_at. rewrite Hls, Hsk.
    destruct Hshape as [(l & -> & Hl)|(Hr & -> & _)].
    + rewrite <- app_assoc. cbn [app]. rewrite index_nl_app_nl by exact Hl.
      rewrite firstn_app. rewrite firstn_all2 by lia.
      replace (S (length l) - length l) with 1 by lia. reflexivity.
    + rewrite app_nil_r. rewrite index_nl_no_nl by exact Hr. reflexivity.
Qed.

Section Sound.
Variable excl : bytes -> bool.
Variables p repl : bytes.

(* the hunk the loop builds IS the hunk Hunks.mk_hunk (the positional part shared with the case-aware planner,
   "replace" flavour: line context without terminator) builds for the span, and the span is an occurrence *)
Lemma simple_hunk_is_mk_hunk t pre raw post a :
  t = pre ++ raw ++ post -> pre_ok pre -> raw_shape raw post ->
  a + length p <= length (strip_eol raw) -> firstn (length p) (skipn a (strip_eol raw)) = p ->
  simple_hunk p repl (count_byte 10 pre) (length pre) (strip_eol raw) a =
    mk_hunk false t (length pre + a) (length pre + a + length p) repl /\
  firstn (length p) (skipn (length pre + a) t) = p /\
  line_at t (length pre + a) = raw /\ col_of t (length pre + a) = a.
Proof.
  intros Ht Hpre Hshape Hfit Hocc.
  pose proof (strip_eol_shape raw post Hshape) as Hnl.
  pose proof (strip_eol_length_le raw) as HL.
  pose proof (strip_eol_prefix raw) as Hpx.
  set (line := strip_eol raw) in *. set (L := length line) in *.
  assert (Hfa : firstn a raw = firstn a line).
  { rewrite Hpx, firstn_firstn. f_equal. lia. }
  assert (Hc : count_byte 10 (firstn a raw) = 0) by (rewrite Hfa; apply count_byte_firstn_zero; exact Hnl).
  destruct (line_facts t pre raw post a Ht Hpre Hshape ltac:(lia) Hc) as (Hls & Hlo & Hla).
  assert (Hslice : firstn (length p) (skipn (length pre + a) t) = p).
  { subst t. rewrite skipn_app_add. rewrite firstn_skipn_app_l by lia.
    rewrite <- (firstn_skipn_prefix raw L) by lia. fold line in Hpx. rewrite <- Hpx. exact Hocc. }
  assert (Hcol : col_of t (length pre + a) = a) by (unfold col_of; rewrite Hls; lia).
  split; [|auto].
  unfold simple_hunk, mk_hunk. rewrite Hla, Hlo, Hcol.
  replace (length pre + a + length p - (length pre + a)) with (length p) by lia.
  rewrite Hslice. fold line. rewrite Hfa. unfold splice_line. rewrite Nat.add_assoc. reflexivity.
Qed.

(* what the loop guarantees for one hunk, against the text [t] it scanned *)
Definition good (t : bytes) (h : fhunk) : Prop :=
  h = mk_hunk false t (fh_start h) (fh_start h + length p) repl /\
  fh_start h + length p <= length t /\
  firstn (length p) (skipn (fh_start h) t) = p /\
  excl (strip_eol (line_at t (fh_start h))) = false /\
  col_of t (fh_start h) + length p <= length (strip_eol (line_at t (fh_start h))) /\
  count_byte 10 p = 0.

Lemma fused_good : forall raws pre s t,
  t = pre ++ s -> pre_ok pre -> split_incl s = raws ->
  forall h, In h (fused excl p repl (count_byte 10 pre) (length pre) raws) -> good t h.
Proof.
  induction raws as [|raw rest IH]; intros pre s t Ht Hpre Hsp h Hin; [contradiction|].
  assert (Hne : s <> []) by (intro; subst s; discriminate).
  destruct (split_incl_cons s Hne) as (raw' & s' & Hs & Hsp' & Hshape).
  rewrite Hsp' in Hsp. injection Hsp as -> <-.
  cbn [fused] in Hin. apply in_app_or in Hin as [Hin|Hin].
  - destruct (excl (strip_eol raw)) eqn:Ex; [contradiction|].
    apply in_map_iff in Hin as (a & <- & Ha).
    apply literal_starts_sound in Ha as (_ & Hfit & Hocc); [|lia].
    assert (Ht' : t = pre ++ raw ++ s') by (rewrite Ht, Hs; reflexivity).
    destruct (simple_hunk_is_mk_hunk t pre raw s' a Ht' Hpre Hshape Hfit Hocc) as (Heq & Hslice & Hla & Hcol).
    assert (Hst : fh_start (simple_hunk p repl (count_byte 10 pre) (length pre) (strip_eol raw) a) = length pre + a)
      by reflexivity.
    unfold good. rewrite Hst, Hla, Hcol. split; [exact Heq|]. split.
    { rewrite Ht', !app_length. pose proof (strip_eol_length_le raw). lia. }
    split; [exact Hslice|]. split; [exact Ex|]. split; [exact Hfit|].
    rewrite <- Hocc. apply count_byte_firstn_zero, count_byte_skipn_zero.
    apply (strip_eol_shape raw s' Hshape).
  - destruct Hshape as [(l & Hraw & Hl)|(_ & -> & _)]; [|contradiction].
    apply (IH (pre ++ raw) s' t); [rewrite Ht, Hs, app_assoc; reflexivity| |reflexivity|].
    + right. exists (pre ++ l). rewrite Hraw, app_assoc. reflexivity.
    + rewrite count_byte_app, app_length, Hraw, count_byte_app, Hl. cbn [count_byte].
      rewrite N.eqb_refl. replace (count_byte 10 pre + (0 + (1 + 0))) with (S (count_byte 10 pre)) by lia.
      rewrite <- Hraw. exact Hin.
Qed.

(* order: the hunks of a line ascend without overlap and end inside the line; the next line starts later *)
Lemma map_simple_sorted idx off line : forall starts ss,
  starts_chain (length p) ss starts ->
  sorted_disjoint (off + ss) (map (simple_hunk p repl idx off line) starts) = true.
Proof.
  induction starts as [|a l IH]; intros ss H; [reflexivity|].
  destruct H as [H1 H2]. cbn [map sorted_disjoint simple_hunk fh_start fh_end].
  rewrite (IH _ H2).
  replace (Nat.leb (off + ss) (off + a)) with true by (symmetry; apply Nat.leb_le; lia).
  replace (Nat.leb (off + a) (off + (a + length p))) with true by (symmetry; apply Nat.leb_le; lia).
  reflexivity.
Qed.

Lemma sorted_disjoint_app_intro : forall a b P Q,
  sorted_disjoint P a = true -> (forall h, In h a -> fh_end h <= Q) -> P <= Q ->
  sorted_disjoint Q b = true -> sorted_disjoint P (a ++ b) = true.
Proof.
  induction a as [|h a IH]; intros b P Q Ha Hend HPQ Hb; cbn [app].
  - eapply sorted_disjoint_weaken; [|exact Hb]. exact HPQ.
  - cbn [sorted_disjoint] in *. apply andb_true_iff in Ha as [Ha Ha3]. rewrite Ha. cbn [andb].
    apply (IH b _ Q); [exact Ha3| |apply Hend; left; reflexivity|exact Hb].
    intros h' Hh'. apply Hend. right. exact Hh'.
Qed.

Lemma fused_sorted : forall raws idx off, sorted_disjoint off (fused excl p repl idx off raws) = true.
Proof.
  induction raws as [|raw rest IH]; intros idx off; [reflexivity|].
  cbn [fused]. apply (sorted_disjoint_app_intro _ _ off (off + length raw)); [| |lia|apply IH].
  - destruct (excl (strip_eol raw)); [reflexivity|].
    rewrite <- (Nat.add_0_r off) at 1. apply map_simple_sorted. apply literal_starts_chain.
  - intros h Hh. destruct (excl (strip_eol raw)); [contradiction|].
    apply in_map_iff in Hh as (a & <- & Ha).
    apply literal_starts_sound in Ha as (_ & Hfit & _); [|lia].
    cbn [simple_hunk fh_end]. pose proof (strip_eol_length_le raw). lia.
Qed.

End Sound.

(* ------------------------------------------------------------------------------------------ *)
(* S4: UTF-8: an occurrence of a valid pattern in a valid text lies on character boundaries;   *)
(*     from_utf8_lossy is the identity on valid text and always yields valid text              *)
(* ------------------------------------------------------------------------------------------ *)

Lemma utf8_ok_head c : utf8_ok c = true -> head_ok c = true.
Proof.
  destruct c as [|x c]; [reflexivity|]. cbn [utf8_ok head_ok]. unfold is_cont.
  destruct (x <? 128)%N eqn:E1.
  - intros _. apply N.ltb_lt in E1. apply negb_true_iff, andb_false_iff. left. apply N.leb_gt. exact E1.
  - intro H. apply negb_true_iff, andb_false_iff. right. apply N.ltb_ge.
    destruct ((194 <=? x) && (x <=? 223))%N eqn:E2;
      [apply andb_true_iff in E2 as [E2 _]; apply N.leb_le in E2; lia|].
    destruct ((224 <=? x) && (x <=? 239))%N eqn:E3;
      [apply andb_true_iff in E3 as [E3 _]; apply N.leb_le in E3; lia|].
    destruct ((240 <=? x) && (x <=? 244))%N eqn:E4;
      [apply andb_true_iff in E4 as [E4 _]; apply N.leb_le in E4; lia|discriminate].
Qed.

Ltac split_andb :=
  repeat match goal with H : (_ && _)%bool = true |- _ => apply andb_true_iff in H as [? ?] end.

Ltac cont_contra Hh :=
  cbn [head_ok] in Hh; apply negb_true_iff in Hh; split_andb; congruence.

(* a valid text followed by anything valid-prefixed: cutting at a character boundary keeps validity *)
Lemma utf8_ok_app_head : forall n x, length x <= n -> forall y,
  utf8_ok (x ++ y) = true -> head_ok y = true -> utf8_ok y = true.
Proof.
  induction n as [|n IH]; intros x Hn y Hxy Hh; destruct x as [|c x1]; try exact Hxy; [cbn in Hn; lia|].
  cbn [length] in Hn. cbn [app utf8_ok] in Hxy.
  destruct (c <? 128)%N; [apply (IH x1); [lia|exact Hxy|exact Hh]|].
  destruct ((194 <=? c) && (c <=? 223))%N.
  { destruct x1 as [|c1 x2]; cbn [app] in Hxy.
    - destruct y as [|c1 y']; [discriminate|]. cont_contra Hh.
    - split_andb. apply (IH x2); [cbn [length] in Hn; lia|assumption|exact Hh]. }
  destruct ((224 <=? c) && (c <=? 239))%N.
  { destruct x1 as [|c1 [|c2 x3]]; cbn [app] in Hxy.
    - destruct y as [|c1 [|c2 y']]; try discriminate. cont_contra Hh.
    - destruct y as [|c2 y']; [discriminate|]. cont_contra Hh.
    - split_andb. apply (IH x3); [cbn [length] in Hn; lia|assumption|exact Hh]. }
  destruct ((240 <=? c) && (c <=? 244))%N; [|discriminate].
  destruct x1 as [|c1 [|c2 [|c3 x4]]]; cbn [app] in Hxy.
  - destruct y as [|c1 [|c2 [|c3 y']]]; try discriminate. cont_contra Hh.
  - destruct y as [|c2 [|c3 y']]; try discriminate. cont_contra Hh.
  - destruct y as [|c3 y']; [discriminate|]. cont_contra Hh.
  - split_andb. apply (IH x4); [cbn [length] in Hn; lia|assumption|exact Hh].
Qed.

Lemma utf8_ok_app_r : forall n x, length x <= n -> forall y,
  utf8_ok (x ++ y) = true -> utf8_ok x = true -> utf8_ok y = true.
Proof.
  induction n as [|n IH]; intros x Hn y Hxy Hx; destruct x as [|c x1]; try exact Hxy; [cbn in Hn; lia|].
  cbn [length] in Hn. cbn [app utf8_ok] in Hxy. cbn [utf8_ok] in Hx.
  destruct (c <? 128)%N; [apply (IH x1); [lia|exact Hxy|exact Hx]|].
  destruct ((194 <=? c) && (c <=? 223))%N.
  { destruct x1 as [|c1 x2]; [discriminate|]. cbn [app] in Hxy. split_andb.
    apply (IH x2); [cbn [length] in Hn; lia|assumption|assumption]. }
  destruct ((224 <=? c) && (c <=? 239))%N.
  { destruct x1 as [|c1 [|c2 x3]]; try discriminate. cbn [app] in Hxy. split_andb.
    apply (IH x3); [cbn [length] in Hn; lia|assumption|assumption]. }
  destruct ((240 <=? c) && (c <=? 244))%N; [|discriminate].
  destruct x1 as [|c1 [|c2 [|c3 x4]]]; try discriminate. cbn [app] in Hxy. split_andb.
  apply (IH x4); [cbn [length] in Hn; lia|assumption|assumption].
Qed.

(* U: both ends of an occurrence are character boundaries *)
Lemma occurrence_boundaries t p a :
  utf8_ok t = true -> utf8_ok p = true -> p <> [] ->
  a + length p <= length t -> firstn (length p) (skipn a t) = p ->
  char_boundary t a = true /\ char_boundary t (a + length p) = true.
Proof.
  intros Ut Up Hp Hle Hocc.
  pose proof (occurrence_split t p a Hle Hocc) as Hsplit.
  assert (Hx : length (firstn a t) = a) by (apply firstn_length_le; lia).
  set (x := firstn a t) in *. set (y := skipn (a + length p) t) in *. clearbody x y.
  pose proof (utf8_ok_head p Up) as Hhp.
  assert (Hhpy : head_ok (p ++ y) = true) by (destruct p; [congruence|exact Hhp]).
  rewrite Hsplit in Ut.
  pose proof (utf8_ok_app_head _ x (le_n _) _ Ut Hhpy) as Upy.
  pose proof (utf8_ok_app_r _ p (le_n _) _ Upy Up) as Uy.
  pose proof (utf8_ok_head y Uy) as Hhy.
  rewrite Hsplit. split.
  - rewrite <- Hx. apply head_ok_boundary_app. exact Hhpy.
  - rewrite app_assoc. replace (a + length p) with (length (x ++ p)) by (rewrite app_length; lia).
    apply head_ok_boundary_app. exact Hhy.
Qed.

Lemma lossy_id : forall n s, length s <= n -> utf8_ok s = true -> lossy s = s.
Proof.
  induction n as [|n IH]; intros s Hn H; destruct s as [|c s1]; try reflexivity; [cbn in Hn; lia|].
  cbn [length] in Hn. cbn [utf8_ok] in H. cbn [lossy].
  destruct (c <? 128)%N; [f_equal; apply IH; [lia|exact H]|].
  destruct ((194 <=? c) && (c <=? 223))%N.
  { destruct s1 as [|c1 s2]; [discriminate|]. split_andb.
    replace (is_cont c1) with true by congruence. do 2 f_equal. apply IH; [cbn [length] in Hn; lia|assumption]. }
  destruct ((224 <=? c) && (c <=? 239))%N.
  { destruct s1 as [|c1 [|c2 s3]]; try discriminate. split_andb. unfold second3_ok.
    repeat match goal with H : ?b = true |- context [?b] => rewrite H end. cbn [andb].
    do 3 f_equal. apply IH; [cbn [length] in Hn; lia|assumption]. }
  destruct ((240 <=? c) && (c <=? 244))%N; [|discriminate].
  destruct s1 as [|c1 [|c2 [|c3 s4]]]; try discriminate. split_andb. unfold second4_ok.
  repeat match goal with H : ?b = true |- context [?b] => rewrite H end. cbn [andb].
  do 4 f_equal. apply IH; [cbn [length] in Hn; lia|assumption].
Qed.

Lemma utf8_ok_repl r : utf8_ok (REPL ++ r) = utf8_ok r.
Proof. reflexivity. Qed.

Lemma lossy_valid : forall n s, length s <= n -> utf8_ok (lossy s) = true.
Proof.
  induction n as [|n IH]; intros s Hn; destruct s as [|c s1]; try reflexivity; [cbn in Hn; lia|].
  cbn [length] in Hn. cbn [lossy].
  destruct (c <? 128)%N eqn:E1; [cbn [utf8_ok]; rewrite E1; apply IH; lia|].
  destruct ((194 <=? c) && (c <=? 223))%N eqn:E2.
  { destruct s1 as [|c1 s2]; [reflexivity|]. cbn [length] in Hn. destruct (is_cont c1) eqn:C1.
    - cbn [utf8_ok]. rewrite E1, E2, C1. apply IH. lia.
    - rewrite utf8_ok_repl. apply IH. cbn [length]. lia. }
  destruct ((224 <=? c) && (c <=? 239))%N eqn:E3.
  { destruct s1 as [|c1 s2]; [reflexivity|]. cbn [length] in Hn.
    destruct (second3_ok c c1) eqn:S3; [|rewrite utf8_ok_repl; apply IH; cbn [length]; lia].
    destruct s2 as [|c2 s3]; [reflexivity|]. cbn [length] in Hn.
    destruct (is_cont c2) eqn:C2; [|rewrite utf8_ok_repl; apply IH; cbn [length]; lia].
    cbn [utf8_ok]. rewrite E1, E2, E3. unfold second3_ok in S3. split_andb.
    repeat match goal with H : ?b = true |- context [?b] => rewrite H end. cbn [andb]. apply IH. lia. }
  destruct ((240 <=? c) && (c <=? 244))%N eqn:E4; [|rewrite utf8_ok_repl; apply IH; lia].
  destruct s1 as [|c1 s2]; [reflexivity|]. cbn [length] in Hn.
  destruct (second4_ok c c1) eqn:S4; [|rewrite utf8_ok_repl; apply IH; cbn [length]; lia].
  destruct s2 as [|c2 s3]; [reflexivity|]. cbn [length] in Hn.
  destruct (is_cont c2) eqn:C2; [|rewrite utf8_ok_repl; apply IH; cbn [length]; lia].
  destruct s3 as [|c3 s4]; [reflexivity|]. cbn [length] in Hn.
  destruct (is_cont c3) eqn:C3; [|rewrite utf8_ok_repl; apply IH; cbn [length]; lia].
  cbn [utf8_ok]. rewrite E1, E2, E3, E4. unfold second4_ok in S4. split_andb.
  repeat match goal with H : ?b = true |- context [?b] => rewrite H end. cbn [andb]. apply IH. lia.
Qed.

(* the decoded text the planner scans: always valid UTF-8, and the file itself when the file is valid UTF-8 *)
Theorem lossy_is_utf8 : forall c, utf8_ok (lossy c) = true.
Proof. intro c. apply (lossy_valid (length c)). lia. Qed.

Theorem lossy_of_utf8 : forall c, utf8_ok c = true -> lossy c = c.
Proof. intros c H. apply (lossy_id (length c)); [lia|exact H]. Qed.

(* ------------------------------------------------------------------------------------------ *)
(* S5: the theorems about the loop on a text                                                  *)
(* ------------------------------------------------------------------------------------------ *)

Lemma sorted_disjoint_pairwise : forall hs P, sorted_disjoint P hs = true ->
  forall i j hi hj, i < j -> nth_error hs i = Some hi -> nth_error hs j = Some hj ->
  fh_start hi <= fh_end hi /\ fh_end hi <= fh_start hj.
Proof.
  induction hs as [|x hs IH]; intros P H i j hi hj Hij Hi Hj; [destruct i; discriminate|].
  cbn [sorted_disjoint] in H. apply andb_true_iff in H as [H H3]. apply andb_true_iff in H as [H1 H2].
  apply Nat.leb_le in H2.
  destruct j as [|j]; [lia|]. cbn [nth_error] in Hj.
  destruct i as [|i].
  - cbn [nth_error] in Hi. injection Hi as <-. split; [exact H2|].
    apply (sorted_disjoint_lower hs _ H3). eapply nth_error_In. exact Hj.
  - cbn [nth_error] in Hi. apply (IH _ H3 i j); [lia|exact Hi|exact Hj].
Qed.

Lemma firstn_is_prefix (p s : bytes) : firstn (length p) s = p -> is_prefix p s = true.
Proof.
  intro H. apply is_prefix_spec. exists (skipn (length p) s). rewrite <- H at 1. symmetry. apply firstn_skipn.
Qed.

Section Text.
Variable excl : bytes -> bool.
Variables p repl : bytes.

(* SP1: every hunk, field by field, against the scanned text *)
Theorem scan_text_hunks : forall t h, p <> [] -> In h (scan_text excl p repl t) ->
  fh_content h = p /\ fh_replace h = repl /\
  fh_start h < fh_end h /\ fh_end h = fh_start h + length p /\ fh_end h <= length t /\
  firstn (fh_end h - fh_start h) (skipn (fh_start h) t) = p /\
  fh_line h = line_of t (fh_start h) /\
  fh_col h = col_of t (fh_start h) /\
  fh_char h = char_count (firstn (fh_col h) (line_at t (fh_start h))) /\
  fh_before h = Some (strip_eol (line_at t (fh_start h))) /\
  fh_after h = Some (splice_line (strip_eol (line_at t (fh_start h))) (fh_col h) p repl) /\
  hunk_at (strip_eol (line_at t (fh_start h))) h = true /\
  excl (strip_eol (line_at t (fh_start h))) = false /\
  no_cr_cut t h /\
  existsb (N.eqb 10) p = false /\
  h = mk_hunk false t (fh_start h) (fh_end h) repl.
Proof.
  intros t h Hp Hin. rewrite scan_text_fused in Hin.
  apply (fused_good excl p repl (split_incl t) [] t t eq_refl (or_introl eq_refl) eq_refl) in Hin.
  destruct Hin as (Heq & Hle & Hocc & Hex & Hfit & Hnl).
  assert (Hlp : 0 < length p) by (destruct p; [congruence|cbn; lia]).
  set (s := fh_start h) in *.
  assert (Hsub : s + length p - s = length p) by lia.
  assert (Hend : fh_end h = s + length p) by (rewrite Heq; reflexivity).
  assert (Hcont : fh_content h = p).
  { rewrite Heq. unfold mk_hunk. cbn [fh_content]. rewrite Hsub. exact Hocc. }
  assert (Hcol : fh_col h = col_of t s) by (rewrite Heq; reflexivity).
  assert (Hnlb : existsb (N.eqb 10) p = false) by (apply existsb_count_byte; exact Hnl).
  assert (Hnls : existsb (N.eqb 10) (firstn (s + length p - s) (skipn s t)) = false).
  { rewrite Hsub, Hocc. exact Hnlb. }
  assert (Hcr : ~ (nth_error t (s + length p - 1) = Some 13%N /\ nth_error t (s + length p) = Some 10%N)).
  { apply (proj1 (strip_fit_iff t s (s + length p) ltac:(lia) Hle Hnls)). rewrite Hsub. exact Hfit. }
  split; [exact Hcont|]. split; [rewrite Heq; reflexivity|]. split; [lia|]. split; [exact Hend|].
  split; [lia|]. split; [rewrite Hend, Hsub; exact Hocc|].
  split; [rewrite Heq; reflexivity|]. split; [exact Hcol|]. split; [rewrite Heq; reflexivity|].
  split; [rewrite Heq; reflexivity|].
  split.
  { rewrite Hcol. rewrite Heq at 1. unfold mk_hunk. cbn [fh_after]. rewrite Hsub, Hocc. reflexivity. }
  split.
  { rewrite Heq. apply mk_hunk_at_noterm; [lia|exact Hle|exact Hnls|exact Hcr]. }
  split; [exact Hex|]. split; [unfold no_cr_cut; rewrite Hend; exact Hcr|]. split; [exact Hnlb|].
  rewrite Hend. exact Heq.
Qed.

(* SP2: ascending by start, pairwise disjoint -- no hypothesis at all *)
Theorem scan_text_sorted : forall t, sorted_disjoint 0 (scan_text excl p repl t) = true.
Proof. intro t. rewrite scan_text_fused. apply fused_sorted. Qed.

Corollary scan_text_pairwise : forall t i j hi hj, i < j ->
  nth_error (scan_text excl p repl t) i = Some hi -> nth_error (scan_text excl p repl t) j = Some hj ->
  fh_end hi <= fh_start hj.
Proof.
  intros t i j hi hj Hij Hi Hj.
  apply (sorted_disjoint_pairwise _ _ (scan_text_sorted t) i j hi hj Hij Hi Hj).
Qed.

(* SP3: the plan is consistent with the text in the sense of C03 (Hunks.file_consistent, "replace" flavour) *)
Theorem scan_text_consistent : forall t, p <> [] -> utf8_ok p = true -> utf8_ok t = true ->
  file_consistent false t (scan_text excl p repl t) = true.
Proof.
  intros t Hp Up Ut. unfold file_consistent. rewrite scan_text_sorted, andb_true_r.
  apply forallb_forall. intros h Hin.
  destruct (scan_text_hunks t h Hp Hin) as (_ & _ & Hlt & Hend & Hle & Hocc & _ & _ & _ & _ & _ & _ & _ & _ & Hnl & Heq).
  rewrite Hend in Hocc, Hle.
  replace (fh_start h + length p - fh_start h) with (length p) in Hocc by lia.
  destruct (occurrence_boundaries t p (fh_start h) Ut Up Hp Hle Hocc) as [Hb1 Hb2].
  rewrite Heq. apply mk_hunk_ok; [exact Hlt|rewrite Hend; exact Hle|exact Hb1|rewrite Hend; exact Hb2|].
  rewrite Hend. replace (fh_start h + length p - fh_start h) with (length p) by lia. rewrite Hocc. exact Hnl.
Qed.

(* SP4 (link to C02 / C15): the plan is a well-formed edit list for the text and apply's splice loop on it yields
   the reference substitution *)
Theorem scan_text_applies : forall t, p <> [] -> utf8_ok p = true -> utf8_ok t = true -> head_ok repl = true ->
  wf_edits t (map edit_of_hunk (scan_text excl p repl t)) = true /\
  apply_edits_rev t (map edit_of_hunk (scan_text excl p repl t)) =
    Ok (spec_splice t (map edit_of_hunk (scan_text excl p repl t))).
Proof.
  intros t Hp Up Ut Hr.
  pose proof (scan_text_consistent t Hp Up Ut) as Hc.
  assert (Hh : forallb (fun h => head_ok (fh_replace h)) (scan_text excl p repl t) = true).
  { apply forallb_forall. intros h Hin. destruct (scan_text_hunks t h Hp Hin) as (_ & -> & _). exact Hr. }
  split.
  - apply (consistent_is_wf false); assumption.
  - apply (consistent_applies false); [apply utf8_ok_head; exact Ut|exact Hc|exact Hh].
Qed.

End Text.

(* ------------------------------------------------------------------------------------------ *)
(* S6: nothing is missed: an occurrence inside the text of a line that is not excluded is      *)
(*     reported, or overlaps a reported match that begins before it                            *)
(* ------------------------------------------------------------------------------------------ *)

Section Complete.
Variable excl : bytes -> bool.
Variables p repl : bytes.

Lemma split_incl_nil s : split_incl s = [] -> s = [].
Proof.
  destruct s as [|x s]; [reflexivity|]. intro H.
  destruct (split_incl_cons (x :: s)) as (raw & s' & _ & E & _); [discriminate|]. rewrite E in H. discriminate.
Qed.

Lemma line_complete t pre raw post a :
  p <> [] -> t = pre ++ raw ++ post -> pre_ok pre -> raw_shape raw post ->
  a <= length raw -> count_byte 10 (firstn a raw) = 0 ->
  firstn (length p) (skipn (length pre + a) t) = p ->
  excl (strip_eol (line_at t (length pre + a))) = false ->
  col_of t (length pre + a) + length p <= length (strip_eol (line_at t (length pre + a))) ->
  forall idx rest, exists h, In h (fused excl p repl idx (length pre) (raw :: rest)) /\
                             fh_start h <= length pre + a < fh_end h.
Proof.
  intros Hp Ht Hpre Hshape Ha Hc Hocc Hex Hfit idx rest.
  destruct (line_facts t pre raw post a Ht Hpre Hshape Ha Hc) as (Hls & _ & Hla).
  assert (Hcol : col_of t (length pre + a) = a) by (unfold col_of; rewrite Hls; lia).
  rewrite Hla in Hex, Hfit. rewrite Hcol in Hfit.
  pose proof (strip_eol_length_le raw) as HL. pose proof (strip_eol_prefix raw) as Hpx.
  set (line := strip_eol raw) in *.
  assert (Hline : firstn (length p) (skipn a line) = p).
  { rewrite Hpx. rewrite firstn_skipn_prefix by lia.
    rewrite <- (firstn_skipn_app_l raw post) by lia. rewrite <- (skipn_app_add pre), <- Ht. exact Hocc. }
  destruct (literal_starts_complete p line Hp (S (length line)) 0 a ltac:(lia) ltac:(lia)
              (firstn_is_prefix _ _ Hline)) as (a0 & Hin & Hr).
  exists (simple_hunk p repl idx (length pre) line a0). split.
  - cbn [fused]. apply in_or_app. left. fold line. rewrite Hex. apply in_map. exact Hin.
  - cbn [simple_hunk fh_start fh_end]. lia.
Qed.

Lemma fused_complete : p <> [] -> forall raws pre s t,
  t = pre ++ s -> pre_ok pre -> split_incl s = raws -> forall j, length pre <= j ->
  j + length p <= length t -> firstn (length p) (skipn j t) = p ->
  excl (strip_eol (line_at t j)) = false ->
  col_of t j + length p <= length (strip_eol (line_at t j)) ->
  exists h, In h (fused excl p repl (count_byte 10 pre) (length pre) raws) /\ fh_start h <= j < fh_end h.
Proof.
  intros Hp. assert (Hlp : 0 < length p) by (destruct p; [congruence|cbn; lia]).
  induction raws as [|raw rest IH]; intros pre s t Ht Hpre Hsp j Hj Hle Hocc Hex Hfit.
  - apply split_incl_nil in Hsp. subst s. rewrite Ht, app_nil_r in Hle. lia.
  - assert (Hne : s <> []) by (intro; subst s; discriminate).
    destruct (split_incl_cons s Hne) as (raw' & s' & Hs & Hsp' & Hshape).
    rewrite Hsp' in Hsp. injection Hsp as -> <-.
    assert (Ht' : t = pre ++ raw ++ s') by (rewrite Ht, Hs; reflexivity).
    assert (Hja : j = length pre + (j - length pre)) by lia.
    set (a := j - length pre) in *.
    assert (Hin_line : a <= length raw -> count_byte 10 (firstn a raw) = 0 ->
            exists h, In h (fused excl p repl (count_byte 10 pre) (length pre) (raw :: split_incl s')) /\
                      fh_start h <= j < fh_end h).
    { intros Ha Hc. rewrite Hja in Hocc, Hex, Hfit |- *.
      apply (line_complete t pre raw s' a Hp Ht' Hpre Hshape Ha Hc Hocc Hex Hfit). }
    destruct Hshape as [(l & Hraw & Hl)|(Hc & Hs' & _)].
    + destruct (Nat.le_gt_cases a (length l)) as [Hal|Hal].
      * apply Hin_line; [rewrite Hraw, app_length; lia|].
        rewrite Hraw, firstn_app. replace (a - length l) with 0 by lia.
        rewrite firstn_O, app_nil_r. apply count_byte_firstn_zero. exact Hl.
      * assert (Hlen : length raw = length l + 1) by (rewrite Hraw, app_length; reflexivity).
        destruct (IH (pre ++ raw) s' t) with (j := j) as (h & Hh & Hr);
          [rewrite Ht', app_assoc; reflexivity| |reflexivity|rewrite app_length; lia|exact Hle|exact Hocc|exact Hex|exact Hfit|].
        { right. exists (pre ++ l). rewrite Hraw, app_assoc. reflexivity. }
        exists h. split; [|exact Hr]. cbn [fused]. apply in_or_app. right.
        rewrite count_byte_app, app_length in Hh.
        replace (count_byte 10 raw) with 1 in Hh
          by (rewrite Hraw, count_byte_app, Hl; cbn [count_byte]; rewrite N.eqb_refl; reflexivity).
        rewrite Nat.add_1_r in Hh. exact Hh.
    + apply Hin_line; [|apply count_byte_firstn_zero; exact Hc].
      rewrite Ht', Hs', app_nil_r, app_length in Hle. lia.
Qed.

(* SP5 *)
Theorem scan_text_complete : forall t j, p <> [] ->
  j + length p <= length t -> firstn (length p) (skipn j t) = p ->
  excl (strip_eol (line_at t j)) = false ->
  col_of t j + length p <= length (strip_eol (line_at t j)) ->
  exists h, In h (scan_text excl p repl t) /\ fh_start h <= j < fh_end h.
Proof.
  intros t j Hp Hle Hocc Hex Hfit. rewrite scan_text_fused.
  apply (fused_complete Hp (split_incl t) [] t t eq_refl (or_introl eq_refl) eq_refl j); auto. cbn. lia.
Qed.

End Complete.

(* ------------------------------------------------------------------------------------------ *)
(* S7: process_file_content_lossy and create_simple_plan -- the main theorems                        *)
(* ------------------------------------------------------------------------------------------ *)

(* what a plan says about one of its hunks, checked against the text [t]:
   content = pattern = the bytes at [start, end); the span is non-empty and inside the text; line and byte column
   are those of start; char column = characters before the column; line_before = the line of start without its
   terminator (the project's line context of `replace`: Hunks.strip_eol (Hunks.line_at ..)); line_after = line_before
   with exactly this match replaced; the match is found at its column of line_before; the line is not excluded; the
   match does not swallow the '\r' of a "\r\n" (the side condition of C15_consistent_diff_after); the pattern has no
   '\n'; and the hunk is the one Hunks.mk_hunk builds for the span *)
Definition hunk_spec (excl : bytes -> bool) (p repl t : bytes) (h : fhunk) : Prop :=
  fh_content h = p /\ fh_replace h = repl /\
  fh_start h < fh_end h /\ fh_end h = fh_start h + length p /\ fh_end h <= length t /\
  firstn (fh_end h - fh_start h) (skipn (fh_start h) t) = p /\
  fh_line h = line_of t (fh_start h) /\
  fh_col h = col_of t (fh_start h) /\
  fh_char h = char_count (firstn (fh_col h) (line_at t (fh_start h))) /\
  fh_before h = Some (strip_eol (line_at t (fh_start h))) /\
  fh_after h = Some (splice_line (strip_eol (line_at t (fh_start h))) (fh_col h) p repl) /\
  hunk_at (strip_eol (line_at t (fh_start h))) h = true /\
  excl (strip_eol (line_at t (fh_start h))) = false /\
  no_cr_cut t h /\
  existsb (N.eqb 10) p = false /\
  h = mk_hunk false t (fh_start h) (fh_end h) repl.

Section File.
Variable excl : bytes -> bool.
Variables p repl : bytes.

Notation pfc := (process_file_content_lossy excl p repl).

Lemma pfc_fst bat c : fst (pfc bat c) = [] \/ fst (pfc bat c) = scan_text excl p repl (lossy c).
Proof. unfold process_file_content_lossy. destruct (negb bat && is_binary c); [left|right]; reflexivity. Qed.

(* binary files are skipped unless -uuu; otherwise the result is the loop on the decoded text; has_matches says
   whether the file has hunks *)
Theorem simple_plan_file_cases : forall bat c,
  (negb bat && is_binary c = true -> pfc bat c = ([], false)) /\
  (negb bat && is_binary c = false -> fst (pfc bat c) = scan_text excl p repl (lossy c)) /\
  snd (pfc bat c) = negb (Nat.eqb (length (fst (pfc bat c))) 0).
Proof.
  intros bat c. unfold process_file_content_lossy. destruct (negb bat && is_binary c).
  - split; [reflexivity|]. split; [discriminate|reflexivity].
  - split; [discriminate|]. split; [reflexivity|]. cbn [fst snd].
    destruct (scan_text excl p repl (lossy c)); reflexivity.
Qed.

(* MAIN 1: every hunk is what the plan says it is -- against the DECODED text for any file ... *)
Theorem simple_plan_hunks_decoded : forall bat c h, p <> [] ->
  In h (fst (pfc bat c)) -> hunk_spec excl p repl (lossy c) h.
Proof.
  intros bat c h Hp Hin. destruct (pfc_fst bat c) as [E|E]; rewrite E in Hin; [contradiction|].
  apply scan_text_hunks; assumption.
Qed.

(* ... and against the FILE when the file is valid UTF-8 *)
Theorem simple_plan_hunks : forall bat c h, p <> [] -> utf8_ok c = true ->
  In h (fst (pfc bat c)) -> hunk_spec excl p repl c h.
Proof.
  intros bat c h Hp Uc Hin. rewrite <- (lossy_of_utf8 c Uc) at 1. apply (simple_plan_hunks_decoded bat); assumption.
Qed.

(* MAIN 2: sorted by start, pairwise disjoint: any bytes, any pattern, any replacement, any exclude predicate *)
Theorem simple_plan_sorted : forall bat c, sorted_disjoint 0 (fst (pfc bat c)) = true.
Proof.
  intros bat c. destruct (pfc_fst bat c) as [E|E]; rewrite E; [reflexivity|apply scan_text_sorted].
Qed.

Corollary simple_plan_pairwise_disjoint : forall bat c i j hi hj, i < j ->
  nth_error (fst (pfc bat c)) i = Some hi -> nth_error (fst (pfc bat c)) j = Some hj ->
  fh_end hi <= fh_start hj.
Proof.
  intros bat c i j hi hj Hij Hi Hj.
  apply (sorted_disjoint_pairwise _ _ (simple_plan_sorted bat c) i j hi hj Hij Hi Hj).
Qed.

(* MAIN 3: consistency in the sense of C03 -- with the decoded text for ANY file (the decoding is always valid UTF-8),
   with the file itself when it is valid UTF-8 *)
Theorem simple_plan_consistent_decoded : forall bat c, p <> [] -> utf8_ok p = true ->
  file_consistent false (lossy c) (fst (pfc bat c)) = true.
Proof.
  intros bat c Hp Up. destruct (pfc_fst bat c) as [E|E]; rewrite E; [reflexivity|].
  apply scan_text_consistent; [exact Hp|exact Up|apply lossy_is_utf8].
Qed.

Theorem simple_plan_consistent : forall bat c, p <> [] -> utf8_ok p = true -> utf8_ok c = true ->
  file_consistent false c (fst (pfc bat c)) = true.
Proof.
  intros bat c Hp Up Uc. rewrite <- (lossy_of_utf8 c Uc) at 1. apply simple_plan_consistent_decoded; assumption.
Qed.

(* MAIN 4 (C02 / C15): the hunks are a well-formed edit list for the file and apply's splice loop on them yields the
   reference substitution: applying the simple plan rewrites exactly the reported occurrences *)
Theorem simple_plan_applies : forall bat c,
  p <> [] -> utf8_ok p = true -> utf8_ok c = true -> head_ok repl = true ->
  wf_edits c (map edit_of_hunk (fst (pfc bat c))) = true /\
  apply_edits_rev c (map edit_of_hunk (fst (pfc bat c))) =
    Ok (spec_splice c (map edit_of_hunk (fst (pfc bat c)))).
Proof.
  intros bat c Hp Up Uc Hr. destruct (pfc_fst bat c) as [E|E]; rewrite E.
  - split; [reflexivity|]. apply apply_edits_rev_spec; [apply utf8_ok_head; exact Uc|reflexivity].
  - rewrite (lossy_of_utf8 c Uc). apply scan_text_applies; assumption.
Qed.

(* MAIN 5: nothing is missed.  In a file that is scanned (not binary, or -uuu) and valid UTF-8, an occurrence of the
   pattern that lies inside the text of a line (does not touch the line terminator) which is not excluded is
   reported, or it overlaps a reported match that begins before it ("aaa" / "aa": the occurrence at 1) *)
Theorem simple_plan_complete : forall bat c j, p <> [] -> utf8_ok c = true ->
  negb bat && is_binary c = false ->
  j + length p <= length c -> firstn (length p) (skipn j c) = p ->
  excl (strip_eol (line_at c j)) = false ->
  col_of c j + length p <= length (strip_eol (line_at c j)) ->
  exists h, In h (fst (pfc bat c)) /\ fh_start h <= j < fh_end h.
Proof.
  intros bat c j Hp Uc Hb Hle Hocc Hex Hfit.
  destruct (simple_plan_file_cases bat c) as (_ & E & _). rewrite (E Hb), (lossy_of_utf8 c Uc).
  apply scan_text_complete; assumption.
Qed.

(* MAIN 7 (C15, "what the preview shows is what apply does", for the replace planner): for the hunks the plan has on
   one line -- any contiguous segment of the file's hunk list whose hunks share a line number -- the diff preview's
   "after" line is the line as it reads once ALL of them are applied.  The no_cr_cut exception of the case-aware
   planner (C15_cr_cut_preview_understates) cannot arise here: a match never ends in the '\r' of "\r\n" because the
   line is searched without its terminator. *)
Theorem simple_plan_preview : forall bat c seg_pre h0 hs seg_post,
  p <> [] -> utf8_ok p = true -> utf8_ok c = true ->
  fst (pfc bat c) = seg_pre ++ (h0 :: hs) ++ seg_post ->
  (forall h, In h hs -> fh_line h = fh_line h0) ->
  diff_after (h0 :: hs) = line_after_plan (line_ctx false c (fh_start h0)) (h0 :: hs).
Proof.
  intros bat c seg_pre h0 hs seg_post Hp Up Uc Hseg Hline.
  pose proof (simple_plan_consistent bat c Hp Up Uc) as Hc. rewrite Hseg in Hc.
  apply file_consistent_segment in Hc.
  apply (consistent_diff_after false c h0 hs Hc Hline). intros _ h Hin.
  assert (Hin' : In h (fst (pfc bat c))).
  { rewrite Hseg. apply in_or_app. right. apply in_or_app. left. exact Hin. }
  destruct (simple_plan_hunks bat c h Hp Uc Hin') as (_ & _ & _ & _ & _ & _ & _ & _ & _ & _ & _ & _ & _ & Hcr & _).
  exact Hcr.
Qed.

End File.

(* ------------------------------------------------------------------------------------------ *)
(* S7b: THE CURRENT process_file_content (repo fix 0904d0d): a file that is not valid UTF-8 is left out.  Every theorem
   of S7 that needed [utf8_ok c] now holds for EVERY file: on valid text the function is the one above (lossy is the
   identity), on anything else it returns no hunk. *)
Section FileNow.
Variable excl : bytes -> bool.
Variables p repl : bytes.

Notation pfl := (process_file_content_lossy excl p repl).
Notation pfn := (SimplePlan.process_file_content excl p repl).

Lemma pfn_valid bat c : utf8_ok c = true -> pfn bat c = pfl bat c.
Proof.
  intro U. unfold SimplePlan.process_file_content, process_file_content_lossy.
  destruct (negb bat && is_binary c); [reflexivity|]. rewrite U. cbn [negb]. rewrite (lossy_of_utf8 c U). reflexivity.
Qed.

Lemma pfn_invalid bat c : utf8_ok c = false -> pfn bat c = ([], false).
Proof.
  intro U. unfold SimplePlan.process_file_content. destruct (negb bat && is_binary c); [reflexivity|]. rewrite U. reflexivity.
Qed.

Lemma pfn_cases bat c :
  (utf8_ok c = true /\ pfn bat c = pfl bat c) \/ (pfn bat c = ([], false)).
Proof.
  destruct (utf8_ok c) eqn:U; [left; split; [reflexivity|apply pfn_valid; exact U]|right; apply pfn_invalid; exact U].
Qed.

Theorem simple_plan_now_file_cases : forall bat c,
  (negb bat && is_binary c = true -> pfn bat c = ([], false)) /\
  (utf8_ok c = false -> pfn bat c = ([], false)) /\
  (negb bat && is_binary c = false -> utf8_ok c = true -> fst (pfn bat c) = scan_text excl p repl c) /\
  snd (pfn bat c) = negb (Nat.eqb (length (fst (pfn bat c))) 0).
Proof.
  intros bat c. unfold SimplePlan.process_file_content.
  destruct (negb bat && is_binary c).
  - repeat split; try reflexivity; discriminate.
  - destruct (utf8_ok c); cbn [negb].
    + repeat split; try reflexivity; try discriminate. cbn [fst snd]. destruct (scan_text excl p repl c); reflexivity.
    + repeat split; try reflexivity; discriminate.
Qed.

(* every hunk is what the plan says it is, against THE FILE, for every file *)
Theorem simple_plan_now_hunks : forall bat c h, p <> [] ->
  In h (fst (pfn bat c)) -> hunk_spec excl p repl c h.
Proof.
  intros bat c h Hp Hin. destruct (pfn_cases bat c) as [[U E]|E]; rewrite E in Hin.
  - apply (simple_plan_hunks excl p repl bat); assumption.
  - destruct Hin.
Qed.

Theorem simple_plan_now_sorted : forall bat c, sorted_disjoint 0 (fst (pfn bat c)) = true.
Proof.
  intros bat c. destruct (pfn_cases bat c) as [[U E]|E]; rewrite E; [apply simple_plan_sorted|reflexivity].
Qed.

(* the plan is consistent with the file (C03), for every file *)
Theorem simple_plan_now_consistent : forall bat c, p <> [] -> utf8_ok p = true ->
  file_consistent false c (fst (pfn bat c)) = true.
Proof.
  intros bat c Hp Up. destruct (pfn_cases bat c) as [[U E]|E]; rewrite E.
  - apply simple_plan_consistent; assumption.
  - reflexivity.
Qed.

(* applying the plan rewrites exactly the reported occurrences (link to C02), for every file *)
Theorem simple_plan_now_applies : forall bat c,
  p <> [] -> utf8_ok p = true -> head_ok repl = true -> head_ok c = true ->
  wf_edits c (map edit_of_hunk (fst (pfn bat c))) = true /\
  apply_edits_rev c (map edit_of_hunk (fst (pfn bat c))) = Ok (spec_splice c (map edit_of_hunk (fst (pfn bat c)))).
Proof.
  intros bat c Hp Up Hr Hc. destruct (pfn_cases bat c) as [[U E]|E]; rewrite E.
  - apply simple_plan_applies; assumption.
  - cbn [fst map]. split; [reflexivity|]. apply apply_edits_rev_spec; [exact Hc|reflexivity].
Qed.

(* what the diff preview shows for a line is how the line reads once all its hunks are applied (C15), for every file *)
Theorem simple_plan_now_preview : forall bat c seg_pre h0 hs seg_post,
  p <> [] -> utf8_ok p = true -> fst (pfn bat c) = seg_pre ++ (h0 :: hs) ++ seg_post ->
  (forall h, In h hs -> fh_line h = fh_line h0) ->
  diff_after (h0 :: hs) = line_after_plan (line_ctx false c (fh_start h0)) (h0 :: hs).
Proof.
  intros bat c seg_pre h0 hs seg_post Hp Up Hs Hl. destruct (pfn_cases bat c) as [[U E]|E]; rewrite E in Hs.
  - apply (simple_plan_preview excl p repl bat c seg_pre h0 hs seg_post); assumption.
  - cbn [fst] in Hs. destruct seg_pre; discriminate Hs.
Qed.

(* leftmost non-overlapping completeness on every scanned file *)
Theorem simple_plan_now_complete : forall bat c j, p <> [] -> utf8_ok c = true ->
  negb bat && is_binary c = false ->
  j + length p <= length c -> firstn (length p) (skipn j c) = p ->
  excl (strip_eol (line_at c j)) = false -> col_of c j + length p <= length (strip_eol (line_at c j)) ->
  exists h, In h (fst (pfn bat c)) /\ fh_start h <= j < fh_end h.
Proof.
  intros bat c j Hp U Hb. rewrite (pfn_valid bat c U). apply simple_plan_complete; assumption.
Qed.

(* create_simple_plan: the empty pattern is an error; otherwise the plan holds the hunks of every file and the stats count
   what the plan holds *)
Lemma files_with_count bat : forall files,
  length (filter snd (map (pfn bat) files)) =
  length (filter (fun l : list fhunk => negb (Nat.eqb (length l) 0)) (map fst (map (pfn bat) files))).
Proof.
  induction files as [|c files IH]; [reflexivity|]. cbn [map filter].
  destruct (simple_plan_now_file_cases bat c) as (_ & _ & _ & E). rewrite E.
  destruct (negb (Nat.eqb (length (fst (pfn bat c))) 0)); cbn [length]; rewrite IH; reflexivity.
Qed.

Theorem create_simple_plan_spec : forall bat files,
  (p = [] -> create_simple_plan excl p repl bat files = None) /\
  (p <> [] -> exists per_file st,
     create_simple_plan excl p repl bat files = Some (per_file, st) /\
     per_file = map (fun c => fst (pfn bat c)) files /\
     st_files_scanned st = length files /\
     total_ok (st_total st) per_file = true /\
     files_with_ok (st_files_with st) per_file = true /\
     st_by_variant st = [(p, st_total st)]).
Proof.
  intros bat files. split; [intros ->; reflexivity|]. intro Hp.
  unfold create_simple_plan. destruct p as [|x p'] eqn:Ep; [congruence|]. rewrite <- Ep.
  eexists. eexists. split; [reflexivity|]. cbn [st_files_scanned st_total st_files_with st_by_variant].
  split; [rewrite map_map; reflexivity|]. split; [reflexivity|].
  unfold total_ok, files_with_ok. rewrite files_with_count, !Nat.eqb_refl. auto.
Qed.
End FileNow.
(* the inputs on which the code before the fix was refuted (module SimpleWitness below, now about process_file_content_lossy):
   the current function leaves those files out *)
Example non_utf8_files_are_left_out :
  SimplePlan.process_file_content (fun _ => false) [97%N] [122%N] false [255%N; 97%N] = ([], false) /\
  SimplePlan.process_file_content (fun _ => false) [98%N] [122%N] false [255%N; 98%N; 97%N; 97%N; 97%N; 97%N] = ([], false) /\
  SimplePlan.process_file_content (fun _ => false) [111%N; 108%N; 100%N] [110%N; 101%N; 119%N] false
    [99%N; 97%N; 102%N; 233%N; 32%N; 111%N; 108%N; 100%N; 10%N] = ([], false).
Proof. vm_compute. repeat split. Qed.




(* ------------------------------------------------------------------------------------------ *)
(* S8: witnesses: the hypotheses are satisfiable (non-vacuity), they are needed, and what is    *)
(*     FALSE of the code.  Every witness below was also run on the real planner                *)
(*     (harness op simple_plan_tree); the real output is the model's, field by field.           *)
(* ------------------------------------------------------------------------------------------ *)

Module SimpleWitness.
  Open Scope N_scope.
  Definition noex : bytes -> bool := fun _ => false.
  Definition hash_lines : bytes -> bool := fun l => is_prefix [35] l.          (* exclude-matching-lines '^#' *)
  Definition aa : bytes := [97; 97].
  Definition zzz : bytes := [90; 90; 90].
  (* "x aaa\r\nbb \xc3\xa9 aa\rq aa\n# aa\n\naaaa": CRLF, a lone CR inside line 2, non-ASCII text before a match,
     an excluded line, an empty line, overlapping candidates, no final newline *)
  Definition c0 : bytes :=
    [120;32;97;97;97;13;10; 98;98;32;195;169;32;97;97;13;113;32;97;97;10; 35;32;97;97;10; 10; 97;97;97;97].
  Definition hs0 := fst (process_file_content_lossy hash_lines aa zzz false c0).

  (* non-vacuity of MAIN 1-5: all hypotheses hold and the plan has five hunks on three lines *)
  Example main_hypotheses_hold :
    aa <> [] /\ utf8_ok aa = true /\ utf8_ok c0 = true /\ head_ok zzz = true /\
    (negb false && is_binary c0)%bool = false /\
    map (fun h => (fh_line h, fh_col h, fh_char h, fh_start h, fh_end h)) hs0 =
      [(1, 2, 2, 2, 4); (2, 6, 5, 13, 15); (2, 11, 10, 18, 20); (5, 0, 0, 27, 29); (5, 2, 2, 29, 31)]%nat /\
    file_consistent false c0 hs0 = true /\
    apply_edits_rev c0 (map edit_of_hunk hs0) =
      Ok [120;32;90;90;90;97;13;10; 98;98;32;195;169;32;90;90;90;13;113;32;90;90;90;10; 35;32;97;97;10; 10;
          90;90;90;90;90;90].
  Proof. split; [discriminate|]. vm_compute. repeat split; reflexivity. Qed.

  (* non-vacuity of MAIN 5: the occurrence of "aa" at offset 3 ("x aAA") is not reported and overlaps the match 2..4 *)
  Example complete_instance :
    (3 + length aa <= length c0)%nat /\ firstn (length aa) (skipn 3 c0) = aa /\
    hash_lines (strip_eol (line_at c0 3)) = false /\
    (col_of c0 3 + length aa <= length (strip_eol (line_at c0 3)))%nat.
  Proof. vm_compute. repeat split; try reflexivity; lia. Qed.

  (* non-vacuity of MAIN 7: the two hunks of line 2 of c0 *)
  Example preview_instance :
    exists seg_pre h0 hs seg_post, hs0 = seg_pre ++ (h0 :: hs) ++ seg_post /\ hs <> [] /\
      (forall h, In h hs -> fh_line h = fh_line h0) /\
      diff_after (h0 :: hs) = [98;98;32;195;169;32;90;90;90;13;113;32;90;90;90].
  Proof.
    exists (firstn 1 hs0), (nth 1 hs0 (mk_hunk false [] 0 0 [])), (firstn 1 (skipn 2 hs0)), (skipn 3 hs0).
    vm_compute. split; [reflexivity|]. split; [discriminate|]. split; [|reflexivity].
    intros h [<-|[]]. reflexivity.
  Qed.

  (* overlapping occurrences: "aaa" / "aa" gives ONE hunk (0..2); "aaaaa" gives 0..2 and 2..4 *)
  Example overlapping_occurrences :
    map (fun h => (fh_start h, fh_end h)) (fst (process_file_content_lossy noex aa zzz false [97;97;97])) = [(0, 2)]%nat /\
    map (fun h => (fh_start h, fh_end h)) (fst (process_file_content_lossy noex aa zzz false [97;97;97;97;97])) =
      [(0, 2); (2, 4)]%nat.
  Proof. vm_compute. auto. Qed.

  (* a lone '\r' is not a line break (for str::lines and for line_of alike); "\r\n" loses both bytes, "\r\r\n" keeps
     one '\r' in the line; a final line without '\n' keeps its '\r' *)
  Example line_splitting :
    str_lines [97;13;98;13;10;99;13;13;10;100;13] = [[97;13;98]; [99;13]; [100;13]].
  Proof. vm_compute. reflexivity. Qed.

  (* a pattern with '\n' never matches (each line is searched alone); one with '\r' matches inside a line only *)
  Example pattern_across_lines :
    fst (process_file_content_lossy noex [98;10;97] zzz false [97;98;10;97;98]) = [] /\
    fst (process_file_content_lossy noex [98;13] zzz false [97;98;13;10;97;98]) = [] /\
    map (fun h => (fh_start h, fh_end h)) (fst (process_file_content_lossy noex [98;13] zzz false [97;98;13;113;10])) =
      [(1, 3)]%nat.
  Proof. vm_compute. auto. Qed.

  (* byte column vs char column: "h\xc3\xa9llo h\xc3\xa9" / "\xc3\xa9": byte columns 1 and 8, char columns 1 and 7;
     a BOM counts 3 bytes / 1 char on line 1 *)
  Example byte_and_char_columns :
    map (fun h => (fh_col h, fh_char h))
        (fst (process_file_content_lossy noex [195;169] zzz false [104;195;169;108;108;111;32;104;195;169])) =
      [(1, 1); (8, 7)]%nat /\
    map (fun h => (fh_line h, fh_col h, fh_char h, fh_start h))
        (fst (process_file_content_lossy noex [97;98] zzz false [239;187;191;97;98;10;97;98])) =
      [(1, 3, 1, 3); (2, 0, 0, 6)]%nat.
  Proof. vm_compute. auto. Qed.

  (* binary detection: NUL among the first 1024 bytes or %PDF => skipped; a UTF-16 BOM makes the file "text" *)
  Example binary_files :
    process_file_content_lossy noex [97] zzz false [97;0;97] = ([], false) /\
    process_file_content_lossy noex [97] zzz false [37;80;68;70;32;97] = ([], false) /\
    map (fun h => (fh_start h, fh_end h)) (fst (process_file_content_lossy noex [97] zzz false [255;254;97;0])) = [(6, 7)]%nat /\
    map (fun h => (fh_start h, fh_end h)) (fst (process_file_content_lossy noex [97] zzz true [97;0;97])) = [(0, 1); (2, 3)]%nat.
  Proof. vm_compute. auto. Qed.

  (* the empty pattern is rejected before any file is read *)
  Example empty_pattern : create_simple_plan noex [] zzz false [[97]] = None.
  Proof. reflexivity. Qed.

  (* REFUTED for files that are not valid UTF-8 (the guard [utf8_ok c] of MAIN 1/3/4 is needed): the recorded offsets
     are offsets into the lossily DECODED text (scanner.rs:1295), where every ill-formed sequence takes 3 bytes.
     "\xffa" / "a": the hunk 3..4 lies outside the 2-byte file.  Real planner: start 3, end 4 as well. *)
  Theorem simple_plan_span_within_file_refuted : exists c p repl h,
    p <> [] /\ utf8_ok p = true /\ In h (fst (process_file_content_lossy noex p repl false c)) /\
    (length c < fh_end h)%nat.
  Proof.
    exists [255;97], [97], [82]. eexists. split; [discriminate|]. split; [reflexivity|].
    split; [left; reflexivity|]. vm_compute. lia.
  Qed.

  (* "\xffbaaaa" / "b": the hunk 3..4 is inside the file, but the file has "a" there, not "b" *)
  Theorem simple_plan_content_at_offsets_refuted : exists c p repl h,
    p <> [] /\ utf8_ok p = true /\ In h (fst (process_file_content_lossy noex p repl false c)) /\
    (fh_end h <= length c)%nat /\
    firstn (fh_end h - fh_start h) (skipn (fh_start h) c) <> fh_content h.
  Proof.
    exists [255;98;97;97;97;97], [98], [82]. eexists. split; [discriminate|]. split; [reflexivity|].
    split; [left; reflexivity|]. vm_compute. split; [lia|discriminate].
  Qed.

  (* a Latin-1 file "caf\xe9 old\n" / "old" -> "new": the plan (7..10, line_before "caf\xef\xbf\xbd old") is not
     consistent with the 9-byte file, is not a well-formed edit list for it, and the splice loop rejects it; it IS
     consistent with the decoded text (simple_plan_consistent_decoded) *)
  Theorem simple_plan_consistent_refuted : exists c p repl,
    p <> [] /\ utf8_ok p = true /\ head_ok repl = true /\
    fst (process_file_content_lossy noex p repl false c) <> [] /\
    file_consistent false c (fst (process_file_content_lossy noex p repl false c)) = false /\
    wf_edits c (map edit_of_hunk (fst (process_file_content_lossy noex p repl false c))) = false /\
    apply_edits_rev c (map edit_of_hunk (fst (process_file_content_lossy noex p repl false c))) = Mismatch.
  Proof.
    exists [99;97;102;233;32;111;108;100;10], [111;108;100], [110;101;119].
    split; [discriminate|]. vm_compute. repeat split; try reflexivity. discriminate.
  Qed.

  (* the hypothesis [utf8_ok p] of MAIN 3/4 is needed in the model (a pattern that is a lone continuation byte matches
     inside a character); it cannot be violated from Rust, where the pattern is a &str *)
  Example pattern_must_be_utf8 :
    file_consistent false [195;169] (fst (process_file_content_lossy noex [169] zzz false [195;169])) = false.
  Proof. vm_compute. reflexivity. Qed.
End SimpleWitness.

Print Assumptions simple_plan_file_cases.
Print Assumptions simple_plan_hunks_decoded.
Print Assumptions simple_plan_hunks.
Print Assumptions simple_plan_sorted.
Print Assumptions simple_plan_pairwise_disjoint.
Print Assumptions simple_plan_consistent_decoded.
Print Assumptions simple_plan_consistent.
Print Assumptions simple_plan_applies.
Print Assumptions simple_plan_complete.
Print Assumptions create_simple_plan_spec.
Print Assumptions simple_plan_preview.
Print Assumptions lossy_is_utf8.
Print Assumptions lossy_of_utf8.
Print Assumptions SimpleWitness.simple_plan_span_within_file_refuted.
Print Assumptions SimpleWitness.simple_plan_content_at_offsets_refuted.
Print Assumptions SimpleWitness.simple_plan_consistent_refuted.
Print Assumptions simple_plan_now_hunks.
Print Assumptions simple_plan_now_sorted.
Print Assumptions simple_plan_now_consistent.
Print Assumptions simple_plan_now_applies.
Print Assumptions simple_plan_now_preview.
Print Assumptions simple_plan_now_complete.
Print Assumptions create_simple_plan_spec.
