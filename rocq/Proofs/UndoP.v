(* Proofs/UndoP.v — the two reversal stages of undo (directories, shallowest recorded destination
   first; then files) are the inverse of the rename stage of apply: at path level
   (run_steps (undo_steps rs) (final_path rs q) = q) and on the tree (both stages succeed on the
   tree the rename stage produced, and give back the original tree).
   Stdlib only, no axioms. *)
From Coq Require Import List Arith Lia Bool Permutation Sorted.
From RN Require Import Base.Bytes Model.Edits Model.Fs Model.ApplyModel Model.UndoModel
  Proofs.RenameP Proofs.RenameP2.
Import ListNotations.

(* ------------------------------------------------------------------------------------ *)
(* The stable insertion sort of UndoModel                                              *)
(* ------------------------------------------------------------------------------------ *)

Lemma ins_by_perm {A} (key : A -> nat) asc x l : Permutation (x :: l) (ins_by key asc x l).
Proof.
  induction l as [|y l IH]; cbn [ins_by]; [apply Permutation_refl|]. cbn zeta.
  destruct (if asc then Nat.ltb (key y) (key x) else Nat.ltb (key x) (key y)); [|apply Permutation_refl].
  eapply Permutation_trans; [apply perm_swap|]. apply perm_skip. exact IH.
Qed.

Lemma sort_by_perm {A} (key : A -> nat) asc l : Permutation (sort_by key asc l) l.
Proof.
  unfold sort_by. induction l as [|x l IH]; cbn [fold_right]; [apply Permutation_refl|].
  eapply Permutation_trans; [apply Permutation_sym, ins_by_perm|]. apply perm_skip. exact IH.
Qed.

Lemma ins_by_map {A B} (g : A -> B) (key : B -> nat) asc x l :
  ins_by key asc (g x) (map g l) = map g (ins_by (fun a => key (g a)) asc x l).
Proof.
  induction l as [|y l IH]; cbn [ins_by map]; [reflexivity|]. cbn zeta.
  destruct (if asc then Nat.ltb (key (g y)) (key (g x)) else Nat.ltb (key (g x)) (key (g y)));
    cbn [map]; [rewrite IH|]; reflexivity.
Qed.

Lemma sort_by_map {A B} (g : A -> B) (key : B -> nat) asc l :
  sort_by key asc (map g l) = map g (sort_by (fun a => key (g a)) asc l).
Proof.
  unfold sort_by. induction l as [|x l IH]; cbn [fold_right map]; [reflexivity|].
  rewrite IH. apply ins_by_map.
Qed.

Definition key_le {A} (key : A -> nat) (a b : A) : Prop := (key a <= key b)%nat.

Lemma ins_by_asc_sorted {A} (key : A -> nat) x l :
  StronglySorted (key_le key) l -> StronglySorted (key_le key) (ins_by key true x l).
Proof.
  induction l as [|y l IH]; intro S; cbn [ins_by].
  - constructor; constructor.
  - cbn zeta. apply StronglySorted_inv in S as [S F]. destruct (Nat.ltb (key y) (key x)) eqn:E.
    + apply Nat.ltb_lt in E. constructor; [apply IH; exact S|].
      apply Forall_forall. intros z Hz.
      apply (Permutation_in _ (Permutation_sym (ins_by_perm key true x l))) in Hz.
      destruct Hz as [<- | Hz]; [unfold key_le; lia|]. rewrite Forall_forall in F. apply F. exact Hz.
    + apply Nat.ltb_ge in E. constructor; [constructor; assumption|].
      constructor; [exact E|]. rewrite Forall_forall in *. intros z Hz.
      specialize (F z Hz). unfold key_le in *. lia.
Qed.

Lemma sort_by_asc_sorted {A} (key : A -> nat) l : StronglySorted (key_le key) (sort_by key true l).
Proof.
  unfold sort_by. induction l as [|x l IH]; cbn [fold_right]; [constructor|].
  apply ins_by_asc_sorted. exact IH.
Qed.

Lemma filter_split_perm {A} (f : A -> bool) l :
  Permutation (filter f l ++ filter (fun x => negb (f x)) l) l.
Proof.
  induction l as [|x l IH]; cbn [filter]; [apply Permutation_refl|].
  destruct (f x); cbn [negb app].
  - apply perm_skip. exact IH.
  - eapply Permutation_trans; [apply Permutation_sym, Permutation_middle|]. apply perm_skip. exact IH.
Qed.

Lemma StronglySorted_app {A} (R : A -> A -> Prop) l1 l2 :
  StronglySorted R l1 -> StronglySorted R l2 ->
  (forall a b, In a l1 -> In b l2 -> R a b) -> StronglySorted R (l1 ++ l2).
Proof.
  induction l1 as [|x l1 IH]; intros S1 S2 C; [exact S2|]. cbn [app].
  apply StronglySorted_inv in S1 as [S1 F]. constructor.
  - apply IH; [exact S1|exact S2|]. intros a b Ia Ib. apply C; [right; exact Ia|exact Ib].
  - apply Forall_forall. intros z Hz. apply in_app_or in Hz as [Hz|Hz].
    + rewrite Forall_forall in F. apply F. exact Hz.
    + apply C; [left; reflexivity|exact Hz].
Qed.

Lemma StronglySorted_weaken {A} (R R' : A -> A -> Prop) l :
  (forall a b, In a l -> In b l -> R a b -> R' a b) -> StronglySorted R l -> StronglySorted R' l.
Proof.
  induction l as [|x l IH]; intros W S; [constructor|].
  apply StronglySorted_inv in S as [S F]. constructor.
  - apply IH; [|exact S]. intros a b Ia Ib. apply W; right; assumption.
  - rewrite Forall_forall in *. intros z Hz. apply W; [left; reflexivity|right; exact Hz|]. apply F. exact Hz.
Qed.

(* ------------------------------------------------------------------------------------ *)
(* The order in which undo reverts the renames                                         *)
(* ------------------------------------------------------------------------------------ *)

Definition is_file (r : aren) : bool := negb (ar_dir r).

(* file renames, in the order undo reverts them *)
Definition undo_file_rens (rs : list aren) : list aren :=
  sort_by (fun r => length (ar_new r)) false (filter is_file rs).

(* all renames, in the order undo reverts them *)
Definition undo_order (rs : list aren) : list aren := undo_dirs rs ++ undo_file_rens rs.

Definition back (r : aren) : path * path := (ar_new r, ar_path r).

(* [b] (reverted later) is not strictly above [a] (reverted earlier) *)
Definition not_above (a b : aren) : Prop := proper_prefix (ar_path b) (ar_path a) = false.

(* the ordering property the proof uses: when a rename is reverted, no rename that is still to
   be reverted has its source strictly above *)
Definition ord (U : list aren) : Prop := StronglySorted not_above U.

Lemma undo_order_perm rs : Permutation (undo_order rs) rs.
Proof.
  unfold undo_order, undo_dirs, undo_file_rens.
  eapply Permutation_trans; [|apply (filter_split_perm ar_dir)].
  apply Permutation_app; apply sort_by_perm.
Qed.

Lemma NoDup_map_inj {A B} (f : A -> B) l a b :
  NoDup (map f l) -> In a l -> In b l -> f a = f b -> a = b.
Proof.
  induction l as [|x l IH]; intros N Ia Ib E; [contradiction|].
  cbn in N. inversion N as [|? ? Nx N']; subst. destruct Ia as [-> | Ia], Ib as [-> | Ib].
  - reflexivity.
  - exfalso. apply Nx. rewrite E. apply in_map. exact Ib.
  - exfalso. apply Nx. rewrite <- E. apply in_map. exact Ia.
  - apply IH; assumption.
Qed.

Lemma shape_new_ne r : shape r -> ar_new r <> [].
Proof.
  intros [A [_ B]] Z. rewrite Z in B. cbn in B. destruct (ar_path r); [contradiction|discriminate].
Qed.

(* the re-basing of a file's recorded destination on the directory mappings never changes it *)
Lemma undo_file_pair_id rs dirs r :
  wf_base rs -> (forall d, In d dirs -> In d rs /\ ar_dir d = true) ->
  In r rs -> ar_dir r = false ->
  undo_file_pair dirs r = (ar_path r, ar_new r).
Proof.
  intros [S N I D] Hd Ir Fr. unfold undo_file_pair. f_equal.
  assert (G : forall acc, acc = ar_new r ->
            fold_left (fun acc d => if path_prefix (ar_new d) (ar_new r)
                                    then ar_path d ++ skipn (length (ar_new d)) (ar_new r) else acc)
                      dirs acc = ar_new r); [|apply G; reflexivity].
  induction dirs as [|d dirs IH]; intros acc ->; [reflexivity|]. cbn [fold_left].
  apply IH; [intros x Ix; apply Hd; right; exact Ix|].
  destruct (path_prefix (ar_new d) (ar_new r)) eqn:P; [|reflexivity].
  destruct (Hd d (or_introl eq_refl)) as [Id Dd].
  destruct (list_eq_dec (list_eq_dec N.eq_dec) (ar_new d) (ar_path d)) as [Q|Q].
  - rewrite <- Q. apply path_prefix_spec in P as [t P]. rewrite P, skipn_app_len. reflexivity.
  - exfalso. destruct (shape_snoc r (S r Ir)) as [s0 [c [n [E1 [E2 _]]]]].
    apply path_prefix_spec in P as [t P]. rewrite E2 in P.
    destruct (snoc_cases t) as [-> | [t' [x ->]]].
    + rewrite app_nil_r in P. rewrite <- E2 in P. symmetry in P.
      pose proof (I d r Id Ir P) as X.
      pose proof (NoDup_map_inj ar_path rs d r N Id Ir X) as Y. subst d. congruence.
    + rewrite app_assoc in P. apply app_inj_tail in P as [P _].
      pose proof (D d r Id Ir Q) as X. rewrite E1, P, <- app_assoc, path_prefix_app in X. discriminate.
Qed.

Lemma undo_dirs_in rs d : In d (undo_dirs rs) -> In d rs /\ ar_dir d = true.
Proof.
  unfold undo_dirs. intro H. apply (Permutation_in _ (sort_by_perm _ _ _)) in H.
  apply filter_In in H. exact H.
Qed.

Lemma undo_file_rens_in rs r : In r (undo_file_rens rs) -> In r rs /\ ar_dir r = false.
Proof.
  unfold undo_file_rens. intro H. apply (Permutation_in _ (sort_by_perm _ _ _)) in H.
  apply filter_In in H as [H1 H2]. split; [exact H1|]. unfold is_file in H2.
  apply negb_true_iff in H2. exact H2.
Qed.

Lemma undo_files_eq rs : wf_base rs ->
  undo_files rs = map (fun r => (ar_path r, ar_new r)) (undo_file_rens rs).
Proof.
  intro B. unfold undo_files, undo_file_rens.
  rewrite (map_ext_in (undo_file_pair (undo_dirs rs)) (fun r => (ar_path r, ar_new r))).
  - rewrite sort_by_map. reflexivity.
  - intros r Ir. apply filter_In in Ir as [Ir Fr]. apply negb_true_iff in Fr.
    apply (undo_file_pair_id rs); auto. apply undo_dirs_in.
Qed.

Theorem undo_steps_eq rs : wf_base rs -> undo_steps rs = map back (undo_order rs).
Proof.
  intro B. unfold undo_steps, undo_order. rewrite (undo_files_eq rs B), map_app, map_map. reflexivity.
Qed.

Lemma undo_order_ord rs : wf_renames rs -> ord (undo_order rs).
Proof.
  intros [[S N I D] W]. unfold ord, undo_order.
  assert (Fl : forall a b, In b rs -> In a rs -> ar_dir b = false -> not_above a b).
  { intros a b Ib Ia Fb. unfold not_above.
    destruct (proper_prefix (ar_path b) (ar_path a)) eqn:P; [|reflexivity].
    rewrite (W b a Ib Ia P) in Fb. discriminate. }
  apply StronglySorted_app.
  - unfold undo_dirs.
    eapply StronglySorted_weaken; [|apply sort_by_asc_sorted].
    intros a b Ia Ib L. fold (undo_dirs rs) in Ia, Ib.
    apply undo_dirs_in in Ia as [Ia _]. apply undo_dirs_in in Ib as [Ib _].
    unfold key_le in L. unfold not_above.
    destruct (proper_prefix (ar_path b) (ar_path a)) eqn:P; [|reflexivity].
    apply proper_prefix_length in P. destruct (S a Ia) as [_ [_ La]]. destruct (S b Ib) as [_ [_ Lb]]. lia.
  - assert (G : forall l, (forall x, In x l -> In x rs /\ ar_dir x = false) -> StronglySorted not_above l).
    { induction l as [|x l IH]; intro H; [constructor|]. constructor.
      - apply IH. intros y Iy. apply H. right. exact Iy.
      - apply Forall_forall. intros y Iy. destruct (H y (or_intror Iy)) as [Y1 Y2].
        destruct (H x (or_introl eq_refl)) as [X1 _]. apply Fl; assumption. }
    apply G. apply undo_file_rens_in.
  - intros a b Ia Ib. apply undo_dirs_in in Ia as [Ia _]. apply undo_file_rens_in in Ib as [Ib Fb].
    apply Fl; assumption.
Qed.

(* ------------------------------------------------------------------------------------ *)
(* Reverting one rename (path level)                                                   *)
(* ------------------------------------------------------------------------------------ *)

Lemma new_name_of_cons u R p :
  new_name_of (u :: R) p = if path_eqb (ar_path u) p then Some (last (ar_new u) []) else new_name_of R p.
Proof. unfold new_name_of. cbn [find]. destruct (path_eqb (ar_path u) p); reflexivity. Qed.

Lemma wf_base_tail u R : wf_base (u :: R) -> wf_base R.
Proof.
  intro B. apply (wf_base_app_l R [u]). eapply wf_base_perm; [|exact B].
  change (u :: R) with ([u] ++ R). apply Permutation_app_comm.
Qed.

Section Unstep.
  Variables (u : aren) (R : list aren).
  Hypothesis B : wf_base (u :: R).
  (* no rename still to be reverted has its source strictly above the source of [u] *)
  Hypothesis Habove : forall r, In r R -> proper_prefix (ar_path r) (ar_path u) = false.

  Lemma un_src_ne r : In r R -> ar_path r <> ar_path u.
  Proof.
    intros Ir E. pose proof (wb_nodup _ B) as N. cbn in N. inversion N as [|? ? Nx _]; subst.
    apply Nx. rewrite <- E. apply in_map. exact Ir.
  Qed.

  (* nothing at or above the parent of the source is renamed any more *)
  Lemma un_above_fixed L a b :
    (forall r, In r L -> In r (u :: R)) -> ar_path u = a ++ b -> b <> [] -> final_path L a = a.
  Proof.
    intros Sub E Nb. unfold final_path. apply final_from_id. intros t1 t2 -> N1. cbn [app].
    apply new_name_of_none. intros r Ir Er. destruct (Sub r Ir) as [<- | IR].
    - rewrite Er in E. rewrite <- (app_nil_r t1) in E at 1. rewrite <- !app_assoc in E.
      apply app_inv_head in E. symmetry in E. apply app_eq_nil in E as [_ E]. contradiction.
    - pose proof (Habove r IR) as X.
      assert (proper_prefix (ar_path r) (ar_path u) = true); [|congruence].
      apply proper_prefix_spec. exists (t2 ++ b). split.
      + intro Z. apply app_eq_nil in Z as [_ Z]. contradiction.
      + rewrite E, Er, <- app_assoc. reflexivity.
  Qed.

  Lemma un_from_tail t : final_from (u :: R) (ar_path u) t = final_from R (ar_path u) t.
  Proof.
    apply final_from_ext. intros t1 t2 _ N1. rewrite new_name_of_cons.
    destruct (path_eqb (ar_path u) (ar_path u ++ t1)) eqn:E; [|reflexivity].
    apply path_eqb_eq in E. rewrite <- (app_nil_r (ar_path u)) in E at 1.
    apply app_inv_head in E. symmetry in E. contradiction.
  Qed.

  Lemma un_hit t : final_path (u :: R) (ar_path u ++ t) = ar_new u ++ final_from R (ar_path u) t.
  Proof.
    destruct (shape_snoc u (wb_shape _ B u (or_introl eq_refl))) as [s0 [c [n [E1 [E2 E3]]]]].
    rewrite final_path_app, un_from_tail. f_equal.
    rewrite E1, final_path_snoc, E2. f_equal.
    - apply (un_above_fixed (u :: R) s0 [c]); [auto|exact E1|discriminate].
    - f_equal. unfold nm. rewrite new_name_of_cons, <- E1, path_eqb_refl. congruence.
  Qed.

  Lemma un_hit_tail t : final_path R (ar_path u ++ t) = ar_path u ++ final_from R (ar_path u) t.
  Proof.
    destruct (shape_snoc u (wb_shape _ B u (or_introl eq_refl))) as [s0 [c [n [E1 [E2 E3]]]]].
    rewrite final_path_app. f_equal.
    rewrite E1, final_path_snoc. f_equal.
    - apply (un_above_fixed R s0 [c]); [intros; right; assumption|exact E1|discriminate].
    - f_equal. unfold nm.
      assert (X : new_name_of R (s0 ++ [c]) = None).
      { apply new_name_of_none. intros r Ir E. apply (un_src_ne r Ir). congruence. }
      rewrite X. reflexivity.
  Qed.

  Lemma un_miss q : path_prefix (ar_path u) q = false -> final_path (u :: R) q = final_path R q.
  Proof.
    intro H. unfold final_path. apply final_from_ext. intros t1 t2 -> N1. cbn [app].
    rewrite new_name_of_cons. destruct (path_eqb (ar_path u) t1) eqn:E; [|reflexivity].
    apply path_eqb_eq in E. subst t1. rewrite path_prefix_app in H. discriminate.
  Qed.

  Lemma un_new_fixed : final_path R (ar_new u) = ar_new u.
  Proof.
    destruct (shape_snoc u (wb_shape _ B u (or_introl eq_refl))) as [s0 [c [n [E1 [E2 E3]]]]].
    rewrite E2, final_path_snoc. f_equal.
    - apply (un_above_fixed R s0 [c]); [intros; right; assumption|exact E1|discriminate].
    - f_equal. unfold nm.
      assert (X : new_name_of R (s0 ++ [n]) = None).
      { apply new_name_of_none. intros r Ir E.
        destruct (list_eq_dec (list_eq_dec N.eq_dec) (ar_new u) (ar_path u)) as [Q|Q].
        - apply (un_src_ne r Ir). congruence.
        - pose proof (wb_dest_src _ B u r (or_introl eq_refl) (or_intror Ir) Q) as Y.
          rewrite E, <- E2, path_prefix_refl in Y. discriminate. }
      rewrite X. reflexivity.
  Qed.

  Lemma un_avoids_new : avoids R (ar_new u).
  Proof.
    intros r Ir Q. destruct (path_prefix (ar_new r) (ar_new u)) eqn:P; [exfalso|reflexivity].
    destruct (shape_snoc u (wb_shape _ B u (or_introl eq_refl))) as [s0 [c [n [E1 [E2 E3]]]]].
    apply path_prefix_spec in P as [t P]. rewrite E2 in P.
    destruct (snoc_cases t) as [-> | [t' [x ->]]].
    - rewrite app_nil_r, <- E2 in P. symmetry in P.
      apply (un_src_ne r Ir). apply (wb_dest_inj _ B); [right; exact Ir|left; reflexivity|exact P].
    - rewrite app_assoc in P. apply app_inj_tail in P as [P _].
      pose proof (wb_dest_src _ B r u (or_intror Ir) (or_introl eq_refl) Q) as Y.
      rewrite E1, P, <- app_assoc, path_prefix_app in Y. discriminate.
  Qed.

  (* reverting [u] takes the current location of q under (u :: R) to its location under R *)
  Lemma unstep q : avoids (u :: R) q ->
    rebase (ar_new u) (ar_path u) (final_path (u :: R) q) = final_path R q.
  Proof.
    intro A. destruct (path_prefix (ar_path u) q) eqn:P.
    - apply path_prefix_spec in P as [t ->]. rewrite un_hit, rebase_hit, un_hit_tail. reflexivity.
    - rewrite (un_miss q P). apply rebase_miss.
      destruct (path_prefix (ar_new u) (final_path R q)) eqn:X; [exfalso|reflexivity].
      rewrite <- un_new_fixed in X.
      pose proof (wf_base_tail _ _ B) as [S1 _ I1 _].
      apply (final_path_inj_prefix R S1 I1) in X.
      + destruct (list_eq_dec (list_eq_dec N.eq_dec) (ar_new u) (ar_path u)) as [Q|Q].
        * rewrite Q in X. congruence.
        * rewrite (A u (or_introl eq_refl) Q) in X. discriminate.
      + apply un_avoids_new.
      + eapply avoids_sub; [|exact A]. intros x Ix. right. exact Ix.
  Qed.
End Unstep.

(* ------------------------------------------------------------------------------------ *)
(* B1: the renames undo issues invert final_path                                       *)
(* ------------------------------------------------------------------------------------ *)

Lemma run_back_inverts U : wf_base U -> ord U ->
  forall q, avoids U q -> run_steps (map back U) (final_path U q) = q.
Proof.
  induction U as [|u U IH]; intros B O q A.
  - apply final_path_no_renames.
  - apply StronglySorted_inv in O as [O F]. rewrite Forall_forall in F.
    cbn [map]. unfold run_steps. cbn [fold_left]. unfold back at 2 3. cbn [fst snd].
    rewrite (unstep u U B F q A). apply IH; [eapply wf_base_tail; exact B|exact O|].
    eapply avoids_sub; [|exact A]. intros x Ix. right. exact Ix.
Qed.

Theorem undo_steps_invert_final_path : forall rs q,
  wf_renames rs -> avoids rs q ->
  run_steps (undo_steps rs) (final_path rs q) = q.
Proof.
  intros rs q W A. pose proof (wf_b _ W) as B.
  rewrite (undo_steps_eq rs B).
  rewrite (final_path_perm rs (undo_order rs) q (Permutation_sym (undo_order_perm rs)) (wb_nodup _ B)).
  apply run_back_inverts.
  - eapply wf_base_perm; [apply Permutation_sym, undo_order_perm|exact B].
  - apply undo_order_ord. exact W.
  - eapply avoids_sub; [|exact A]. intros x Ix. eapply Permutation_in; [apply undo_order_perm|exact Ix].
Qed.

(* apply followed by undo, at path level *)
Corollary apply_then_undo_steps : forall rs q,
  wf_renames rs -> avoids rs q ->
  run_steps (stage_steps (sort_renames rs) [] ++ undo_steps rs) q = q.
Proof.
  intros rs q W A. unfold run_steps. rewrite fold_left_app. fold (run_steps (stage_steps (sort_renames rs) []) q).
  rewrite (rename_stage_reaches_final_path rs q W A). apply undo_steps_invert_final_path; assumption.
Qed.

(* ------------------------------------------------------------------------------------ *)
(* Reverting one rename on the tree                                                    *)
(* ------------------------------------------------------------------------------------ *)

(* what the tree has to do with the renames still to be reverted; stable under taking tails *)
Record fits (t : fs) (L : list aren) : Prop := {
  ft_keys : forall k, In k (map fst t) -> avoids L k;
  ft_src : forall r, In r L -> exists n, lookup t (ar_path r) = Some n /\ dirnode n = ar_dir r;
  ft_chain : forall r, In r L -> forall a b, ar_path r = a ++ b -> a <> [] -> b <> [] ->
                                  exists m, lookup t a = Some (Dir m)
}.

Lemma fits_sub t L L' : (forall x, In x L' -> In x L) -> fits t L -> fits t L'.
Proof.
  intros Sub [K S C]. split.
  - intros k Ik. eapply avoids_sub; [exact Sub|]. apply K. exact Ik.
  - intros r Ir. apply S. apply Sub. exact Ir.
  - intros r Ir. apply C. apply Sub. exact Ir.
Qed.

Lemma rebase_same x p : rebase x x p = p.
Proof.
  unfold rebase. destruct (path_prefix x p) eqn:P; [|reflexivity].
  apply path_prefix_spec in P as [t ->]. rewrite skipn_app_len. reflexivity.
Qed.

(* rename(2) of an existing entry onto itself *)
Lemma rename_fs_same x t :
  x <> [] -> lookup t x <> None -> is_dir t (parent x) = true -> rename_fs x x t = FOk t.
Proof.
  intros Nx Hl Hp. unfold rename_fs. destruct x as [|c x]; [contradiction|].
  destruct (lookup t (c :: x)); [|contradiction]. rewrite Hp, path_eqb_refl. reflexivity.
Qed.

Lemma mapF_nil t : mapF [] t = t.
Proof.
  unfold mapF. rewrite <- (map_id t) at 2. apply map_ext. intros [k n]. cbn [fst snd].
  rewrite final_path_no_renames. reflexivity.
Qed.

Lemma mapF_perm L L' t : Permutation L L' -> NoDup (map ar_path L) -> mapF L t = mapF L' t.
Proof.
  intros P N. unfold mapF. apply map_ext. intros [k n]. cbn [fst snd]. f_equal.
  apply final_path_perm; assumption.
Qed.

Section FsUnstep.
  Variables (u : aren) (R : list aren) (t : fs).
  Hypothesis B : wf_base (u :: R).
  Hypothesis Habove : forall r, In r R -> proper_prefix (ar_path r) (ar_path u) = false.
  Hypothesis Ft : fits t (u :: R).

  Let Iu : In u (u :: R) := or_introl eq_refl.

  Lemma fu_src_avoids : avoids (u :: R) (ar_path u).
  Proof.
    destruct (ft_src _ _ Ft u Iu) as [n [Hn _]]. apply (ft_keys _ _ Ft). eapply lookup_some_in. exact Hn.
  Qed.

  Lemma fu_new_is_final : ar_new u = final_path (u :: R) (ar_path u).
  Proof.
    pose proof (un_hit u R B Habove []) as H. cbn [final_from] in H. rewrite !app_nil_r in H.
    symmetry. exact H.
  Qed.

  (* the recorded destination holds the node that was at the source *)
  Lemma fs_un_lookup : lookup (mapF (u :: R) t) (ar_new u) = lookup t (ar_path u).
  Proof.
    rewrite fu_new_is_final. apply lookup_mapF.
    - apply (wb_shape _ B).
    - apply (wb_dest_inj _ B).
    - apply (ft_keys _ _ Ft).
    - apply fu_src_avoids.
  Qed.

  Lemma fs_unstep : rename_fs (ar_new u) (ar_path u) (mapF (u :: R) t) = FOk (mapF R t).
  Proof.
    pose proof (wb_shape _ B) as S. pose proof (wb_dest_inj _ B) as I.
    pose proof (ft_keys _ _ Ft) as K.
    destruct (shape_snoc u (S u Iu)) as [s0 [c [n [E1 [E2 E3]]]]].
    pose proof fu_src_avoids as Au.
    assert (As0 : avoids (u :: R) s0). { eapply avoids_app_l. rewrite <- E1. exact Au. }
    assert (Fs0 : final_path (u :: R) s0 = s0).
    { apply (un_above_fixed u R Habove (u :: R) s0 [c]); [auto|exact E1|discriminate]. }
    assert (Hsrc : lookup (mapF (u :: R) t) (ar_new u) <> None).
    { rewrite fs_un_lookup. destruct (ft_src _ _ Ft u Iu) as [m [Hm _]]. congruence. }
    assert (Hdir : is_dir (mapF (u :: R) t) (parent (ar_path u)) = true).
    { rewrite E1. unfold parent. rewrite removelast_last. rewrite <- Fs0.
      apply (is_dir_mapF (u :: R) t s0 S I K As0).
      destruct s0 as [|c0 s0']; [left; reflexivity|right].
      apply (ft_chain _ _ Ft u Iu (c0 :: s0') [c] E1); discriminate. }
    assert (Hmap : map (fun e => (rebase (ar_new u) (ar_path u) (fst e), snd e)) (mapF (u :: R) t)
                   = mapF R t).
    { unfold mapF. rewrite map_map. cbn [fst snd]. apply map_ext_in.
      intros [k m] Ik. cbn [fst snd]. f_equal. apply (unstep u R B Habove).
      apply K. apply in_map_iff. exists (k, m). auto. }
    destruct (list_eq_dec (list_eq_dec N.eq_dec) (ar_new u) (ar_path u)) as [Hid|Hne].
    { (* an identity rename: rename(2) onto itself, and the tree is already the target tree *)
      rewrite <- Hmap. rewrite Hid in *. rewrite rename_fs_same; [|apply (S u Iu)|exact Hsrc|exact Hdir].
      f_equal. rewrite <- (map_id (mapF (u :: R) t)) at 1. apply map_ext. intros [k m]. cbn [fst snd].
      rewrite rebase_same. reflexivity. }
    rewrite rename_fs_free.
    - f_equal. exact Hmap.
    - apply shape_new_ne. apply S. exact Iu.
    - apply (S u Iu).
    - exact Hsrc.
    - exact Hdir.
    - destruct (path_prefix (ar_new u) (ar_path u)) eqn:P; [|reflexivity].
      apply path_prefix_same_length in P; [contradiction|]. apply (S u Iu).
    - apply lookup_none. intros k' Ik' E. apply mapF_keys in Ik' as [k [Ik ->]].
      destruct (snoc_cases k) as [-> | [k0 [c' ->]]].
      { rewrite E1 in E. apply (f_equal (@length _)) in E. rewrite app_length in E. cbn in E. lia. }
      rewrite final_path_snoc, E1 in E. apply app_inj_tail in E as [Ea Eb].
      rewrite <- Fs0 in Ea.
      apply (final_path_inj_eq (u :: R) S I) in Ea; [|eapply avoids_app_l; apply K; exact Ik|exact As0].
      subst k0. unfold nm in Eb.
      destruct (new_name_of (u :: R) (s0 ++ [c'])) as [n'|] eqn:N.
      + subst n'. apply (new_name_dest (u :: R) S) in N as [r1 [Ir1 [P1 D1]]].
        destruct (list_eq_dec (list_eq_dec N.eq_dec) (ar_new r1) (ar_path r1)) as [Q|Q].
        * assert (X : ar_path r1 = ar_path u) by congruence.
          pose proof (NoDup_map_inj ar_path (u :: R) r1 u (wb_nodup _ B) Ir1 Iu X) as Y.
          subst r1. contradiction.
        * pose proof (wb_dest_src _ B r1 u Ir1 Iu Q) as Y. rewrite D1, E1, path_prefix_refl in Y.
          discriminate.
      + subst c'. rewrite new_name_of_none in N. apply (N u Iu). exact E1.
  Qed.
End FsUnstep.

(* ------------------------------------------------------------------------------------ *)
(* The two stages on the tree                                                          *)
(* ------------------------------------------------------------------------------------ *)

Lemma ord_tail u U : ord (u :: U) ->
  (forall r, In r U -> proper_prefix (ar_path r) (ar_path u) = false) /\ ord U.
Proof.
  intro O. apply StronglySorted_inv in O as [O F]. rewrite Forall_forall in F. split; [exact F|exact O].
Qed.

Lemma undo_dir_stage_ok D : forall F t,
  wf_base (D ++ F) -> ord (D ++ F) -> fits t (D ++ F) ->
  (forall d, In d D -> ar_dir d = true) ->
  undo_dir_stage D (mapF (D ++ F) t) = FOk (mapF F t).
Proof.
  induction D as [|d D IH]; intros F t B O Ft Hd; [reflexivity|].
  cbn [app] in *. destruct (ord_tail _ _ O) as [Ab O'].
  cbn [undo_dir_stage]. unfold exists_follow. rewrite (fs_un_lookup d (D ++ F) t B Ab Ft).
  destruct (ft_src _ _ Ft d (or_introl eq_refl)) as [n [Hn Dn]]. rewrite Hn.
  rewrite (Hd d (or_introl eq_refl)) in Dn. destruct n as [| m |]; try discriminate.
  rewrite (fs_unstep d (D ++ F) t B Ab Ft).
  apply IH; [eapply wf_base_tail; exact B|exact O'| |intros x Ix; apply Hd; right; exact Ix].
  eapply fits_sub; [|exact Ft]. intros x Ix. right. exact Ix.
Qed.

Lemma undo_file_stage_ok F : forall t,
  wf_base F -> ord F -> fits t F ->
  undo_file_stage (map (fun r => (ar_path r, ar_new r)) F) (mapF F t) = FOk t.
Proof.
  induction F as [|r F IH]; intros t B O Ft.
  - cbn [map undo_file_stage]. rewrite mapF_nil. reflexivity.
  - destruct (ord_tail _ _ O) as [Ab O'].
    cbn [map undo_file_stage]. unfold lexists. rewrite (fs_un_lookup r F t B Ab Ft).
    destruct (ft_src _ _ Ft r (or_introl eq_refl)) as [n [Hn _]]. rewrite Hn.
    rewrite (fs_unstep r F t B Ab Ft).
    apply IH; [eapply wf_base_tail; exact B|exact O'|].
    eapply fits_sub; [|exact Ft]. intros x Ix. right. exact Ix.
Qed.

Lemma ord_app_r U1 U2 : ord (U1 ++ U2) -> ord U2.
Proof.
  induction U1 as [|x U1 IH]; intro O; [exact O|]. cbn [app] in O.
  apply StronglySorted_inv in O as [O _]. apply IH. exact O.
Qed.

Lemma wf_base_app_r L1 L2 : wf_base (L1 ++ L2) -> wf_base L2.
Proof.
  intro B. apply (wf_base_app_l L2 L1). eapply wf_base_perm; [|exact B]. apply Permutation_app_comm.
Qed.

(* ------------------------------------------------------------------------------------ *)
(* B2: on the tree produced by the rename stage, undo's two reversal stages succeed and   *)
(* give back the original tree                                                           *)
(* ------------------------------------------------------------------------------------ *)

Theorem undo_rename_stages_exact : forall rs t,
  (forall r, In r rs -> shape r) -> NoDup (map ar_path rs) ->
  (forall r1 r2, In r1 rs -> In r2 rs -> ar_new r1 = ar_new r2 -> ar_path r1 = ar_path r2) ->
  fs_ok t rs ->
  exists t2,
    undo_dir_stage (undo_dirs rs) (map (fun e => (final_path rs (fst e), snd e)) t) = FOk t2 /\
    undo_file_stage (undo_files rs) t2 = FOk t.
Proof.
  intros rs t Hshape Hnodup Hinj Hfs.
  pose proof (tree_wf_renames rs t Hshape Hnodup Hinj Hfs) as W.
  pose proof (wf_b _ W) as B.
  pose proof (undo_order_perm rs) as P.
  assert (In_rs : forall x, In x (undo_order rs) -> In x rs).
  { intros x Ix. eapply Permutation_in; [exact P|exact Ix]. }
  assert (BU : wf_base (undo_order rs)).
  { eapply wf_base_perm; [apply Permutation_sym; exact P|exact B]. }
  pose proof (undo_order_ord rs W) as OU.
  assert (Ft : fits t (undo_order rs)).
  { apply (fits_sub t rs); [exact In_rs|]. split.
    - apply (key_avoids rs t Hshape Hfs).
    - apply (fo_src _ _ Hfs).
    - intros r Ir a b E Na Nb. destruct (fo_src _ _ Hfs r Ir) as [n [Hn _]].
      apply (fo_chain _ _ Hfs (ar_path r) a b); auto. eapply lookup_some_in. exact Hn. }
  fold (mapF rs t). rewrite (mapF_perm rs (undo_order rs) t (Permutation_sym P) Hnodup).
  exists (mapF (undo_file_rens rs) t). split.
  - apply undo_dir_stage_ok; try assumption. intros d Id. apply (undo_dirs_in rs d Id).
  - rewrite (undo_files_eq rs B). unfold undo_order in *.
    apply undo_file_stage_ok.
    + eapply wf_base_app_r. exact BU.
    + eapply ord_app_r. exact OU.
    + eapply fits_sub; [|exact Ft]. intros x Ix. apply in_or_app. right. exact Ix.
Qed.

(* the statement as requested.  The hypothesis [ar_new r <> ar_path r] is not used: it follows
   from [fs_ok] (the source exists and the destination is free), see [fs_ok_no_identity]. *)
Lemma fs_ok_no_identity rs t : fs_ok t rs -> forall r, In r rs -> ar_new r <> ar_path r.
Proof.
  intros Hfs r Ir E. destruct (fo_src _ _ Hfs r Ir) as [n [Hn _]].
  pose proof (fo_dst _ _ Hfs r Ir) as D. rewrite E in D. congruence.
Qed.

Theorem undo_rename_stages_restore : forall rs t,
  (forall r, In r rs -> shape r) -> NoDup (map ar_path rs) ->
  (forall r1 r2, In r1 rs -> In r2 rs -> ar_new r1 = ar_new r2 -> ar_path r1 = ar_path r2) ->
  fs_ok t rs ->
  (forall r, In r rs -> ar_new r <> ar_path r) ->
  let t1 := map (fun e => (final_path rs (fst e), snd e)) t in
  exists t2 t3,
    undo_dir_stage (undo_dirs rs) t1 = FOk t2 /\ undo_file_stage (undo_files rs) t2 = FOk t3 /\
    forall q n, lookup t q = Some n -> lookup t3 q = Some n.
Proof.
  intros rs t Hshape Hnodup Hinj Hfs Hne t1.
  destruct (undo_rename_stages_exact rs t Hshape Hnodup Hinj Hfs) as [t2 [H1 H2]].
  exists t2, t. split; [exact H1|]. split; [exact H2|]. auto.
Qed.

(* apply's rename stage followed by undo's two reversal stages: the tree is back *)
Corollary apply_then_undo_renames : forall rs t,
  (forall r, In r rs -> shape r) -> NoDup (map ar_path rs) ->
  (forall r1 r2, In r1 rs -> In r2 rs -> ar_new r1 = ar_new r2 -> ar_path r1 = ar_path r2) ->
  fs_ok t rs ->
  (forall r, In r rs -> case_only (ar_path r) (ar_new r) = true ->
     lookup t (parent (ar_path r) ++ [probe_name]) = None /\
     forall r1, In r1 rs -> ar_new r1 <> parent (ar_path r) ++ [probe_name]) ->
  exists s' perf exe t2,
    rename_stage no_fault (sort_renames rs) [] [] {| s_fs := t; s_n := 0; s_trace := [] |}
      = inl (s', perf, exe) /\
    undo_dir_stage (undo_dirs rs) (s_fs s') = FOk t2 /\
    undo_file_stage (undo_files rs) t2 = FOk t.
Proof.
  intros rs t Hshape Hnodup Hinj Hfs Hcase.
  destruct (rename_stage_fs rs t Hshape Hnodup Hinj Hfs Hcase) as [s' [R [E _]]].
  destruct (undo_rename_stages_exact rs t Hshape Hnodup Hinj Hfs) as [t2 [H1 H2]].
  exists s', (stage_perf (sort_renames rs) []), (stage_steps (sort_renames rs) []), t2.
  split; [exact R|]. rewrite E. split; assumption.
Qed.

(* ------------------------------------------------------------------------------------ *)
(* The hypotheses are satisfiable (the plan and tree of RenameP2.Example1)              *)
(* ------------------------------------------------------------------------------------ *)
Module Example2.
  Import Example1.
  Example ex_undo : exists t2,
    undo_dir_stage (undo_dirs rs1) (map (fun e => (final_path rs1 (fst e), snd e)) t1) = FOk t2 /\
    undo_file_stage (undo_files rs1) t2 = FOk t1.
  Proof. exact (undo_rename_stages_exact rs1 t1 ex_shape ex_nodup ex_inj ex_fs_ok). Qed.

  Example ex_steps q : avoids rs1 q -> run_steps (undo_steps rs1) (final_path rs1 q) = q.
  Proof. apply undo_steps_invert_final_path. exact ex_wf. Qed.
End Example2.

(* [avoids] is needed in B1: a path below a planned destination is not moved by apply, but undo
   moves it (a -> b, and q = b/x) *)
Module Counterexamples.
  Import RenameP.Counterexamples.
  Example need_avoids :
    let rs := [mk [a] [b] true] in
    wf_renames rs /\ final_path rs [b; x] = [b; x] /\ run_steps (undo_steps rs) (final_path rs [b; x]) = [a; x].
  Proof.
    cbv zeta. split; [|split; vm_compute; reflexivity].
    split; [split|].
    - intros r [<- | []]. split; [discriminate|split; reflexivity].
    - repeat constructor. intros [].
    - intros r1 r2 [<- | []] [<- | []] _. reflexivity.
    - intros r1 r2 [<- | []] [<- | []] _. vm_compute. reflexivity.
    - intros r1 r2 [<- | []] [<- | []] H. vm_compute in H. discriminate.
  Qed.
End Counterexamples.
