(* Proofs/ParMergeP.v — the plan does not depend on the order in which worker threads finish. *)
From RN Require Import Model.ParMerge.
From Coq Require Import Sorting.Sorted.

Lemma slot_fill_in {A} (order : list nat) (f : nat -> A) i :
  In i order -> slot i (fill order f) = Some (f i).
Proof.
  induction order as [|j order IH]; intro H; [destruct H|]. cbn.
  destruct (Nat.eqb i j) eqn:E; [apply Nat.eqb_eq in E; subst; reflexivity|].
  destruct H as [->|H]; [rewrite Nat.eqb_refl in E; discriminate | apply IH; exact H].
Qed.

(* whatever the completion order (any permutation of the indices), collect returns the results in
   index order *)
Theorem collect_any_schedule {A} (n : nat) (order : list nat) (f : nat -> A) :
  Permutation order (seq 0 n) -> collect n (fill order f) = map (fun i => Some (f i)) (seq 0 n).
Proof.
  intro P. unfold collect. apply map_ext_in. intros i Hi.
  apply slot_fill_in. eapply Permutation_in; [apply Permutation_sym; exact P | exact Hi].
Qed.

Corollary collect_schedule_independent {A} (n : nat) (o1 o2 : list nat) (f : nat -> A) :
  Permutation o1 (seq 0 n) -> Permutation o2 (seq 0 n) -> collect n (fill o1 f) = collect n (fill o2 f).
Proof. intros P1 P2. rewrite !collect_any_schedule by assumption. reflexivity. Qed.

(* the merged counts do not depend on the order of the outcomes *)
Lemma fold_add_acc (os : list counts) v a b :
  fold_left (fun acc o => acc + o v) os (a + b) = a + fold_left (fun acc o => acc + o v) os b.
Proof.
  revert a b; induction os as [|o os IH]; intros a b; cbn; [reflexivity|].
  rewrite <- Nat.add_assoc. apply IH.
Qed.

Lemma merge_counts_cons o os v : merge_counts (o :: os) v = o v + merge_counts os v.
Proof.
  unfold merge_counts. cbn. replace (o v) with (o v + 0) at 1 by lia. apply fold_add_acc.
Qed.

Theorem merge_counts_perm os os' v : Permutation os os' -> merge_counts os v = merge_counts os' v.
Proof.
  intro P. induction P as [|o l l' P IH|a b l|l1 l2 l3 P1 IH1 P2 IH2].
  - reflexivity.
  - rewrite !merge_counts_cons. lia.
  - rewrite !merge_counts_cons. lia.
  - congruence.
Qed.

(* the final order of the matches depends only on WHICH matches there are *)
Lemma insert_key_perm k l : Permutation (insert_key k l) (k :: l).
Proof.
  induction l as [|x l IH]; cbn; [apply Permutation_refl|].
  destruct (Nat.leb k x); [apply Permutation_refl|].
  eapply Permutation_trans; [apply perm_skip; exact IH | apply perm_swap].
Qed.
Lemma sort_keys_perm l : Permutation (sort_keys l) l.
Proof.
  induction l as [|x l IH]; cbn; [constructor|].
  eapply Permutation_trans; [apply insert_key_perm | apply perm_skip; exact IH].
Qed.
Lemma insert_key_sorted k l : Sorted le l -> Sorted le (insert_key k l).
Proof.
  induction l as [|x l IH]; intro S; cbn; [repeat constructor|].
  destruct (Nat.leb k x) eqn:E.
  - apply Nat.leb_le in E. constructor; [exact S | constructor; exact E].
  - apply Nat.leb_gt in E. inversion S as [|? ? S' H]; subst. constructor; [apply IH; exact S'|].
    destruct l as [|y l]; cbn; [constructor; lia|].
    destruct (Nat.leb k y); constructor; [lia|]. inversion H; subst. assumption.
Qed.
Lemma sort_keys_sorted l : Sorted le (sort_keys l).
Proof. induction l as [|x l IH]; cbn; [constructor | apply insert_key_sorted; exact IH]. Qed.

Lemma sorted_perm_unique (l l' : list nat) :
  Sorted le l -> Sorted le l' -> Permutation l l' -> l = l'.
Proof.
  revert l'; induction l as [|x l IH]; intros l' S S' P.
  - apply Permutation_nil in P. congruence.
  - destruct l' as [|y l']; [apply Permutation_sym, Permutation_nil in P; discriminate|].
    apply Sorted_StronglySorted in S; [|intros a b c; lia].
    apply Sorted_StronglySorted in S'; [|intros a b c; lia].
    inversion S as [|? ? Sl Fx]; subst. inversion S' as [|? ? Sl' Fy]; subst.
    assert (x = y).
    { assert (Hy : In y (x :: l)) by (eapply Permutation_in; [apply Permutation_sym; exact P | left; reflexivity]).
      assert (Hx : In x (y :: l')) by (eapply Permutation_in; [exact P | left; reflexivity]).
      destruct Hy as [->|Hy]; [reflexivity|]. destruct Hx as [<-|Hx]; [reflexivity|].
      rewrite Forall_forall in Fx, Fy. specialize (Fx y Hy). specialize (Fy x Hx). lia. }
    subst y. f_equal. apply IH.
    + apply StronglySorted_Sorted. exact Sl.
    + apply StronglySorted_Sorted. exact Sl'.
    + eapply Permutation_cons_inv. exact P.
Qed.

Theorem sort_keys_canonical l l' : Permutation l l' -> sort_keys l = sort_keys l'.
Proof.
  intro P. apply sorted_perm_unique; try apply sort_keys_sorted.
  eapply Permutation_trans; [apply sort_keys_perm|].
  eapply Permutation_trans; [exact P | apply Permutation_sym, sort_keys_perm].
Qed.
