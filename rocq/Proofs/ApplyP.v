(* Proofs/ApplyP.v — facts about the apply model that hold for every plan and tree. *)
From RN Require Import Base.Bytes Model.Edits Model.Fs Model.ApplyModel.

(* C05: an occupied destination makes apply fail before anything is changed *)
Lemma apply_conflict_refused inj p t r :
  first_conflict t (ap_renames p) = Some r ->
  let res := apply_core inj p t in
  r_ok res = false /\ r_fs res = t /\ r_trace res = [] /\ r_fail res = Some (FailConflict (ar_new r)).
Proof. intro H. unfold apply_core. rewrite H. cbn. auto. Qed.

Lemma first_conflict_some t rs r :
  In r rs -> occupied t r = true -> exists r', first_conflict t rs = Some r'.
Proof.
  intros Hin Hocc. unfold first_conflict.
  destruct (find (occupied t) rs) as [r'|] eqn:E; [eauto|].
  exfalso. apply (find_none _ _ E) in Hin. congruence.
Qed.

Theorem occupied_destination_refused inj p t r :
  In r (ap_renames p) -> occupied t r = true ->
  r_ok (apply_core inj p t) = false /\ r_fs (apply_core inj p t) = t /\ r_trace (apply_core inj p t) = [].
Proof.
  intros Hin Hocc. destruct (first_conflict_some t _ r Hin Hocc) as [r' H].
  pose proof (apply_conflict_refused inj p t r' H) as [A [B [C _]]]. auto.
Qed.

(* a successful apply saw every planned destination free at the start *)
Theorem success_means_destinations_free inj p t :
  r_ok (apply_core inj p t) = true -> forall r, In r (ap_renames p) -> occupied t r = false.
Proof.
  intros Hok r Hin. destruct (occupied t r) eqn:E; [|reflexivity].
  destruct (occupied_destination_refused inj p t r Hin E) as [A _]. congruence.
Qed.

(* one rename step onto a free destination keeps every node (only keys change) *)
Lemma rename_free_keeps_nodes src dst t t' :
  lookup t dst = None -> rename_fs src dst t = FOk t' -> map snd t' = map snd t.
Proof.
  intros Hfree H. unfold rename_fs in H.
  destruct src as [|s0 src']; [discriminate|]. destruct dst as [|d0 dst']; [discriminate|].
  destruct (lookup t (s0 :: src')) as [n|]; [|discriminate].
  destruct (negb (is_dir t (parent (d0 :: dst')))); [destruct (exists_ t _); discriminate|].
  destruct (path_eqb (s0 :: src') (d0 :: dst')); [inversion H; reflexivity|].
  destruct (path_prefix (s0 :: src') (d0 :: dst')); [discriminate|].
  rewrite Hfree in H. inversion H. rewrite map_map. cbn. reflexivity.
Qed.
