(* Proofs/UndoSpecP.v — the whole-tree composition of property C01: on a well-formed plan and tree
   ([plan_ok], the hypothesis of ApplySpecP.apply_is_spec, stated on the ORIGINAL tree), undo run on the
   tree that the fault-free apply leaves gives back the original tree as a finite map (a permutation of
   the association list, keys pairwise distinct, the same [lookup] at every path), reports success and
   no failed patch.

   How undo (undo.rs::undo_renaming, Model/UndoModel.v::undo_core) is organised, which fixes the form of
   the patch oracle: the renames are reversed FIRST (directories, then files), the contents are restored
   AFTERWARDS, so the reverse patch of an edited file is looked up and applied under the file's ORIGINAL
   path (plan.matches[..].original_file, set by generate_reverse_patches to the path the hunk was planned
   for), never under the post-rename path.  The patch layer (diffy create_patch / apply) is an oracle:
   [restore_ok] says that every entry of [restore] is keyed by a regular file of the original tree and
   carries [Some] of that file's original content, and that every edited file whose content really
   changed has an entry (apply.rs writes no patch when the reverse diff is empty).

   [created] (plan.created_directories) is [] for every successful apply: apply_plan never creates a
   directory in the user's tree and generate_reverse_patches only records directories that do NOT exist
   after the apply.  The theorem is nevertheless stated for any list none of whose members is an EMPTY
   directory of the original tree ([created_ok]; [] satisfies it), and the hypothesis is shown to be
   necessary in the model.
   Stdlib only, no axioms. *)
From Coq Require Import List Arith Lia Bool NArith Sorted Permutation.
From RN Require Import Base.Bytes Model.Edits Model.Fs Model.ApplyModel Model.UndoModel
  Proofs.EditsP Proofs.RenameP Proofs.RenameP2 Proofs.Apply2P Proofs.UndoP Proofs.ApplySpecP.
Import ListNotations.
Close Scope N_scope.

(* ==================================================================================== *)
(* 1. finite maps                                                                        *)
(* ==================================================================================== *)

(* two association lists with distinct keys and the same lookups are permutations of each other *)
Lemma same_lookup_perm a b :
  NoDup (keys a) -> NoDup (keys b) -> (forall q, lookup a q = lookup b q) -> Permutation a b.
Proof.
  intros Na Nb H. apply NoDup_Permutation.
  - exact (NoDup_map_inv fst a Na).
  - exact (NoDup_map_inv fst b Nb).
  - intros [k n]. split; intro I; apply lookup_some_in_pair.
    + rewrite <- H. apply lookup_in_nodup; assumption.
    + rewrite H. apply lookup_in_nodup; assumption.
Qed.

Lemma existsb_perm {A} (f : A -> bool) a b : Permutation a b -> existsb f a = existsb f b.
Proof.
  induction 1 as [|x a b P IH|x y a|a b c P1 IH1 P2 IH2]; cbn [existsb].
  - reflexivity.
  - rewrite IH. reflexivity.
  - destruct (f x), (f y); reflexivity.
  - rewrite IH1. exact IH2.
Qed.

Lemma has_children_perm a b d : Permutation a b -> has_children a d = has_children b d.
Proof. intro P. unfold has_children. apply existsb_perm. exact P. Qed.

(* ==================================================================================== *)
(* 2. the tree apply leaves: every key of a tree [t1] sent to its final path, where [t1]  *)
(*    is the original tree with the reference contents (up to the order of the list)      *)
(* ==================================================================================== *)

Lemma apply_result_shape p t :
  plan_ok p t ->
  exists t1, Permutation t1 (cmap (edits_by_file (ap_hunks p)) t) /\
             r_fs (apply_core no_fault p t) = mapF (ap_renames p) t1.
Proof.
  intro W. destruct (apply_is_spec p t W) as (_ & _ & P & _).
  rewrite spec_apply_cmap in P. unfold mapF in P. apply Permutation_map_inv in P as [t1 [E P]].
  exists t1. split; [apply Permutation_sym; exact P|exact E].
Qed.

Lemma dirnode_upd files q n : dirnode (upd files q n) = dirnode n.
Proof.
  destruct n as [m c| |]; try reflexivity. cbn [upd].
  destruct (find (fun fe => path_eqb (fst fe) q) files) as [[f es]|]; reflexivity.
Qed.

Section Edited.
  Variables (p : aplan) (t t1 : fs).
  Hypothesis W : plan_ok p t.
  Let hs := ap_hunks p.
  Let rs := ap_renames p.
  Let files := edits_by_file hs.
  Hypothesis P1 : Permutation t1 (cmap files t).

  Lemma ed_nodup : NoDup (keys t1).
  Proof.
    eapply Permutation_NoDup; [apply Permutation_map; apply Permutation_sym; exact P1|].
    fold (keys (cmap files t)). rewrite keys_cmap. exact (po_nodup _ _ W).
  Qed.

  Lemma ed_lookup q : lookup t1 q = option_map (upd files q) (lookup t q).
  Proof.
    rewrite (lookup_perm _ _ q P1 ed_nodup). apply (lookup_map_val (upd files)).
  Qed.

  Lemma ed_keys k : In k (map fst t1) -> In k (map fst t).
  Proof.
    intro I. apply (Permutation_in _ (Permutation_map fst P1)) in I.
    fold (keys (cmap files t)) in I. rewrite keys_cmap in I. exact I.
  Qed.

  (* the rename stages of undo see the edited tree exactly as they would see the original one *)
  Lemma ed_fs_ok : fs_ok t1 rs.
  Proof.
    pose proof (po_fs _ _ W) as F. fold rs in F. split.
    - intros r I. destruct (fo_src _ _ F r I) as [n [Hn Dn]].
      exists (upd files (ar_path r) n). split; [rewrite ed_lookup, Hn; reflexivity|].
      rewrite dirnode_upd. exact Dn.
    - intros k a b I E Na Nb. destruct (fo_chain _ _ F k a b (ed_keys k I) E Na Nb) as [m Hm].
      exists m. rewrite ed_lookup, Hm. reflexivity.
    - intros r I. rewrite ed_lookup, (fo_dst _ _ F r I). reflexivity.
  Qed.

  (* what differs between the edited tree and the original one: only the content of files that have hunks *)
  Lemma ed_diff q :
    lookup t1 q = lookup t q \/
    exists h m c, In h hs /\ ah_file h = q /\ lookup t q = Some (File m c) /\
                  lookup t1 q = Some (File m (spec_splice c (sort_edits (edits_of hs q)))).
  Proof.
    rewrite ed_lookup. destruct (lookup t q) as [[m c| |]|] eqn:L; try (left; reflexivity).
    cbn [option_map upd].
    destruct (find (fun fe => path_eqb (fst fe) q) files) as [[f es]|] eqn:Fd; [|left; reflexivity].
    right. apply find_some in Fd as [I Eq]. cbn [fst] in Eq. apply path_eqb_eq in Eq. subst f.
    destruct (edits_by_file_key hs q) as (h & Ih & Eh).
    { apply in_map_iff. exists (q, es). auto. }
    exists h, m, c. rewrite (edits_by_file_group hs q es I). auto.
  Qed.
End Edited.

(* ==================================================================================== *)
(* 3. the content stage of undo                                                          *)
(* ==================================================================================== *)

(* the patch oracle.  Keys are ORIGINAL paths: undo applies the patches after it has reversed the renames. *)
Definition restore_ok (p : aplan) (t : fs) (restore : list (path * option bytes)) : Prop :=
  (* every entry belongs to a regular file of the original tree and holds its original content *)
  (forall f r, In (f, r) restore -> exists m c, lookup t f = Some (File m c) /\ r = Some c) /\
  (* every edited file has an entry, unless its edits leave the content as it was (then apply.rs
     stores no patch: the reverse diff is empty) *)
  (forall h m c, In h (ap_hunks p) -> lookup t (ah_file h) = Some (File m c) ->
     In (ah_file h) (map fst restore) \/
     spec_splice c (sort_edits (edits_of (ap_hunks p) (ah_file h))) = c).

(* [t] is the tree to get back to; [t'] the current one: every path either already holds what [t] holds, or
   is a regular file of [t] with the right mode whose entry is still to come *)
Lemma restore_stage_exact t : forall restore t' failed,
  NoDup (keys t') ->
  (forall f r, In (f, r) restore -> exists m c, lookup t f = Some (File m c) /\ r = Some c) ->
  (forall q, lookup t' q = lookup t q \/
             (In q (map fst restore) /\
              exists m c c', lookup t q = Some (File m c) /\ lookup t' q = Some (File m c'))) ->
  exists t3, restore_stage restore t' failed = (t3, failed) /\ NoDup (keys t3) /\
             forall q, lookup t3 q = lookup t q.
Proof.
  induction restore as [|[f r] rest IH]; intros t' failed ND R Inv; cbn [restore_stage].
  - exists t'. split; [reflexivity|]. split; [exact ND|].
    intro q. destruct (Inv q) as [H|[[] _]]. exact H.
  - destruct (R f r (or_introl eq_refl)) as (m & c & Lt & ->).
    assert (X : exists c', lookup t' f = Some (File m c')).
    { destruct (Inv f) as [H|[_ (m' & c1 & c' & L1 & L2)]].
      - exists c. congruence.
      - rewrite Lt in L1. inversion L1; subst. exists c'. exact L2. }
    destruct X as [c' L']. rewrite L'. apply IH.
    + unfold keys. cbn [map fst]. constructor; [|apply keys_remove_nodup; exact ND].
      intro I. exact (remove_key_neq _ _ _ I eq_refl).
    + intros f0 r0 I. apply R. right. exact I.
    + intro q. destruct (path_dec q f) as [->|N].
      * left. rewrite lookup_cons_eq. symmetry. exact Lt.
      * rewrite lookup_cons_neq by congruence. rewrite lookup_remove_neq by exact N.
        destruct (Inv q) as [H|[I X]]; [left; exact H|right]. split; [|exact X].
        cbn [map fst In] in I. destruct I as [E|I]; [congruence|exact I].
Qed.

(* ==================================================================================== *)
(* 4. the clean-up stage of undo                                                         *)
(* ==================================================================================== *)

(* no recorded directory is an EMPTY directory of the original tree ([] qualifies) *)
Definition created_ok (t : fs) (created : list path) : Prop :=
  forall d m, In d created -> lookup t d = Some (Dir m) -> has_children t d = true.

Lemma cleanup_noop t3 : forall ds,
  (forall d, In d ds -> exists e, rmdir_fs d t3 = FErr e) -> cleanup_stage ds t3 = t3.
Proof.
  induction ds as [|d ds IH]; intro H; cbn [cleanup_stage]; [reflexivity|].
  destruct (H d (or_introl eq_refl)) as [e E]. rewrite E. apply IH. intros d' I. apply H. right. exact I.
Qed.

Lemma rmdir_refused t t3 d :
  Permutation t3 t -> (forall q, lookup t3 q = lookup t q) ->
  (forall m, lookup t d = Some (Dir m) -> has_children t d = true) ->
  exists e, rmdir_fs d t3 = FErr e.
Proof.
  intros P L C. unfold rmdir_fs. rewrite L, (has_children_perm t3 t d P).
  destruct (lookup t d) as [[m c|m|tg]|] eqn:E; try (eexists; reflexivity).
  rewrite (C m eq_refl). eexists. reflexivity.
Qed.

(* ==================================================================================== *)
(* 5. MAIN THEOREM                                                                       *)
(* ==================================================================================== *)

(* the front half: undo's two rename stages, run on the tree apply leaves, succeed and give back (literally)
   the tree [t1] = the original tree with the edited contents, which differs from [t] only in the content
   of regular files that have hunks *)
Lemma undo_front p t :
  plan_ok p t ->
  exists t1 t2,
    undo_dir_stage (undo_dirs (ap_renames p)) (r_fs (apply_core no_fault p t)) = FOk t2 /\
    undo_file_stage (undo_files (ap_renames p)) t2 = FOk t1 /\
    NoDup (keys t1) /\ (forall k, In k (map fst t1) -> In k (map fst t)) /\
    forall q, lookup t1 q = lookup t q \/
              exists h m c, In h (ap_hunks p) /\ ah_file h = q /\ lookup t q = Some (File m c) /\
                lookup t1 q = Some (File m (spec_splice c (sort_edits (edits_of (ap_hunks p) q)))).
Proof.
  intro W. destruct (apply_result_shape p t W) as (t1 & P1 & E). rewrite E.
  destruct (undo_rename_stages_exact (ap_renames p) t1 (po_shape _ _ W) (po_src_nodup _ _ W)
              (po_dst_inj _ _ W) (ed_fs_ok p t t1 W P1)) as (t2 & D & F).
  exists t1, t2. split; [exact D|]. split; [exact F|]. split; [exact (ed_nodup p t t1 W P1)|].
  split; [exact (ed_keys p t t1 P1)|]. exact (ed_diff p t t1 W P1).
Qed.

(* ... which is the invariant the content stage starts from *)
Lemma front_inv p t t1 (restore : list (path * option bytes)) :
  (forall h m c, In h (ap_hunks p) -> lookup t (ah_file h) = Some (File m c) ->
     In (ah_file h) (map fst restore) \/
     spec_splice c (sort_edits (edits_of (ap_hunks p) (ah_file h))) = c) ->
  (forall q, lookup t1 q = lookup t q \/
             exists h m c, In h (ap_hunks p) /\ ah_file h = q /\ lookup t q = Some (File m c) /\
               lookup t1 q = Some (File m (spec_splice c (sort_edits (edits_of (ap_hunks p) q))))) ->
  forall q, lookup t1 q = lookup t q \/
            (In q (map fst restore) /\
             exists m c c', lookup t q = Some (File m c) /\ lookup t1 q = Some (File m c')).
Proof.
  intros R2 Df q. destruct (Df q) as [H|(h & m & c & Ih & Eh & Lt & L1)]; [left; exact H|].
  subst q. destruct (R2 h m c Ih Lt) as [I|Same].
  - right. split; [exact I|]. exists m, c. eexists. split; [exact Lt|exact L1].
  - left. rewrite L1, Same. symmetry. exact Lt.
Qed.

(* the back half: on a tree that is the original finite map the clean-up stage does nothing *)
Lemma undo_back t t3 created :
  NoDup (keys t) -> NoDup (keys t3) -> (forall q, lookup t3 q = lookup t q) -> created_ok t created ->
  cleanup_stage (sort_by (fun d : path => length d) false created) t3 = t3 /\ Permutation t3 t.
Proof.
  intros ND ND3 L3 Cr.
  assert (P3 : Permutation t3 t) by (apply same_lookup_perm; assumption).
  split; [|exact P3]. apply cleanup_noop. intros d I.
  apply (Permutation_in _ (sort_by_perm _ _ _)) in I.
  apply (rmdir_refused t t3 d P3 L3). intros m Hm. exact (Cr d m I Hm).
Qed.

Theorem undo_apply_exact p t restore created :
  plan_ok p t -> restore_ok p t restore -> created_ok t created ->
  let u := undo_core (ap_renames p) restore created (r_fs (apply_core no_fault p t)) in
  u_ok u = true /\ u_failed u = [] /\
  Permutation (u_fs u) t /\ NoDup (keys (u_fs u)) /\
  (forall q, lookup (u_fs u) q = lookup t q).
Proof.
  intros W [R1 R2] Cr. cbv zeta.
  destruct (undo_front p t W) as (t1 & t2 & D & F & ND1 & _ & Df).
  unfold undo_core. rewrite D, F.
  destruct (restore_stage_exact t restore t1 [] ND1 R1 (front_inv p t t1 restore R2 Df)) as (t3 & S & ND3 & L3).
  rewrite S.
  destruct (undo_back t t3 created (po_nodup _ _ W) ND3 L3 Cr) as [Cl P3]. rewrite Cl.
  cbn [u_fs u_ok u_failed]. repeat split; assumption.
Qed.

(* the case that occurs: apply created no directory *)
Corollary undo_apply_exact_nil p t restore :
  plan_ok p t -> restore_ok p t restore ->
  let u := undo_core (ap_renames p) restore [] (r_fs (apply_core no_fault p t)) in
  u_ok u = true /\ u_failed u = [] /\
  Permutation (u_fs u) t /\ NoDup (keys (u_fs u)) /\
  (forall q, lookup (u_fs u) q = lookup t q).
Proof. intros W R. apply undo_apply_exact; [exact W|exact R|]. intros d m []. Qed.

(* ==================================================================================== *)
(* 6. corollaries                                                                        *)
(* ==================================================================================== *)

Section Corollaries.
  Variables (p : aplan) (t : fs) (restore : list (path * option bytes)) (created : list path).
  Hypothesis W : plan_ok p t.
  Hypothesis R : restore_ok p t restore.
  Hypothesis C : created_ok t created.

  Let mid := r_fs (apply_core no_fault p t).
  Let u := undo_core (ap_renames p) restore created mid.

  Lemma undo_lookup q : lookup (u_fs u) q = lookup t q.
  Proof. exact (proj2 (proj2 (proj2 (proj2 (undo_apply_exact p t restore created W R C)))) q). Qed.

  (* the number of nodes is the original one *)
  Corollary undo_node_count : length (u_fs u) = length t.
  Proof.
    destruct (undo_apply_exact p t restore created W R C) as (_ & _ & P & _).
    exact (Permutation_length P).
  Qed.

  (* (1) every regular file has its original mode and content at its original path *)
  Corollary undo_file_restored q m c :
    lookup t q = Some (File m c) -> lookup (u_fs u) q = Some (File m c).
  Proof. intro L. rewrite undo_lookup. exact L. Qed.

  (* ... in particular a file that apply edited AND moved (its own rename, or a rename of a directory
     above it, or both): in between it sits at its final path with the reference content *)
  Corollary undo_edited_and_moved h m c :
    In h (ap_hunks p) -> lookup t (ah_file h) = Some (File m c) ->
    lookup mid (final_path (ap_renames p) (ah_file h))
      = Some (File m (spec_splice c (sort_edits (edits_of (ap_hunks p) (ah_file h))))) /\
    lookup (u_fs u) (ah_file h) = Some (File m c).
  Proof.
    intros Ih L. split; [exact (apply_edited_file p t h m c W Ih L)|].
    rewrite undo_lookup. exact L.
  Qed.

  (* (2) symlinks and directories: moved by apply to the final path with target / mode unchanged, and back
     under the old name with the old target / mode after undo *)
  Corollary undo_symlink_restored q tg :
    lookup t q = Some (Link tg) ->
    lookup mid (final_path (ap_renames p) q) = Some (Link tg) /\ lookup (u_fs u) q = Some (Link tg).
  Proof.
    intro L. split; [|rewrite undo_lookup; exact L].
    unfold mid. rewrite apply_lookup; [rewrite L; reflexivity|exact W|].
    apply (key_avoids _ t (po_shape _ _ W) (po_fs _ _ W)). eapply lookup_some_in. exact L.
  Qed.

  Corollary undo_directory_restored q m :
    lookup t q = Some (Dir m) ->
    lookup mid (final_path (ap_renames p) q) = Some (Dir m) /\ lookup (u_fs u) q = Some (Dir m).
  Proof.
    intro L. split; [|rewrite undo_lookup; exact L].
    unfold mid. rewrite apply_lookup; [rewrite L; reflexivity|exact W|].
    apply (key_avoids _ t (po_shape _ _ W) (po_fs _ _ W)). eapply lookup_some_in. exact L.
  Qed.

  (* the source of every planned rename is back, with the planned kind *)
  Corollary undo_sources_back r :
    In r (ap_renames p) -> exists n, lookup (u_fs u) (ar_path r) = Some n /\ dirnode n = ar_dir r.
  Proof. intro I. rewrite undo_lookup. exact (fo_src _ _ (po_fs _ _ W) r I). Qed.

  (* (3) nothing remains at, or below, any planned destination *)
  Corollary undo_destinations_free r q :
    In r (ap_renames p) -> path_prefix (ar_new r) q = true -> lookup (u_fs u) q = None.
  Proof.
    intros I Pq. rewrite undo_lookup. destruct (lookup t q) as [n|] eqn:L; [exfalso|reflexivity].
    pose proof (key_avoids _ t (po_shape _ _ W) (po_fs _ _ W) q (lookup_some_in _ _ _ L) r I
                  (fs_ok_no_identity _ _ (po_fs _ _ W) r I)) as A.
    congruence.
  Qed.

  Corollary undo_destination_free r : In r (ap_renames p) -> lookup (u_fs u) (ar_new r) = None.
  Proof. intro I. apply (undo_destinations_free r); [exact I|apply path_prefix_refl]. Qed.

  (* bystanders: untouched by apply (ApplySpecP.apply_bystander) and by undo *)
  Corollary undo_bystander q n :
    lookup t q = Some n ->
    (forall h, In h (ap_hunks p) -> ah_file h <> q) ->
    (forall r, In r (ap_renames p) -> path_prefix (ar_path r) q = false) ->
    lookup mid q = Some n /\ lookup (u_fs u) q = Some n.
  Proof.
    intros L Hh Hr. split; [exact (apply_bystander p t q n W L Hh Hr)|]. rewrite undo_lookup. exact L.
  Qed.
End Corollaries.

(* ==================================================================================== *)
(* 7. non-vacuity: a directory rename d -> e containing an edited file d/f.txt (two edits, multi-byte   *)
(*    text, mode 0600) that is itself renamed to g.txt, a renamed symlink l -> m whose target is the      *)
(*    renamed directory, a bystander inside the directory and one outside                                *)
(* ==================================================================================== *)
Module UndoWitness.
  Local Open Scope N_scope.
  Import Witness.
  Definition lnk : name := [108]. Definition lnk2 : name := [109].
  Definition t1 : fs :=
    [([d], Dir 493); ([d; ftxt], File 384 c0); ([d; y], File 420 [1; 2; 3]); ([z], File 420 c0);
     ([lnk], Link [100])].
  Definition p1 : aplan :=
    {| ap_id := [];
       ap_hunks := [hk [d; ftxt] 7%nat 10%nat [111; 108; 100] [110; 101; 119; 101; 114];
                    hk [d; ftxt] 0%nat 3%nat [111; 108; 100] [110]];
       ap_renames := [mk [d; ftxt] [d; gtxt] false; mk [lnk] [lnk2] false; mk [d] [e] true] |}.
  (* the reverse patch of the one edited file, keyed by its ORIGINAL path *)
  Definition restore1 : list (path * option bytes) := [([d; ftxt], Some c0)].

  Ltac each_in H := cbn in H; repeat (destruct H as [<- | H]); try contradiction.

  Lemma p1_ok : plan_ok p1 t1.
  Proof.
    split.
    - repeat constructor; cbn; intuition discriminate.
    - intros h I. each_in I; (eexists; eexists; split; [vm_compute; reflexivity|]; repeat split; vm_compute; reflexivity).
    - intros r I. each_in I; (split; [discriminate|split; reflexivity]).
    - repeat constructor; cbn; intuition discriminate.
    - intros r1 r2 I1 I2. each_in I1; each_in I2; cbn; intro H; try reflexivity; discriminate.
    - split.
      + intros r I. each_in I; eexists; split; vm_compute; reflexivity.
      + intros k a b I E Na Nb. each_in I;
          destruct a as [|a0 [|a1 [|a2 a]]]; try contradiction; cbn in E;
          inversion E; subst; try contradiction; eexists; vm_compute; reflexivity.
      + intros r I. each_in I; vm_compute; reflexivity.
    - intros r I C. each_in I; vm_compute in C; discriminate.
  Qed.

  Lemma restore1_ok : restore_ok p1 t1 restore1.
  Proof.
    split.
    - intros f r [E|[]]. inversion E; subst. eexists; eexists. split; [vm_compute|]; reflexivity.
    - intros h m c I _. left. each_in I; cbn; left; reflexivity.
  Qed.

  (* both sides compute: apply succeeds, undo succeeds, and the tree undo leaves is the original finite
     map (NOT the same list: the edited file has moved to the front) *)
  Example p1_computes :
    r_ok (apply_core no_fault p1 t1) = true /\
    r_fs (apply_core no_fault p1 t1) =
      [([e; gtxt], File 384 [110; 32; 195; 169; 32; 110; 101; 119; 101; 114]);   (* "n é newer", 0600 *)
       ([e], Dir 493); ([e; y], File 420 [1; 2; 3]); ([z], File 420 c0); ([lnk2], Link [100])] /\
    undo_core (ap_renames p1) restore1 [] (r_fs (apply_core no_fault p1 t1)) =
      {| u_fs := [([d; ftxt], File 384 c0); ([d], Dir 493); ([d; y], File 420 [1; 2; 3]);
                  ([z], File 420 c0); ([lnk], Link [100])];
         u_ok := true; u_failed := [] |} /\
    fs_eqb (u_fs (undo_core (ap_renames p1) restore1 [] (r_fs (apply_core no_fault p1 t1)))) t1 = true.
  Proof. vm_compute. repeat split. Qed.

  (* list equality is false of the model, already on this instance *)
  Example undo_list_equality_refuted :
    exists p t restore, plan_ok p t /\ restore_ok p t restore /\
      u_fs (undo_core (ap_renames p) restore [] (r_fs (apply_core no_fault p t))) <> t.
  Proof. exists p1, t1, restore1. split; [exact p1_ok|]. split; [exact restore1_ok|]. vm_compute. discriminate. Qed.

  (* the theorems apply *)
  Example p1_theorem :
    Permutation (u_fs (undo_core (ap_renames p1) restore1 [] (r_fs (apply_core no_fault p1 t1)))) t1.
  Proof. exact (proj1 (proj2 (proj2 (undo_apply_exact_nil p1 t1 restore1 p1_ok restore1_ok)))). Qed.

  Example p1_edited_and_moved :
    lookup (r_fs (apply_core no_fault p1 t1)) [e; gtxt]
      = Some (File 384 [110; 32; 195; 169; 32; 110; 101; 119; 101; 114]) /\
    lookup (u_fs (undo_core (ap_renames p1) restore1 [] (r_fs (apply_core no_fault p1 t1)))) [d; ftxt]
      = Some (File 384 c0).
  Proof.
    exact (undo_edited_and_moved p1 t1 restore1 [] p1_ok restore1_ok (fun _ _ F => match F with end)
             (hk [d; ftxt] 0%nat 3%nat [111; 108; 100] [110]) 384 c0 (or_intror (or_introl eq_refl)) eq_refl).
  Qed.

  Example p1_symlink :
    lookup (r_fs (apply_core no_fault p1 t1)) [lnk2] = Some (Link [100]) /\
    lookup (u_fs (undo_core (ap_renames p1) restore1 [] (r_fs (apply_core no_fault p1 t1)))) [lnk] = Some (Link [100]).
  Proof.
    exact (undo_symlink_restored p1 t1 restore1 [] p1_ok restore1_ok (fun _ _ F => match F with end)
             [lnk] [100] eq_refl).
  Qed.

  Example p1_destination_free :
    lookup (u_fs (undo_core (ap_renames p1) restore1 [] (r_fs (apply_core no_fault p1 t1)))) [e; gtxt] = None.
  Proof.
    apply (undo_destinations_free p1 t1 restore1 [] p1_ok restore1_ok (fun _ _ F => match F with end)
             (mk [d] [e] true)); [right; right; left; reflexivity|reflexivity].
  Qed.
  (* the second clause of [restore_ok] with its right-hand alternative: a file whose only edit writes back what
     was there has no reverse patch (apply.rs stores none when the diff is empty) and needs none *)
  Definition t_id : fs := [([Forced.a_txt], File 420 Forced.old)].
  Definition p_id : aplan :=
    {| ap_id := []; ap_hunks := [hk [Forced.a_txt] 0%nat 3%nat Forced.old Forced.old]; ap_renames := [] |}.
  Lemma p_id_ok : plan_ok p_id t_id.
  Proof.
    split.
    - repeat constructor; cbn; intuition discriminate.
    - intros h I. each_in I; (eexists; eexists; split; [vm_compute; reflexivity|]; repeat split; vm_compute; reflexivity).
    - intros r [].
    - constructor.
    - intros r1 r2 [].
    - split.
      + intros r [].
      + intros k a b I E Na Nb. each_in I;
          destruct a as [|a0 [|a1 a]]; try contradiction; cbn in E;
          inversion E; subst; try contradiction.
      + intros r [].
    - intros r [].
  Qed.
  Lemma restore_nil_ok : restore_ok p_id t_id [].
  Proof.
    split; [intros f r []|]. intros h m c I L. right. each_in I. vm_compute in L. inversion L; subst.
    vm_compute. reflexivity.
  Qed.
  Example p_id_theorem :
    Permutation (u_fs (undo_core (ap_renames p_id) [] [] (r_fs (apply_core no_fault p_id t_id)))) t_id.
  Proof. exact (proj1 (proj2 (proj2 (undo_apply_exact_nil p_id t_id [] p_id_ok restore_nil_ok)))). Qed.
End UndoWitness.

(* ==================================================================================== *)
(* 8. the hypotheses the proof forces, each with a witness in the model                  *)
(* ==================================================================================== *)
Module UndoForced.
  Local Open Scope N_scope.
  Import Witness UndoWitness.

  (* (i) the key of a restoration entry is the ORIGINAL path: an entry keyed by the path the file has after
     apply finds nothing (the renames have been reversed by then), the patch is reported as failed and
     the file keeps the edited content under its old name *)
  Example restore_keyed_by_new_path_fails :
    let u := undo_core (ap_renames p1) [([e; gtxt], Some c0)] [] (r_fs (apply_core no_fault p1 t1)) in
    u_ok u = false /\ u_failed u = [[e; gtxt]] /\
    lookup (u_fs u) [d; ftxt] = Some (File 384 [110; 32; 195; 169; 32; 110; 101; 119; 101; 114]).
  Proof. vm_compute. repeat split. Qed.

  (* (ii) an edited file without an entry keeps the edited content (undo reports success: it has no way to know) *)
  Example restore_entry_missing :
    let u := undo_core (ap_renames p1) [] [] (r_fs (apply_core no_fault p1 t1)) in
    u_ok u = true /\
    lookup (u_fs u) [d; ftxt] = Some (File 384 [110; 32; 195; 169; 32; 110; 101; 119; 101; 114]).
  Proof. vm_compute. repeat split. Qed.

  (* (iii) a patch that does not apply ([None]) is a reported failure *)
  Example restore_patch_rejected :
    let u := undo_core (ap_renames p1) [([d; ftxt], None)] [] (r_fs (apply_core no_fault p1 t1)) in
    u_ok u = false /\ u_failed u = [[d; ftxt]].
  Proof. vm_compute. repeat split. Qed.

  (* (iv) [created_ok]: a recorded directory that is an empty directory of the ORIGINAL tree is removed by the
     clean-up stage.  Forced by the model only: for a successful apply plan.created_directories is never set
     (generate_reverse_patches pushes a directory only when it does not exist after the apply) *)
  Definition t_empty : fs := [([d], Dir 493); ([z], File 420 c0)].
  Definition p_none : aplan := {| ap_id := []; ap_hunks := []; ap_renames := [] |}.
  Example created_empty_dir_is_removed :
    let u := undo_core (ap_renames p_none) [] [[d]] (r_fs (apply_core no_fault p_none t_empty)) in
    u_ok u = true /\ lookup t_empty [d] = Some (Dir 493) /\ lookup (u_fs u) [d] = None.
  Proof. vm_compute. repeat split. Qed.
  (* (v) [fo_dst] of [plan_ok] (every destination is free in the original tree) excludes a name that is both a
     source and a destination (a -> b, b -> c).  Such a plan never reaches undo: apply refuses it before it
     touches anything (the occupied-destination check at the top of apply_plan); same answer from the real
     apply_plan and from the CLI, see the report *)
  Definition t_chain : fs := [([[97]], File 420 [1]); ([[98]], File 384 [2])].
  Definition p_chain : aplan :=
    {| ap_id := []; ap_hunks := []; ap_renames := [mk [[97]] [[98]] false; mk [[98]] [[99]] false] |}.
  Example chain_is_refused_by_apply :
    r_ok (apply_core no_fault p_chain t_chain) = false /\
    r_fail (apply_core no_fault p_chain t_chain) = Some (FailConflict [[98]]) /\
    r_fs (apply_core no_fault p_chain t_chain) = t_chain.
  Proof. vm_compute. repeat split. Qed.
End UndoForced.

(* ==================================================================================== *)
(* 9. the content stage as undo.rs::apply_single_patch performs it TODAY: through a temp file          *)
(* ==================================================================================== *)
(* Model/UndoModel.v::restore_stage writes the restored content in place.  The code no longer does: it
   writes the content to  file_path.with_extension("<pid>.renamify.tmp")  with fs::write, copies the
   permissions to it and renames it over the file ("a crash in the middle must not leave the user's file
   truncated").  fs::write is open(O_WRONLY|O_CREAT|O_TRUNC): unlike the create_new of apply it does not
   refuse an existing entry of that name.  This section restates the stage that way and proves that it
   computes LITERALLY the same tree as [restore_stage] - hence the main theorem holds of it - PROVIDED the
   temp name next to every patched file is free, which for the temp name of the apply process is
   [po_hunks] of [plan_ok]; the proof forces that hypothesis, the model witness is
   [undo_tmp_name_must_be_free] and the real undo fails the same way (see the report: a user file of that
   name is destroyed, a symlink of that name is written through, exit status 0). *)

(* fs::write.  A symlink is followed by the real call; links are opaque in Model/Fs.v, so that case is
   not expressible here and is made an error (the run on the real code is in the report) *)
Definition write_fs (p : path) (data : bytes) (t : fs) : fres fs :=
  match lookup t p with
  | Some (File m _) => FOk ((p, File m data) :: remove t p)      (* truncated and rewritten, mode kept *)
  | Some (Dir _) => FErr EISDIR
  | Some (Link _) => FErr EINVAL
  | None => if is_dir t (parent p) then FOk ((p, File 420 data) :: t) else FErr ENOENT
  end.

Definition patch_file_tmp (f : path) (c : bytes) (t : fs) : fres fs :=
  match lookup t f with
  | Some (File m _) =>
      match write_fs (tmp_of f) c t with
      | FOk a => match chmod_fs (tmp_of f) m a with
                 | FOk b => rename_fs (tmp_of f) f b
                 | FErr e => FErr e
                 end
      | FErr e => FErr e
      end
  | _ => FErr ENOENT
  end.

Fixpoint restore_stage_tmp (restore : list (path * option bytes)) (t : fs) (failed : list path) : fs * list path :=
  match restore with
  | [] => (t, failed)
  | (p, r) :: rest =>
      match r with
      | Some c => match patch_file_tmp p c t with
                  | FOk t' => restore_stage_tmp rest t' failed
                  | FErr _ => restore_stage_tmp rest t (failed ++ [p])
                  end
      | None => restore_stage_tmp rest t (failed ++ [p])
      end
  end.

Definition undo_core_tmp (rs : list aren) (restore : list (path * option bytes)) (created : list path) (t : fs)
  : undo_result :=
  match undo_dir_stage (undo_dirs rs) t with
  | FErr _ => {| u_fs := t; u_ok := false; u_failed := [] |}
  | FOk t1 =>
      match undo_file_stage (undo_files rs) t1 with
      | FErr _ => {| u_fs := t1; u_ok := false; u_failed := [] |}
      | FOk t2 =>
          let (t3, failed) := restore_stage_tmp restore t2 [] in
          let t4 := cleanup_stage (sort_by (fun d : path => length d) false created) t3 in
          {| u_fs := t4; u_ok := match failed with [] => true | _ => false end; u_failed := failed |}
      end
  end.

(* one file, temp name free: the same tree as the in-place write of the model *)
Lemma patch_file_tmp_free f m cur c t :
  lookup t f = Some (File m cur) -> free_at t (tmp_of f) -> is_dir t (parent f) = true ->
  patch_file_tmp f c t = FOk ((f, File m c) :: remove t f).
Proof.
  intros L Fr D. unfold patch_file_tmp, write_fs. rewrite L, (of_T_absent f t Fr), parent_tmp_of, D.
  pose proof (of_step_chmod f m t Fr c) as X. cbn [exec_mop] in X. rewrite X.
  pose proof (of_step_rename f m cur t L Fr D c) as Y. cbn [exec_mop] in Y. exact Y.
Qed.

Lemma restore_stage_tmp_exact t : forall restore t' failed,
  NoDup (keys t') ->
  (forall f r, In (f, r) restore -> exists m c, lookup t f = Some (File m c) /\ r = Some c) ->
  (forall q, lookup t' q = lookup t q \/
             (In q (map fst restore) /\
              exists m c c', lookup t q = Some (File m c) /\ lookup t' q = Some (File m c'))) ->
  (* in addition: *)
  (forall k, In k (map fst t') -> In k (map fst t)) ->
  (forall f r, In (f, r) restore -> free_at t (tmp_of f) /\ is_dir t (parent f) = true) ->
  exists t3, restore_stage_tmp restore t' failed = (t3, failed) /\
             restore_stage restore t' failed = (t3, failed) /\
             NoDup (keys t3) /\ forall q, lookup t3 q = lookup t q.
Proof.
  induction restore as [|[f r] rest IH]; intros t' failed ND R Inv K T; cbn [restore_stage restore_stage_tmp].
  - exists t'. split; [reflexivity|]. split; [reflexivity|]. split; [exact ND|].
    intro q. destruct (Inv q) as [H|[[] _]]. exact H.
  - destruct (R f r (or_introl eq_refl)) as (m & c & Lt & ->).
    destruct (T f (Some c) (or_introl eq_refl)) as [Fr Dp].
    assert (X : exists c', lookup t' f = Some (File m c')).
    { destruct (Inv f) as [H|[_ (m' & c1 & c' & L1 & L2)]].
      - exists c. congruence.
      - rewrite Lt in L1. inversion L1; subst. exists c'. exact L2. }
    destruct X as [c' L'].
    assert (Dp' : is_dir t' (parent f) = true).
    { unfold is_dir in *. destruct (parent f) as [|a0 a'] eqn:Ep; [reflexivity|].
      destruct (Inv (a0 :: a')) as [H|[_ (m' & c1 & c2 & L1 & _)]]; [rewrite H; exact Dp|].
      rewrite L1 in Dp. discriminate. }
    rewrite (patch_file_tmp_free f m c' c t' L' (free_at_sub t t' (tmp_of f) K Fr) Dp'), L'. apply IH.
    + unfold keys. cbn [map fst]. constructor; [|apply keys_remove_nodup; exact ND].
      intro I. exact (remove_key_neq _ _ _ I eq_refl).
    + intros f0 r0 I. apply R. right. exact I.
    + intro q. destruct (path_dec q f) as [->|N].
      * left. rewrite lookup_cons_eq. symmetry. exact Lt.
      * rewrite lookup_cons_neq by congruence. rewrite lookup_remove_neq by exact N.
        destruct (Inv q) as [H|[I X]]; [left; exact H|right]. split; [|exact X].
        cbn [map fst In] in I. destruct I as [E|I]; [congruence|exact I].
    + cbn [map fst]. intros k [<-|I]; [eapply lookup_some_in; exact Lt|]. apply K. eapply remove_keys. exact I.
    + intros f0 r0 I. apply (T f0 r0). right. exact I.
Qed.

(* the main theorem for the stage as the code performs it.  Additional hypothesis, as in the code: the keys of
   [restore] are files of hunks (patches_by_file is filled from plan.matches); then [po_hunks] makes the temp
   name next to each of them free *)
Theorem undo_apply_exact_tmp p t restore created :
  plan_ok p t -> restore_ok p t restore -> created_ok t created ->
  (forall f r, In (f, r) restore -> exists h, In h (ap_hunks p) /\ ah_file h = f) ->
  let u := undo_core_tmp (ap_renames p) restore created (r_fs (apply_core no_fault p t)) in
  u = undo_core (ap_renames p) restore created (r_fs (apply_core no_fault p t)) /\
  u_ok u = true /\ u_failed u = [] /\
  Permutation (u_fs u) t /\ NoDup (keys (u_fs u)) /\
  (forall q, lookup (u_fs u) q = lookup t q).
Proof.
  intros W [R1 R2] Cr Hk. cbv zeta.
  destruct (undo_front p t W) as (t1 & t2 & D & F & ND1 & K1 & Df).
  unfold undo_core_tmp, undo_core. rewrite D, F.
  destruct (restore_stage_tmp_exact t restore t1 [] ND1 R1 (front_inv p t t1 restore R2 Df) K1)
    as (t3 & S' & S & ND3 & L3).
  { intros f r I. destruct (Hk f r I) as (h & Ih & <-).
    pose proof (edits_by_file_has_key _ _ Ih) as Kf. apply in_map_iff in Kf as [[f es] [Ef If]].
    cbn [fst] in Ef. subst f.
    destruct (co_files_ok p t W _ es If) as (m & c & _ & _ & _ & Fr & Dp). split; assumption. }
  rewrite S', S.
  destruct (undo_back t t3 created (po_nodup _ _ W) ND3 L3 Cr) as [Cl P3]. rewrite Cl.
  cbn [u_fs u_ok u_failed]. repeat split; assumption.
Qed.

Module UndoTmp.
  Local Open Scope N_scope.
  Import Witness UndoWitness Forced.

  (* non-vacuity: the witness of section 7 *)
  Example p1_tmp :
    undo_core_tmp (ap_renames p1) restore1 [] (r_fs (apply_core no_fault p1 t1)) =
      {| u_fs := [([d; ftxt], File 384 c0); ([d], Dir 493); ([d; y], File 420 [1; 2; 3]);
                  ([z], File 420 c0); ([lnk], Link [100])];
         u_ok := true; u_failed := [] |}.
  Proof. vm_compute. reflexivity. Qed.
  Example p1_tmp_theorem :
    Permutation (u_fs (undo_core_tmp (ap_renames p1) restore1 [] (r_fs (apply_core no_fault p1 t1)))) t1.
  Proof.
    refine (proj1 (proj2 (proj2 (proj2 (undo_apply_exact_tmp p1 t1 restore1 [] p1_ok restore1_ok
                                         (fun _ _ F => match F with end) _))))).
    intros f r [E|[]]. inversion E; subst. eexists. split; [left; reflexivity|reflexivity].
  Qed.

  (* the forced hypothesis: an entry that carries the temp name when undo runs (here a user's file, put there
     after the apply; with a temp name built from the pid of the UNDO process it can as well have been there
     before the apply, which only refuses the temp name of its own pid) is destroyed by the stage as the code
     performs it, the stage reports no failure; the in-place stage of Model/UndoModel.v leaves it alone *)
  Definition t_mid : fs := [([a_txt], File 420 new); (tmp_of [a_txt], File 384 [1; 2; 3])].
  Example undo_tmp_name_must_be_free :
    restore_stage_tmp [([a_txt], Some old)] t_mid [] = ([([a_txt], File 420 old)], []) /\
    lookup t_mid (tmp_of [a_txt]) = Some (File 384 [1; 2; 3]) /\
    lookup (fst (restore_stage_tmp [([a_txt], Some old)] t_mid [])) (tmp_of [a_txt]) = None /\
    lookup (fst (restore_stage [([a_txt], Some old)] t_mid [])) (tmp_of [a_txt]) = Some (File 384 [1; 2; 3]).
  Proof. vm_compute. repeat split. Qed.
End UndoTmp.

(* ==================================================================================== *)
(* Assumptions                                                                           *)
(* ==================================================================================== *)
Print Assumptions undo_apply_exact.
Print Assumptions undo_apply_exact_nil.
Print Assumptions undo_apply_exact_tmp.
Print Assumptions undo_node_count.
Print Assumptions undo_file_restored.
Print Assumptions undo_edited_and_moved.
Print Assumptions undo_symlink_restored.
Print Assumptions undo_directory_restored.
Print Assumptions undo_sources_back.
Print Assumptions undo_destinations_free.
Print Assumptions undo_destination_free.
Print Assumptions undo_bystander.
Print Assumptions UndoWitness.p1_ok.
Print Assumptions UndoWitness.restore1_ok.
