(* Proofs/ScanFileP.v — one file, end to end: Model/Enhanced.v::find_enhanced_matches (exact pass,
   identifier extraction, compound pass, sort, overlap resolution) composed with
   Model/HunkTail.v::generate_hunks (coercion by the model of coercion.rs, HunkTailP2), on a file that
   contains one standalone occurrence of a multi-word term in an enabled visible style.
     enhanced_standalone   find_enhanced_matches returns exactly the exact match of the occurrence
     scan_file_standalone  generate_hunks_m on that list is the single same-style hunk, and applying
                           its edit rewrites the file to dl ++ new ++ dr
   Why the compound pass adds nothing: in a context of bytes that are neither alphanumeric nor '-' nor
   '_' the identifier regex can only START inside the occurrence, and — although '.' is an identifier
   character, so `occ.` is scanned greedily past the occurrence — every alternative has to END at a
   \b, which does not exist between two context bytes: every identifier lies inside the occurrence's
   span and is dropped by should_skip (second disjunct).  No restriction on '.' next to the occurrence
   is needed.
   The one added hypothesis: the words are also neutral for the DEFAULT acronym table, because
   compound_scanner.rs tokenises the search term with it (is_single_word_search, lines 131-137).
   Stdlib + lia only. *)
From Coq Require Import Lia.
From RN Require Import Base.Bytes Model.StyleDef Model.CaseModel Model.CaseSpec Model.Matcher Model.Edits.
From RN Require Import Gen.GenAcronyms Model.Compound.
From RN Require Import Proofs.CaseP1 Proofs.CaseP2 Proofs.CaseP3 Proofs.CaseP Proofs.StandaloneP
                       Proofs.HunksP Proofs.EnhancedP1 Proofs.EnhancedP2 Proofs.HunkTailP Proofs.HunkTailP2.
From RN Require Import Model.Enhanced Model.HunkTail.
Close Scope N_scope.
Open Scope bool_scope.

(* ------------------------------------------------------------------------------------------ *)
(* the regex at one position                                                                  *)
(* ------------------------------------------------------------------------------------------ *)
Lemma backtrack_wb s : forall n m, backtrack s n = Some m -> wb_at s m = true.
Proof.
  induction n as [|k IH]; intros m H; cbn [backtrack] in H; [discriminate|].
  destruct (wb_at s (S k)) eqn:E; [inversion H; subst; exact E|apply IH, H].
Qed.

(* whatever alternative matches, it ends at a word boundary *)
Lemma match_at_wb title prev s n : match_at title prev s = Some n -> wb_at s n = true.
Proof.
  unfold match_at. destruct (wb prev (nth_error s 0)); [|discriminate].
  assert (Hi : ident_match s = Some n -> wb_at s n = true).
  { unfold ident_match. destruct s as [|c r]; [discriminate|].
    destruct (is_id_start c); [|discriminate]. apply backtrack_wb. }
  destruct title; [|exact Hi].
  destruct (title_match s) as [k|] eqn:Et; [|exact Hi].
  intro H. inversion H; subst k. unfold title_match in Et.
  destruct (title_word s) as [w|]; [|discriminate]. apply find_some in Et. apply Et.
Qed.

Lemma ctx_not_word x : is_ctx x = true -> is_word x = false.
Proof.
  unfold is_ctx, is_word. intro H. apply andb_true_iff in H as [H H3]. apply andb_true_iff in H as [H1 H2].
  apply negb_true_iff in H1, H3. rewrite H1, H3. reflexivity.
Qed.

(* no alternative can start on a context byte *)
Lemma match_at_ctx title prev x s : is_ctx x = true -> match_at title prev (x :: s) = None.
Proof.
  intro H. unfold is_ctx in H. apply andb_true_iff in H as [H H3]. apply andb_true_iff in H as [H1 H2].
  apply negb_true_iff in H1, H3. unfold is_alnum in H1. apply orb_false_iff in H1 as [Ha _].
  unfold match_at. destruct (wb prev (nth_error (x :: s) 0)); [|reflexivity].
  assert (Hu : is_upper x = false) by (unfold is_alpha in Ha; apply orb_false_iff in Ha as [Hu _]; exact Hu).
  assert (Hi : ident_match (x :: s) = None).
  { unfold ident_match, is_id_start. rewrite Ha, H3. reflexivity. }
  destruct title; [|exact Hi]. unfold title_match, title_word. rewrite Hu. exact Hi.
Qed.

Lemma ctxs_nth_word r i : ctxs r = true -> is_word_o (nth_error r i) = false.
Proof.
  intro H. destruct (nth_error r i) as [x|] eqn:E; [|reflexivity]. cbn [is_word_o].
  apply ctx_not_word. apply nth_error_In in E. eapply ctxs_In; eauto.
Qed.

(* there is no word boundary strictly inside (or at the end of) a run of context bytes *)
Lemma wb_at_beyond w r n : ctxs r = true -> length w < n -> wb_at (w ++ r) n = false.
Proof.
  intros Hr Hn. unfold wb_at, wb.
  rewrite !nth_error_app2 by lia. rewrite !ctxs_nth_word by exact Hr. reflexivity.
Qed.

Lemma match_at_bound title prev w r n : ctxs r = true -> match_at title prev (w ++ r) = Some n -> n <= length w.
Proof.
  intros Hr H. apply match_at_wb in H.
  destruct (Nat.le_gt_cases n (length w)) as [Hle|Hgt]; [exact Hle|].
  rewrite wb_at_beyond in H by assumption. discriminate.
Qed.

(* every reported match is a match of the regex at its position *)
Lemma rscan_match title : forall s prev skip pos a b id,
  In (a, b, id) (rscan title prev skip pos s) ->
  exists prev', match_at title prev' (skipn (a - pos) s) = Some (b - a).
Proof.
  induction s as [|x s' IH]; intros prev skip pos a b id; cbn [rscan]; [intros []|].
  assert (Hrec : forall prev0 skip0, In (a, b, id) (rscan title prev0 skip0 (S pos) s') ->
                 exists prev', match_at title prev' (skipn (a - pos) (x :: s')) = Some (b - a)).
  { intros prev0 skip0 Hin. pose proof (rscan_sound title _ _ _ _ _ _ _ Hin) as (H1 & _).
    destruct (IH _ _ _ _ _ _ Hin) as [p' Hp']. exists p'.
    replace (a - pos) with (S (a - S pos)) by lia. exact Hp'. }
  destruct skip as [|k]; [|apply Hrec].
  destruct (match_at title prev (x :: s')) as [n|] eqn:Em; [|apply Hrec].
  intros [Hhd|Hin]; [|eapply Hrec, Hin].
  injection Hhd as <- <- <-. exists prev. rewrite Nat.sub_diag. cbn [skipn].
  replace (pos + n - pos) with n by lia. exact Em.
Qed.

(* ------------------------------------------------------------------------------------------ *)
(* identifiers of  l ++ occ ++ r  with context l, r: all inside the span of occ                  *)
(* ------------------------------------------------------------------------------------------ *)
Lemma ctxs_app a b : ctxs (a ++ b) = ctxs a && ctxs b.
Proof. apply forallb_app. Qed.

Lemma ctxs_skipn n s : ctxs s = true -> ctxs (skipn n s) = true.
Proof. intro H. rewrite <- (firstn_skipn n s), ctxs_app in H. apply andb_true_iff in H as [_ H]. exact H. Qed.

Lemma ctxs_firstn n s : ctxs s = true -> ctxs (firstn n s) = true.
Proof. intro H. rewrite <- (firstn_skipn n s), ctxs_app in H. apply andb_true_iff in H as [H _]. exact H. Qed.

Lemma regex_in_occ title l occ r a b id :
  ctxs l = true -> ctxs r = true ->
  In (a, b, id) (regex_find_iter title (l ++ occ ++ r)) -> length l <= a /\ b <= length l + length occ.
Proof.
  intros Hl Hr Hin. unfold regex_find_iter in Hin.
  pose proof (rscan_sound title _ _ _ _ _ _ _ Hin) as (_ & Hab & Hb & _).
  destruct (rscan_match title _ _ _ _ _ _ _ Hin) as [prev' Hm]. rewrite Nat.sub_0_r in Hm.
  cbn [Nat.add] in Hb. rewrite !app_length in Hb.
  destruct (Nat.lt_ge_cases a (length l)) as [Ha|Ha].
  { exfalso. rewrite skipn_app in Hm. replace (a - length l) with 0 in Hm by lia. cbn [skipn] in Hm.
    pose proof (ctxs_skipn a l Hl) as Hc.
    destruct (skipn a l) as [|x t] eqn:E.
    - apply (f_equal (@length N)) in E. rewrite skipn_length in E. cbn [length] in E. lia.
    - cbn [ctxs forallb] in Hc. apply andb_true_iff in Hc as [Hx _]. cbn [app] in Hm.
      rewrite match_at_ctx in Hm by exact Hx. discriminate. }
  split; [exact Ha|].
  destruct (Nat.lt_ge_cases a (length l + length occ)) as [Ho|Ho].
  - rewrite skipn_app, skipn_all2 in Hm by lia. cbn [app] in Hm.
    rewrite skipn_app in Hm. replace (a - length l - length occ) with 0 in Hm by lia. cbn [skipn] in Hm.
    apply match_at_bound in Hm; [|exact Hr]. rewrite skipn_length in Hm. lia.
  - exfalso. rewrite app_assoc, skipn_app, skipn_all2 in Hm by (rewrite app_length; lia). cbn [app] in Hm.
    rewrite app_length in Hm. pose proof (ctxs_skipn (a - (length l + length occ)) r Hr) as Hc.
    destruct (skipn (a - (length l + length occ)) r) as [|x t] eqn:E.
    + apply (f_equal (@length N)) in E. rewrite skipn_length in E. cbn [length] in E. lia.
    + cbn [ctxs forallb] in Hc. apply andb_true_iff in Hc as [Hx _].
      rewrite match_at_ctx in Hm by exact Hx. discriminate.
Qed.

Lemma find_all_in_occ title split l occ r s e p :
  ctxs l = true -> ctxs r = true ->
  In (s, e, p) (find_all_with title split (l ++ occ ++ r)) -> length l <= s /\ e <= length l + length occ.
Proof.
  intros Hl Hr H. rewrite find_all_with_eq in H. apply in_flat_map in H as ([[a b] id0] & Hin & Hex).
  destruct (regex_in_occ title l occ r a b id0 Hl Hr Hin) as [Ha Hb].
  apply regex_find_iter_sound in Hin.
  destruct (expand_sound split _ a b id0 s e p Hin Hex) as (_ & H1 & H2). lia.
Qed.

Corollary find_all_ctx_nil title split l : ctxs l = true -> find_all_with title split l = [].
Proof.
  intro Hl. destruct (find_all_with title split l) as [|[[s e] p] t] eqn:E; [reflexivity|exfalso].
  assert (Hin : In (s, e, p) (find_all_with title split (l ++ [] ++ []))).
  { rewrite !app_nil_r, E. left. reflexivity. }
  pose proof (find_all_in_occ title split l [] [] s e p Hl eq_refl Hin) as [H1 H2].
  rewrite !app_nil_r in Hin. apply find_all_with_sound in Hin. destruct Hin as (H3 & _). cbn [length] in H2. lia.
Qed.

(* ------------------------------------------------------------------------------------------ *)
(* the slices the extractor is run on start and end at line boundaries                        *)
(* ------------------------------------------------------------------------------------------ *)
Definition bnd (c : bytes) (x : nat) : Prop :=
  x = 0 \/ x = length c \/ (1 <= x /\ nth_error c (x - 1) = Some 10%N).

Lemma line_offsets_from_bnd : forall c pos b x,
  In x (line_offsets_from pos b c) ->
  (b = true /\ x = pos) \/ exists j, x = pos + S j /\ nth_error c j = Some 10%N.
Proof.
  induction c as [|y c IH]; intros pos b x H; cbn [line_offsets_from] in H; [destruct H|].
  apply in_app_or in H as [H|H].
  - destruct b; [|destruct H]. destruct H as [<-|[]]. left. auto.
  - apply IH in H as [[Hb ->]|[j [-> Hj]]].
    + right. exists 0. split; [lia|]. cbn [nth_error]. apply N.eqb_eq in Hb. subst y. reflexivity.
    + right. exists (S j). split; [lia|]. exact Hj.
Qed.

Lemma line_offsets_bnd c x : In x (line_offsets c) -> bnd c x.
Proof.
  intro H. apply line_offsets_from_bnd in H as [[_ ->]|[j [-> Hj]]]; [left; reflexivity|].
  right. right. split; [lia|]. replace (0 + S j - 1) with j by lia. exact Hj.
Qed.

Lemma identifiers_for_bnd styles c exact extra s e id :
  In (s, e, id) (identifiers_for styles c exact extra) ->
  exists start stop a b,
    bnd c start /\ bnd c stop /\ start <= stop /\ stop <= length c /\ s = start + a /\ e = start + b /\
    In (a, b, id) (find_all styles (firstn (stop - start) (skipn start c))).
Proof.
  assert (Hwhole : In (s, e, id) (find_all styles c) ->
    exists start stop a b,
      bnd c start /\ bnd c stop /\ start <= stop /\ stop <= length c /\ s = start + a /\ e = start + b /\
      In (a, b, id) (find_all styles (firstn (stop - start) (skipn start c)))).
  { intro H. exists 0, (length c), s, e. rewrite Nat.sub_0_r. cbn [skipn]. rewrite firstn_all.
    unfold bnd. repeat split; auto; lia. }
  unfold identifiers_for. destruct exact as [|m ms]; [exact Hwhole|].
  destruct (candidate_lines (m :: ms) extra) as [|l ls]; [exact Hwhole|].
  generalize (l :: ls). intro lines. unfold scoped_identifiers. intro H.
  apply in_flat_map in H as (line_idx & _ & H).
  destruct (nth_error (line_offsets c) (line_idx - 1)) as [start|] eqn:Es; [|destruct H].
  pose proof (line_bounds c _ _ Es) as Hb. cbn zeta in Hb.
  assert (Hbs : bnd c start) by (apply line_offsets_bnd; eapply nth_error_In; eauto).
  assert (Hbe : bnd c (match nth_error (line_offsets c) (S (line_idx - 1)) with Some e0 => e0 | None => length c end)).
  { destruct (nth_error (line_offsets c) (S (line_idx - 1))) as [e0|] eqn:Ee.
    - apply line_offsets_bnd. eapply nth_error_In; eauto.
    - right. left. reflexivity. }
  set (stop := match nth_error (line_offsets c) (S (line_idx - 1)) with Some e0 => e0 | None => length c end) in *.
  destruct Hb as (Hb1 & Hb2).
  apply in_map_iff in H as ([[a b] id0] & Heq & Hin). injection Heq as <- <- <-.
  exists start, stop, a, b. repeat split; auto; lia.
Qed.

(* a line boundary does not fall strictly inside a newline-free occurrence *)
Lemma bnd_outside dl occ dr x : nonl occ = true -> bnd (dl ++ occ ++ dr) x ->
  x <= length dl \/ length dl + length occ <= x.
Proof.
  intros Hn [->|[->|[Hx Hnl]]]; [left; lia|right; rewrite !app_length; lia|].
  destruct (Nat.le_gt_cases x (length dl)) as [H|H]; [left; exact H|].
  destruct (Nat.le_gt_cases (length dl + length occ) (x - 1)) as [H2|H2]; [right; lia|exfalso].
  rewrite nth_error_app2, nth_error_app1 in Hnl by lia.
  apply nth_error_In in Hnl. unfold nonl in Hn. rewrite forallb_forall in Hn.
  specialize (Hn _ Hnl). discriminate Hn.
Qed.

Lemma slice_in_occ title split dl occ dr start stop a b id :
  ctxs dl = true -> ctxs dr = true ->
  start <= stop -> stop <= length (dl ++ occ ++ dr) ->
  (start <= length dl \/ length dl + length occ <= start) ->
  (stop <= length dl \/ length dl + length occ <= stop) ->
  In (a, b, id) (find_all_with title split (firstn (stop - start) (skipn start (dl ++ occ ++ dr)))) ->
  length dl <= start + a /\ start + b <= length dl + length occ.
Proof.
  intros Hdl Hdr Hss Hsl Hs He Hin.
  assert (Hnil : forall l, ctxs l = true -> firstn (stop - start) (skipn start (dl ++ occ ++ dr)) = l -> False).
  { intros l Hl E. rewrite E, (find_all_ctx_nil title split l Hl) in Hin. destruct Hin. }
  destruct (Nat.le_gt_cases (length dl + length occ) start) as [H1|H1].
  { (* the slice lies in dr *)
    exfalso. eapply Hnil; [|reflexivity].
    rewrite app_assoc, skipn_app, skipn_all2 by (rewrite app_length; lia). cbn [app].
    apply ctxs_firstn, ctxs_skipn, Hdr. }
  assert (Hs' : start <= length dl) by lia. clear Hs.
  destruct (Nat.le_gt_cases stop (length dl)) as [H2|H2].
  { (* the slice lies in dl *)
    exfalso. eapply Hnil; [|reflexivity].
    rewrite skipn_app. replace (start - length dl) with 0 by lia. cbn [skipn].
    rewrite firstn_app, skipn_length. replace (stop - start - (length dl - start)) with 0 by lia.
    cbn [firstn]. rewrite app_nil_r. apply ctxs_firstn, ctxs_skipn, Hdl. }
  assert (He' : length dl + length occ <= stop) by lia. clear He.
  (* the slice contains the occurrence *)
  assert (E : firstn (stop - start) (skipn start (dl ++ occ ++ dr)) =
              skipn start dl ++ occ ++ firstn (stop - length dl - length occ) dr).
  { rewrite skipn_app. replace (start - length dl) with 0 by lia. cbn [skipn].
    rewrite firstn_app, skipn_length, firstn_all2 by (rewrite skipn_length; lia).
    f_equal. rewrite firstn_app, firstn_all2 by lia. f_equal. f_equal. lia. }
  rewrite E in Hin.
  destruct (find_all_in_occ title split _ occ _ a b id (ctxs_skipn start dl Hdl)
              (ctxs_firstn (stop - length dl - length occ) dr Hdr) Hin) as [Ha Hb].
  rewrite skipn_length in Ha, Hb. lia.
Qed.

(* ------------------------------------------------------------------------------------------ *)
(* the search term is not a "single word"                                                     *)
(* ------------------------------------------------------------------------------------------ *)
Lemma multiword_not_single acr sw S0 styles :
  all_neutral acr sw = true -> all_neutral gen_acronyms sw = true -> 2 <= length sw -> visible S0 = true ->
  skip_exact_match (to_style acr sw S0) styles = false.
Proof.
  intros Hn Hg Hlen Hv. unfold skip_exact_match.
  replace (is_single_word_search (to_style acr sw S0)) with false; [reflexivity|]. symmetry.
  assert (Hne : sw <> []) by (clear - Hlen; destruct sw; [cbn [length] in Hlen; lia|discriminate]).
  unfold is_single_word_search, contains.
  rewrite (to_style_render acr sw S0 Hn), <- (to_style_render gen_acronyms sw S0 Hg).
  rewrite (tokens_render gen_acronyms S0 sw gen_acronyms_wf Hv Hne Hg), toks_of_length.
  rewrite (to_style_render gen_acronyms sw S0 Hg).
  rewrite !(flag_byte gen_acronyms sw Hg Hlen S0) by reflexivity.
  replace (Nat.leb (length sw) 1) with false by (symmetry; apply Nat.leb_gt; lia).
  destruct S0; try discriminate Hv; reflexivity.
Qed.

(* ------------------------------------------------------------------------------------------ *)
(* 1. find_enhanced_matches on a standalone occurrence                                        *)
(* ------------------------------------------------------------------------------------------ *)
Lemma compound_pass_all_skipped c search replace styles pr ids :
  (forall s e id, In (s, e, id) ids -> should_skip pr s e = true) ->
  compound_pass c search replace styles pr ids = [].
Proof.
  intro H. unfold compound_pass. induction ids as [|[[s e] id] ids IH]; [reflexivity|].
  cbn [flat_map]. rewrite (H s e id (or_introl eq_refl)). cbn [app]. apply IH.
  intros s' e' id' Hin. apply (H s' e' id'). right. exact Hin.
Qed.

Theorem enhanced_standalone :
  forall acr defaults amb S0 S1 S sw rw styles dl dr extra,
  wf_acr acr = true -> visible S0 = true -> visible S1 = true -> visible S = true ->
  2 <= length sw -> rw <> [] -> all_neutral acr sw = true -> all_neutral acr rw = true ->
  all_neutral gen_acronyms sw = true ->
  In S styles -> ctxs dl = true -> ctxs dr = true ->
  let search := to_style acr sw S0 in
  let repl := to_style acr rw S1 in
  let vm := variant_map_core acr defaults [] [] false amb search repl (Some styles) in
  let occ := to_style acr sw S in
  let c := dl ++ occ ++ dr in
  let m := {| m_line := line_of c (length dl); m_col := col_of c (length dl);
              m_start := length dl; m_end := length dl + length occ; m_text := occ |} in
  find_matches (keys vm) c = [m] /\
  find_enhanced_matches c search repl (keys vm) styles extra = [ematch_of_exact m].
Proof.
  intros acr defaults amb S0 S1 S sw rw styles dl dr extra Hwf Hv0 Hv1 Hv Hlen Hrne Hns Hnr Hng Hin Hdl Hdr
         search repl vm occ c m.
  destruct (C06_standalone_ctx acr defaults amb S0 S1 S sw rw styles dl dr
              Hwf Hv0 Hv1 Hv Hlen Hrne Hns Hnr Hin Hdl Hdr) as [Hfm _].
  fold search repl vm occ c m in Hfm. split; [exact Hfm|].
  assert (Hone : occ <> []).
  { apply to_style_ne; auto. clear - Hlen. destruct sw; [cbn [length] in Hlen; lia|discriminate]. }
  assert (Honl : nonl occ = true) by (apply to_style_nonl; assumption).
  assert (Hex : exact_matches (keys vm) search styles c = [ematch_of_exact m]).
  { unfold exact_matches. unfold search. rewrite (multiword_not_single acr sw S0 styles Hns Hng Hlen Hv0).
    unfold exact_pass. replace (Nat.eqb (length c) 0) with false.
    - rewrite andb_false_r, Hfm. reflexivity.
    - symmetry. apply Nat.eqb_neq. unfold c. rewrite !app_length. clear - Hone. destruct occ; [congruence|cbn [length]; lia]. }
  unfold find_enhanced_matches, all_candidates. rewrite Hex.
  rewrite compound_pass_all_skipped.
  - reflexivity.
  - intros s e id Hid.
    destruct (identifiers_for_bnd styles c _ extra s e id Hid)
      as (start & stop & a & b & Hbs & Hbe & Hss & Hsl & -> & -> & Hfa).
    unfold c in Hbs, Hbe, Hsl, Hfa.
    destruct (slice_in_occ _ _ dl occ dr start stop a b id Hdl Hdr Hss Hsl
                (bnd_outside dl occ dr start Honl Hbs) (bnd_outside dl occ dr stop Honl Hbe) Hfa) as [H1 H2].
    unfold should_skip, ranges_of. cbn [map existsb ematch_of_exact Enhanced.e_start e_end m m_start m_end].
    replace (Nat.leb (length dl) (start + a)) with true by (symmetry; apply Nat.leb_le; exact H1).
    replace (Nat.leb (start + b) (length dl + length occ)) with true by (symmetry; apply Nat.leb_le; exact H2).
    cbn [andb]. rewrite !orb_true_r. reflexivity.
Qed.

(* ------------------------------------------------------------------------------------------ *)
(* 2. the file, end to end                                                                    *)
(* ------------------------------------------------------------------------------------------ *)
Theorem scan_file_standalone :
  forall acr resolve line_excluded o defaults amb S0 S1 S sw rw styles dl dr extra,
  wf_acr acr = true -> visible S0 = true -> visible S1 = true -> visible S = true ->
  2 <= length sw -> rw <> [] -> all_neutral acr sw = true -> all_neutral acr rw = true ->
  all_neutral gen_acronyms sw = true ->
  In S styles -> ctxs dl = true -> ctxs dr = true -> head_ok dr = true ->
  let search := to_style acr sw S0 in
  let repl := to_style acr rw S1 in
  let vm := variant_map_core acr defaults [] [] false amb search repl (Some styles) in
  let occ := to_style acr sw S in
  let new := to_style acr rw S in
  let c := dl ++ occ ++ dr in
  let line := after_nl dl ++ occ ++ upto_nl dr in
  mem occ (o_exclude_match o) = false -> line_excluded line = false ->
  let h := {| t_line := line_of c (length dl); t_col := length (after_nl dl);
              t_start := length dl; t_end := length dl + length occ;
              t_variant := occ; t_content := occ; t_replace := new;
              t_before := line; t_after := after_nl dl ++ new ++ upto_nl dr; t_note := false |} in
  generate_hunks_m acr resolve line_excluded o vm c repl
    (find_enhanced_matches c search repl (keys vm) styles extra) = [h] /\
  apply_edits_rev c [edit_of_thunk h] = Ok (dl ++ new ++ dr).
Proof.
  intros acr resolve line_excluded o defaults amb S0 S1 S sw rw styles dl dr extra
         Hwf Hv0 Hv1 Hv Hlen Hrne Hns Hnr Hng Hin Hdl Hdr Hhd search repl vm occ new c line Hmem Hexcl h.
  destruct (enhanced_standalone acr defaults amb S0 S1 S sw rw styles dl dr extra
              Hwf Hv0 Hv1 Hv Hlen Hrne Hns Hnr Hng Hin Hdl Hdr) as [Hfm Hen].
  fold search repl vm occ c in Hfm, Hen.
  destruct (standalone_hunk_same_style_ctx_m acr resolve line_excluded o repl defaults amb S0 S1 S sw rw styles
              dl dr Hwf Hv0 Hv1 Hv Hlen Hrne Hns Hnr Hin Hdl Hdr Hhd Hmem Hexcl) as (m' & _ & _ & Hgen & Happ).
  fold search repl vm occ new c line h in Hgen, Happ.
  split; [|exact Happ]. rewrite Hen. rewrite Hfm in Hgen. exact Hgen.
Qed.

(* ------------------------------------------------------------------------------------------ *)
(* 3. an occurrence in a DISABLED visible style                                               *)
(* ------------------------------------------------------------------------------------------ *)
(* the exact pass finds nothing (C06_disabled_untouched); the extractor then runs over the whole
   file, every identifier lies inside the occurrence, and the question is whether the compound
   matcher rewrites one of them *)
Lemma whole_file_in_occ styles dl occ dr s e id :
  ctxs dl = true -> ctxs dr = true ->
  In (s, e, id) (find_all styles (dl ++ occ ++ dr)) ->
  length dl <= s /\ e <= length dl + length occ /\ id = firstn (e - s) (skipn (s - length dl) occ).
Proof.
  intros Hdl Hdr Hin. destruct (find_all_in_occ _ _ dl occ dr s e id Hdl Hdr Hin) as [H1 H2].
  apply find_all_with_sound in Hin. destruct Hin as (Hse & _ & Hid).
  split; [exact H1|]. split; [exact H2|]. rewrite Hid.
  rewrite skipn_app, skipn_all2 by lia. cbn [app]. rewrite skipn_app, firstn_app, skipn_length.
  replace (e - s - (length occ - (s - length dl))) with 0 by lia. cbn [firstn]. apply app_nil_r.
Qed.

Theorem disabled_reduction :
  forall acr defaults amb S0 S1 S sw rw styles dl dr extra,
  wf_acr acr = true -> visible S0 = true -> visible S1 = true -> visible S = true ->
  2 <= length sw -> rw <> [] -> all_neutral acr sw = true -> all_neutral acr rw = true ->
  all_neutral gen_acronyms sw = true ->
  ~ In S styles -> ctxs dl = true -> ctxs dr = true ->
  let search := to_style acr sw S0 in
  let repl := to_style acr rw S1 in
  let vm := variant_map_core acr defaults [] [] false amb search repl (Some styles) in
  let occ := to_style acr sw S in
  let c := dl ++ occ ++ dr in
  find_matches (keys vm) c = [] /\
  ((forall s e id, In (s, e, id) (find_all styles c) -> find_compound_variants id search repl styles = []) ->
   find_enhanced_matches c search repl (keys vm) styles extra = []).
Proof.
  intros acr defaults amb S0 S1 S sw rw styles dl dr extra Hwf Hv0 Hv1 Hv Hlen Hrne Hns Hnr Hng Hout Hdl Hdr
         search repl vm occ c.
  destruct (C06_disabled_untouched acr defaults amb S0 S1 S sw rw styles dl dr Hwf Hv0 Hv1 Hv Hlen Hrne Hns Hnr
              Hout (ctxs_noalpha dl Hdl) (ctxs_noalpha dr Hdr)) as [_ Hfm].
  fold search repl vm occ c in Hfm. split; [exact Hfm|]. intro Hids.
  assert (Hone : occ <> []).
  { apply to_style_ne; auto. clear - Hlen. destruct sw; [cbn [length] in Hlen; lia|discriminate]. }
  assert (Hex : exact_matches (keys vm) search styles c = []).
  { unfold exact_matches. unfold search. rewrite (multiword_not_single acr sw S0 styles Hns Hng Hlen Hv0).
    unfold exact_pass. replace (Nat.eqb (length c) 0) with false.
    - rewrite andb_false_r, Hfm. reflexivity.
    - symmetry. apply Nat.eqb_neq. unfold c. rewrite !app_length. clear - Hone. destruct occ; [congruence|cbn [length]; lia]. }
  unfold find_enhanced_matches, all_candidates. rewrite Hex. cbn [app ranges_of map identifiers_for].
  replace (compound_pass c search repl styles [] (find_all styles c)) with (@nil ematch); [reflexivity|].
  symmetry. unfold compound_pass. generalize Hids. generalize (find_all styles c).
  induction l as [|[[s e] id] l IH]; intro H; [reflexivity|]. cbn [flat_map should_skip existsb].
  rewrite (H s e id (or_introl eq_refl)). cbn [app]. apply IH. intros s' e' id' Hin. apply (H s' e' id'). right. exact Hin.
Qed.

(* the compound matcher on the occurrence itself: whatever it finds, the style it infers for the
   identifier is the occurrence's own — disabled — style, so nothing is reported *)
Lemma fcv_whole_occ_nil sw S search repl styles :
  all_neutral gen_acronyms sw = true -> 2 <= length sw -> visible S = true -> ~ In S styles ->
  find_compound_variants (render S sw) search repl styles = [].
Proof.
  intros Hg Hlen Hv Hout.
  assert (Hne : sw <> []) by (clear - Hlen; destruct sw; [cbn [length] in Hlen; lia|discriminate]).
  destruct (render_shape gen_acronyms S sw Hg Hne) as (Hs & _).
  assert (Hex : Compound.extract_prefix (render S sw) = ([], render S sw)).
  { destruct (render S sw) as [|x t]; [discriminate Hs|]. unfold starts_alpha in Hs. cbn [hd_is] in Hs.
    cbn [Compound.extract_prefix]. destruct (x =? 95)%N eqn:E; [|reflexivity].
    apply N.eqb_eq in E. subst x. discriminate Hs. }
  assert (Hmixed : (contains 95 (render S sw) && contains 45 (render S sw)
                    || contains 95 (render S sw) && contains 46 (render S sw)
                    || contains 45 (render S sw) && contains 46 (render S sw)) = false).
  { unfold contains. rewrite !(flag_byte gen_acronyms sw Hg Hlen S) by reflexivity. destruct S; reflexivity. }
  assert (Hsty : existsb (style_eqb S) styles = false).
  { destruct (existsb (style_eqb S) styles) eqn:E; [|reflexivity]. exfalso. apply Hout.
    apply existsb_exists in E as (x & Hx & Ex). apply style_eqb_eq in Ex. subst x. exact Hx. }
  unfold find_compound_variants, fcv. rewrite Hex.
  destruct (Nat.eqb _ _ && tokens_match _ _); [reflexivity|].
  rewrite Hmixed. cbn [andb].
  destruct (Nat.ltb _ _); [reflexivity|]. destruct (Nat.eqb _ 0 || Nat.eqb _ 0); [reflexivity|].
  destruct (Nat.eqb _ 0); [reflexivity|].
  destruct (scan _ _ _ _ _ _ _) as [rt made]. destruct (Nat.eqb made 0); [reflexivity|].
  unfold inferred_style. rewrite (detect_render gen_acronyms S sw Hlen Hg), Hv, Hsty. reflexivity.
Qed.

(* styles whose renderings consist of word characters only (letters and '_'): there is no \b inside
   the occurrence, so the only identifier is the occurrence itself *)
Definition word_style (S : style) : bool :=
  match S with Snake | ScreamingSnake | Camel | Pascal => true | _ => false end.

Lemma rscan_match_prev title : forall s prev skip pos a b id,
  In (a, b, id) (rscan title prev skip pos s) ->
  match_at title (if Nat.eqb a pos then prev else nth_error s (a - pos - 1)) (skipn (a - pos) s) = Some (b - a).
Proof.
  induction s as [|x s' IH]; intros prev skip pos a b id; cbn [rscan]; [intros []|].
  assert (Hrec : forall skip0, In (a, b, id) (rscan title (Some x) skip0 (S pos) s') ->
                 match_at title (if Nat.eqb a pos then prev else nth_error (x :: s') (a - pos - 1))
                   (skipn (a - pos) (x :: s')) = Some (b - a)).
  { intros skip0 Hin. pose proof (rscan_sound title _ _ _ _ _ _ _ Hin) as (H1 & _).
    pose proof (IH _ _ _ _ _ _ Hin) as Hp.
    replace (Nat.eqb a pos) with false by (symmetry; apply Nat.eqb_neq; lia).
    replace (a - pos) with (S (a - S pos)) by lia. cbn [skipn].
    destruct (Nat.eqb a (S pos)) eqn:E.
    - apply Nat.eqb_eq in E. subst a. replace (S (S pos - S pos) - 1) with 0 by lia. exact Hp.
    - apply Nat.eqb_neq in E. replace (S (a - S pos) - 1) with (S (a - S pos - 1)) by lia. exact Hp. }
  destruct skip as [|k]; [|apply Hrec].
  destruct (match_at title prev (x :: s')) as [n|] eqn:Em; [|apply Hrec].
  intros [Hhd|Hin]; [|eapply Hrec, Hin].
  injection Hhd as <- <- <-. rewrite Nat.eqb_refl, Nat.sub_diag. cbn [skipn].
  replace (pos + n - pos) with n by lia. exact Em.
Qed.

Lemma match_at_start_wb title prev s n : match_at title prev s = Some n -> wb prev (nth_error s 0) = true.
Proof. unfold match_at. destruct (wb prev (nth_error s 0)); [reflexivity|discriminate]. Qed.

Lemma forallb_nth (p : N -> bool) l i : forallb p l = true -> i < length l ->
  exists x, nth_error l i = Some x /\ p x = true.
Proof.
  intros H Hi. destruct (nth_error l i) as [x|] eqn:E; [|apply nth_error_None in E; lia].
  exists x. split; [reflexivity|]. rewrite forallb_forall in H. apply H. eapply nth_error_In; eauto.
Qed.

Lemma regex_whole_occ title l occ r a b id :
  ctxs l = true -> ctxs r = true -> forallb is_word occ = true ->
  In (a, b, id) (regex_find_iter title (l ++ occ ++ r)) ->
  a = length l /\ b = length l + length occ /\ id = occ.
Proof.
  intros Hl Hr Hw Hin.
  destruct (regex_in_occ title l occ r a b id Hl Hr Hin) as [Ha Hb].
  pose proof (regex_find_iter_sound _ _ _ _ _ Hin) as (Hab & _ & Hid).
  unfold regex_find_iter in Hin. pose proof (rscan_match_prev title _ _ _ _ _ _ _ Hin) as Hm.
  rewrite !Nat.sub_0_r in Hm.
  assert (Ea : a = length l).
  { destruct (Nat.eq_dec a (length l)) as [E|E]; [exact E|exfalso].
    apply match_at_start_wb in Hm.
    replace (Nat.eqb a 0) with false in Hm by (symmetry; apply Nat.eqb_neq; lia).
    rewrite nth_error_app2 in Hm by lia.
    destruct (forallb_nth is_word occ (a - 1 - length l) Hw ltac:(lia)) as (x & Ex & Hx).
    rewrite nth_error_app1, Ex in Hm by lia.
    rewrite skipn_app, skipn_all2 in Hm by lia. cbn [app] in Hm.
    rewrite skipn_app in Hm. replace (a - length l - length occ) with 0 in Hm by lia. cbn [skipn] in Hm.
    destruct (forallb_nth is_word occ (a - length l) Hw ltac:(lia)) as (y & Ey & Hy).
    destruct (skipn (a - length l) occ) as [|y' t] eqn:Es.
    - apply (f_equal (@length N)) in Es. rewrite skipn_length in Es. cbn [length] in Es. lia.
    - assert (y' = y).
      { pose proof (nth_error_skipn_add occ (a - length l) 0) as Hn. rewrite Es, Nat.add_0_r, Ey in Hn.
        cbn [nth_error] in Hn. congruence. }
      subst y'. cbn [app nth_error] in Hm. unfold wb in Hm. cbn [is_word_o] in Hm. rewrite Hx, Hy in Hm. discriminate. }
  subst a.
  assert (Eb : b = length l + length occ).
  { destruct (Nat.eq_dec b (length l + length occ)) as [E|E]; [exact E|exfalso].
    apply match_at_wb in Hm. rewrite skipn_app, skipn_all, Nat.sub_diag in Hm. cbn [app skipn] in Hm.
    unfold wb_at in Hm.
    destruct (forallb_nth is_word occ (b - length l - 1) Hw ltac:(lia)) as (x & Ex & Hx).
    destruct (forallb_nth is_word occ (b - length l) Hw ltac:(lia)) as (y & Ey & Hy).
    rewrite !nth_error_app1, Ex, Ey in Hm by lia. unfold wb in Hm. cbn [is_word_o] in Hm.
    rewrite Hx, Hy in Hm. discriminate. }
  subst b. split; [reflexivity|]. split; [reflexivity|]. rewrite Hid.
  rewrite skipn_app, skipn_all, Nat.sub_diag. cbn [app skipn].
  replace (length l + length occ - length l) with (length occ) by lia. apply firstn_app_exact.
Qed.

Lemma forallb_join (p : N -> bool) d : p d = true -> forall Xs, forallb (forallb p) Xs = true ->
  forallb p (join [d] Xs) = true.
Proof.
  intros Hd. induction Xs as [|X Xs IH]; [reflexivity|]. cbn [forallb]. intro H.
  apply andb_true_iff in H as [HX HXs]. destruct Xs as [|Y Zs]; [exact HX|].
  change (join [d] (X :: Y :: Zs)) with (X ++ [d] ++ join [d] (Y :: Zs)).
  rewrite !forallb_app, HX, (IH HXs). cbn [forallb]. rewrite Hd. reflexivity.
Qed.

Lemma forallb_concat (p : N -> bool) : forall Xs, forallb (forallb p) Xs = true -> forallb p (concat Xs) = true.
Proof.
  induction Xs as [|X Xs IH]; [reflexivity|]. cbn [forallb concat]. intro H.
  apply andb_true_iff in H as [HX HXs]. rewrite forallb_app, HX, (IH HXs). reflexivity.
Qed.

Lemma good_all_word acr Xs ws : Forall2 (CaseP2.good acr) Xs ws -> forallb (forallb is_word) Xs = true.
Proof.
  induction 1 as [|X w Xs ws HX _ IH]; [reflexivity|]. cbn [forallb]. rewrite IH, andb_true_r.
  eapply forallb_impl; [|exact (good_alpha acr X w HX)].
  intros c Hc. unfold is_word, is_alnum. rewrite Hc. reflexivity.
Qed.

Lemma word_style_all_word acr sw S : all_neutral acr sw = true -> sw <> [] -> word_style S = true ->
  forallb is_word (render S sw) = true.
Proof.
  intros Hn Hne Hw.
  pose proof (good_all_word acr _ _ (toks_of_good acr S sw Hn)) as Ht.
  rewrite (render_sep S sw Hne). destruct S; try discriminate Hw; cbn [sep_of].
  - apply forallb_join; [reflexivity|exact Ht].
  - apply forallb_concat, Ht.
  - apply forallb_concat, Ht.
  - apply forallb_join; [reflexivity|exact Ht].
Qed.

(* statement 3 for Snake, ScreamingSnake, Camel, Pascal occurrences *)
Theorem scan_file_disabled_untouched_word :
  forall acr defaults amb S0 S1 S sw rw styles dl dr extra,
  wf_acr acr = true -> visible S0 = true -> visible S1 = true -> word_style S = true ->
  2 <= length sw -> rw <> [] -> all_neutral acr sw = true -> all_neutral acr rw = true ->
  all_neutral gen_acronyms sw = true ->
  ~ In S styles -> ctxs dl = true -> ctxs dr = true ->
  let search := to_style acr sw S0 in
  let repl := to_style acr rw S1 in
  let vm := variant_map_core acr defaults [] [] false amb search repl (Some styles) in
  let c := dl ++ to_style acr sw S ++ dr in
  find_enhanced_matches c search repl (keys vm) styles extra = [] /\
  forall resolve line_excluded o,
    generate_hunks_m acr resolve line_excluded o vm c repl
      (find_enhanced_matches c search repl (keys vm) styles extra) = [].
Proof.
  intros acr defaults amb S0 S1 S sw rw styles dl dr extra Hwf Hv0 Hv1 Hws Hlen Hrne Hns Hnr Hng Hout Hdl Hdr
         search repl vm c.
  assert (Hv : visible S = true) by (destruct S; try discriminate Hws; reflexivity).
  assert (Hne : sw <> []) by (clear - Hlen; destruct sw; [cbn [length] in Hlen; lia|discriminate]).
  destruct (disabled_reduction acr defaults amb S0 S1 S sw rw styles dl dr extra
              Hwf Hv0 Hv1 Hv Hlen Hrne Hns Hnr Hng Hout Hdl Hdr) as [_ Hred].
  fold search repl vm c in Hred.
  assert (E : find_enhanced_matches c search repl (keys vm) styles extra = []).
  { apply Hred. intros s e id Hin. unfold c in Hin. rewrite (to_style_render acr sw S Hns) in Hin.
    unfold find_all in Hin. rewrite find_all_with_eq in Hin.
    apply in_flat_map in Hin as ([[a b] id0] & Hin & Hex).
    destruct (regex_whole_occ _ dl (render S sw) dr a b id0 Hdl Hdr
                (word_style_all_word acr sw S Hns Hne Hws) Hin) as (-> & -> & ->).
    unfold expand in Hex.
    replace (contains 46 (render S sw)) with false in Hex.
    2:{ symmetry. unfold contains. rewrite (flag_byte acr sw Hns Hlen S 46%N eq_refl).
        destruct S; try discriminate Hws; reflexivity. }
    cbn [andb] in Hex. destruct Hex as [Hex|[]]. injection Hex as <- <- <-.
    apply fcv_whole_occ_nil; assumption. }
  split; [exact E|]. intros resolve line_excluded o. rewrite E. reflexivity.
Qed.

(* ------------------------------------------------------------------------------------------ *)
(* computed instances                                                                         *)
(* ------------------------------------------------------------------------------------------ *)
From Coq Require Import Strings.String.
From RN Require Import Base.Str Gen.GenStyles.

(* '.' directly before and after the occurrence (an identifier character): `..(Old-Name.)` on the
   second line of a file, Train enabled together with Title (whose regex alternative splits Old-Name
   into Old / Name) — still exactly the exact match *)
Example ex_enhanced_dots :
  let vm := variant_map_core gen_acronyms gen_default_styles [] [] false false (bs "old_name") (bs "newTitleWord")
              (Some gen_default_styles) in
  let c := bs "=." ++ [10%N] ++ bs "..(.Old-Name.)" ++ [10%N] in
  find_enhanced_matches c (bs "old_name") (bs "newTitleWord") (keys vm) gen_default_styles None
    = [mk_ematch 2 4 7 15 (bs "Old-Name") (bs "Old-Name")] /\
  find_all gen_default_styles c = [(7, 10, bs "Old"); (11, 15, bs "Name")].
Proof. vm_compute. split; reflexivity. Qed.

(* statement 3 for the eight styles scan_file_disabled_untouched_word does not cover (their renderings
   contain a non-word separator, so the extractor reports pieces of the occurrence): computed for
   every such style S, with all other visible styles enabled, only Snake enabled, and Title + Dot
   enabled; contexts with dots.  No match in any of them (300 random instances on the real scanner:
   replay_scanfile.py) *)
Example ex_disabled_other_styles :
  let sw := [bs "old"; bs "name"; bs "here"] in
  let vis := [Snake; Kebab; Camel; Pascal; ScreamingSnake; Title; Train; ScreamingTrain; Dot; Sentence;
              LowerSentence; UpperSentence] in
  forallb (fun S =>
    forallb (fun styles =>
      let styles := filter (fun x => negb (style_eqb x S)) styles in
      let vm := variant_map_core gen_acronyms gen_default_styles [] [] false false (bs "old_name_here") (bs "newName")
                  (Some styles) in
      match find_enhanced_matches (bs ".(" ++ to_style gen_acronyms sw S ++ bs ". ") (bs "old_name_here") (bs "newName")
              (keys vm) styles None with [] => true | _ => false end)
      [vis; [Snake]; [Title; Dot]; [Train; Title; Sentence]])
    [Kebab; Title; Train; ScreamingTrain; Dot; Sentence; LowerSentence; UpperSentence] = true.
Proof. vm_compute. reflexivity. Qed.

Print Assumptions enhanced_standalone.
Print Assumptions scan_file_standalone.
Print Assumptions disabled_reduction.
Print Assumptions fcv_whole_occ_nil.
Print Assumptions scan_file_disabled_untouched_word.
