(* Proofs/CaseP2.v — how the tokenizer runs over one rendered word, and the tokens of a rendered
   name (strong form of the round trip). *)
From Coq Require Import Lia ZArith ZifyBool.
From RN Require Import Base.Bytes Model.StyleDef Model.CaseModel Model.CaseSpec.
From RN Require Import Proofs.CaseP1.
Open Scope N_scope.

(* ------------------------------------------------------------------ tok with spare fuel *)
Definition tk (n : nat) (acr : acr_tab) (prev : option N) (rest cur : bytes) (acc : list bytes) :=
  tok (n + length rest)%nat acr prev rest cur acc.

Lemma tk_nil n acr prev cur acc : tk n acr prev [] cur acc = Some (rev (push_tok cur acc)).
Proof. unfold tk. destruct (n + length [])%nat; reflexivity. Qed.

Lemma tk_delim n acr prev b r cur acc : is_delim b = true ->
  tk n acr prev (b :: r) cur acc = tk n acr (Some b) r [] (push_tok cur acc).
Proof.
  intro H. unfold tk. cbn [length]. rewrite Nat.add_succ_r. cbn [tok]. rewrite H. reflexivity.
Qed.

Lemma tk_start n acr prev b r acc :
  is_delim b = false -> is_alpha b || is_digit b = true ->
  try_acronym acr b (b :: r) = None -> try_upper_run acr b (b :: r) = None ->
  tk n acr prev (b :: r) [] acc = tk n acr (Some b) r [b] acc.
Proof.
  intros H1 H2 H3 H4. unfold tk. cbn [length]. rewrite Nat.add_succ_r. cbn [tok].
  rewrite H1, H2, H3, H4. destruct prev; reflexivity.
Qed.

Lemma tk_cont n acr p b r cur acc :
  is_delim b = false -> is_alpha b || is_digit b = true -> cur <> [] ->
  tk n acr (Some p) (b :: r) cur acc =
  if should_split acr p b cur (b :: r) r then tk n acr (Some b) r [b] (cur :: acc)
  else tk n acr (Some b) r (cur ++ [b]) acc.
Proof.
  intros H1 H2 H3. unfold tk. cbn [length]. rewrite Nat.add_succ_r. cbn [tok].
  rewrite H1, H2. destruct cur; [contradiction|]. reflexivity.
Qed.

Lemma tk_cont_none n acr b r cur acc :
  is_delim b = false -> is_alpha b || is_digit b = true -> cur <> [] ->
  tk n acr None (b :: r) cur acc = tk n acr (Some b) r (cur ++ [b]) acc.
Proof.
  intros H1 H2 H3. unfold tk. cbn [length]. rewrite Nat.add_succ_r. cbn [tok].
  rewrite H1, H2. destruct cur; [contradiction|]. reflexivity.
Qed.

(* ------------------------------------------------------------------ should_split *)
Lemma should_split_lower acr p b cur rest rest' :
  is_lower b = true -> should_split acr p b cur rest rest' = false.
Proof.
  intro H. unfold should_split.
  rewrite (lower_not_upper _ H), (lower_not_digit _ H). cbn [andb].
  rewrite !andb_false_r. reflexivity.
Qed.

Lemma should_split_upper_run acr p b cur rest rest' :
  is_upper b = true -> is_upper p = true -> hd_is is_lower rest' = false ->
  should_split acr p b cur rest rest' = false.
Proof.
  intros Hb Hp Hr. unfold should_split.
  rewrite Hr, (upper_not_lower _ Hp), (upper_not_digit _ Hb), (upper_not_digit _ Hp).
  rewrite !andb_false_r. cbn [andb]. reflexivity.
Qed.

Lemma should_split_low_up acr p b cur rest rest' :
  is_lower p = true -> is_upper b = true -> should_split acr p b cur rest rest' = true.
Proof.
  intros Hp Hb. unfold should_split. rewrite Hp, Hb.
  match goal with |- (if ?c then _ else _) = _ => destruct c end; reflexivity.
Qed.

(* ------------------------------------------------------------------ runs of lower / upper bytes *)
Definition lastp (l : bytes) (prev : option N) : option N := fold_left (fun _ b => Some b) l prev.

Lemma lastp_prop (q : N -> bool) l : forall prev, forallb q l = true -> l <> [] ->
  exists p, lastp l prev = Some p /\ q p = true.
Proof.
  induction l as [|b l IH]; intros prev Hq Hne; [contradiction|].
  cbn [forallb] in Hq. apply andb_true_iff in Hq as [Hb Hq].
  destruct l as [|c l].
  - exists b. auto.
  - apply (IH (Some b)); [exact Hq | discriminate].
Qed.

Lemma lower_run n acr tail acc : forall l prev cur,
  forallb is_lower l = true -> cur <> [] ->
  tk n acr prev (l ++ tail) cur acc = tk n acr (lastp l prev) tail (cur ++ l) acc.
Proof.
  induction l as [|b l IH]; intros prev cur Hl Hc.
  - cbn. rewrite app_nil_r. reflexivity.
  - cbn [forallb] in Hl. apply andb_true_iff in Hl as [Hb Hl].
    cbn [app].
    assert (E : tk n acr prev (b :: l ++ tail) cur acc = tk n acr (Some b) (l ++ tail) (cur ++ [b]) acc).
    { destruct prev as [p|].
      - rewrite tk_cont; auto using lower_not_delim.
        + rewrite should_split_lower by exact Hb. reflexivity.
        + rewrite (lower_alpha _ Hb). reflexivity.
      - apply tk_cont_none; auto using lower_not_delim.
        rewrite (lower_alpha _ Hb). reflexivity. }
    rewrite E, IH; auto.
    + rewrite <- app_assoc. reflexivity.
    + destruct cur; discriminate.
Qed.

Lemma hd_is_lower_upper_app l tail :
  forallb is_upper l = true -> hd_is is_lower tail = false -> hd_is is_lower (l ++ tail) = false.
Proof.
  destruct l as [|c l]; cbn [app hd_is forallb]; auto.
  intros H _. apply andb_true_iff in H as [H _]. apply upper_not_lower, H.
Qed.

Lemma upper_run n acr tail acc : hd_is is_lower tail = false -> forall l p cur,
  forallb is_upper l = true -> is_upper p = true -> cur <> [] ->
  exists prev', tk n acr (Some p) (l ++ tail) cur acc = tk n acr prev' tail (cur ++ l) acc.
Proof.
  intros Ht. induction l as [|b l IH]; intros p cur Hl Hp Hc.
  - exists (Some p). cbn. rewrite app_nil_r. reflexivity.
  - cbn [forallb] in Hl. apply andb_true_iff in Hl as [Hb Hl].
    cbn [app]. rewrite tk_cont; auto using upper_not_delim.
    + rewrite should_split_upper_run; auto using hd_is_lower_upper_app.
      destruct (IH b (cur ++ [b]) Hl Hb) as [prev' E]; [destruct cur; discriminate|].
      exists prev'. rewrite E, <- app_assoc. reflexivity.
    + rewrite (upper_alpha _ Hb). reflexivity.
Qed.

(* ------------------------------------------------------------------ neutral words *)
Definition capw (w : bytes) : bytes :=
  match w with [] => [] | c :: w' => to_upper c :: w' end.

Lemma neutral_inv acr w : neutral acr w = true ->
  (3 <= length w)%nat /\ forallb is_lower w = true /\ is_acronym acr (upper w) = false /\
  acr_inert acr w = true.
Proof.
  unfold neutral. intro H.
  apply andb_true_iff in H as [H H4]. apply andb_true_iff in H as [H H3].
  apply andb_true_iff in H as [H1 H2]. apply Nat.leb_le in H1. apply negb_true_iff in H3. auto.
Qed.

Lemma neutral_shape acr w : neutral acr w = true ->
  exists c c1 w2, w = c :: c1 :: w2 /\ is_lower c = true /\ is_lower c1 = true /\
                  forallb is_lower w2 = true /\ w2 <> [].
Proof.
  intro H. apply neutral_inv in H as (H1 & H2 & _).
  destruct w as [|c [|c1 [|c2 w3]]]; cbn [length] in H1; try lia.
  exists c, c1, (c2 :: w3). cbn [forallb] in H2.
  apply andb_true_iff in H2 as [Ha H2]. apply andb_true_iff in H2 as [Hb H2].
  repeat split; auto. discriminate.
Qed.

Lemma not_acronym_in acr x : is_acronym acr x = false -> ~ In x acr.
Proof.
  unfold is_acronym. intros H Hin.
  assert (existsb (beq x) acr = true) by (apply existsb_exists; exists x; split; [exact Hin | apply beq_refl]).
  congruence.
Qed.

(* ------------------------------------------------------------------ try_acronym on word shapes *)
Lemma consistent_mixed a x y :
  In x a -> is_upper x = false -> In y a -> is_lower y || is_digit y = false ->
  negb (forallb is_upper a || forallb (fun c => is_lower c || is_digit c) a) = true.
Proof.
  intros Hx Hx' Hy Hy'.
  rewrite (forallb_false_in is_upper a x Hx Hx').
  rewrite (forallb_false_in (fun c => is_lower c || is_digit c) a y Hy Hy'). reflexivity.
Qed.

Lemma try_acr_low acr w b w1 tail :
  wf_acr acr = true -> neutral acr w = true -> w = b :: w1 -> tail_ok tail ->
  try_acronym acr b (w ++ tail) = None.
Proof.
  intros Hwf Hn Hw Ht.
  destruct (neutral_inv _ _ Hn) as (Hlen & Hlow & Hna & _).
  assert (Hb : is_lower b = true).
  { subst w. cbn [forallb] in Hlow. apply andb_true_iff in Hlow as [Hb _]. exact Hb. }
  unfold try_acronym. rewrite flm_eq.
  destruct (flm_len acr (w ++ tail)) as [n|] eqn:E; [|reflexivity].
  cbn [option_map]. apply flm_len_some in E as (best & Hin & Hp & Hl & Hn0).
  destruct (Nat.lt_trichotomy n (length w)) as [Hlt|[Heq|Hgt]].
  - (* proper prefix of the word: next byte is lower *)
    destruct (split_at w n) as (u & v & Huv & Hu); [lia|].
    assert (Hv : exists nb v', v = nb :: v').
    { destruct v as [|nb v']; [|eauto]. rewrite Huv, app_nil_r in Hlt. lia. }
    destruct Hv as (nb & v' & ->).
    assert (Hlow' := Hlow). rewrite Huv, forallb_app in Hlow'.
    apply andb_true_iff in Hlow' as [Hu_low Hv_low].
    cbn [forallb] in Hv_low. apply andb_true_iff in Hv_low as [Hnb _].
    rewrite Huv, <- app_assoc. rewrite (firstn_app_exact u _ n Hu).
    replace (forallb (fun c => is_lower c || is_digit c) u) with true.
    2:{ symmetry. eapply forallb_impl; [|exact Hu_low]. intros x Hx. cbn beta. rewrite Hx. reflexivity. }
    rewrite orb_true_r. cbn [negb].
    rewrite (skipn_app_exact u _ (length u) eq_refl). cbn [app].
    rewrite (lower_not_upper _ Hb). cbn [andb]. rewrite Hb, Hnb. rewrite orb_true_r. reflexivity.
  - (* the whole word: it would be an acronym *)
    exfalso. apply ci_prefix_upper in Hp. rewrite Hl, Heq in Hp.
    rewrite (firstn_app_exact w tail (length w) eq_refl) in Hp. subst best.
    exact (not_acronym_in _ _ Hna Hin).
  - (* beyond the word *)
    destruct tail as [|d more].
    + exfalso. apply ci_prefix_len in Hp. rewrite app_nil_r in Hp. lia.
    + cbn in Ht. destruct Ht as [Hd|Hd].
      * exfalso. rewrite ci_prefix_app_delim in Hp.
        -- apply ci_prefix_len in Hp. lia.
        -- apply (wf_acr_in acr best Hwf Hin).
        -- exact Hd.
      * assert (Ha : firstn n (w ++ d :: more) = w ++ d :: firstn (n - length w - 1) more).
        { rewrite firstn_app. rewrite firstn_all2 by lia. f_equal.
          destruct (n - length w)%nat as [|k] eqn:Ek; [lia|]. cbn [firstn]. f_equal. f_equal. lia. }
        rewrite Ha. rewrite (consistent_mixed _ b d); auto.
        -- subst w. left. reflexivity.
        -- apply lower_not_upper, Hb.
        -- apply in_or_app. right. left. reflexivity.
        -- rewrite (upper_not_lower _ Hd), (upper_not_digit _ Hd). reflexivity.
Qed.

Lemma try_acr_cap acr U c1 r :
  wf_acr acr = true -> is_upper U = true -> is_lower c1 = true ->
  try_acronym acr U (U :: c1 :: r) = None.
Proof.
  intros Hwf HU Hc. unfold try_acronym. rewrite flm_eq.
  destruct (flm_len acr (U :: c1 :: r)) as [n|] eqn:E; [|reflexivity].
  cbn [option_map]. apply flm_len_some in E as (best & Hin & Hp & Hl & Hn0).
  destruct (wf_acr_in acr best Hwf Hin) as [H2 _].
  destruct n as [|[|n]]; try lia. cbn [firstn].
  rewrite (consistent_mixed _ c1 U); auto.
  - right; left; reflexivity.
  - apply lower_not_upper, Hc.
  - left; reflexivity.
  - rewrite (upper_not_lower _ HU), (upper_not_digit _ HU). reflexivity.
Qed.

Lemma try_acr_up acr w b W1 tail :
  wf_acr acr = true -> neutral acr w = true -> upper w = b :: W1 -> tail_de tail ->
  try_acronym acr b (upper w ++ tail) = None.
Proof.
  intros Hwf Hn Hw Ht.
  destruct (neutral_inv _ _ Hn) as (Hlen & Hlow & Hna & Hinert).
  assert (Hup := upper_all_upper w Hlow).
  assert (Hb : is_upper b = true).
  { rewrite Hw in Hup. cbn [forallb] in Hup. apply andb_true_iff in Hup as [Hb _]. exact Hb. }
  unfold try_acronym. rewrite flm_eq. rewrite (flm_len_app_delim acr _ _ Hwf Ht).
  destruct (flm_len acr (upper w)) as [n|] eqn:E; [|reflexivity].
  cbn [option_map]. pose proof (flm_len_some _ _ _ E) as (best & Hin & Hp & Hl & Hn0).
  assert (Hle : (n <= length (upper w))%nat) by (apply ci_prefix_len in Hp; lia).
  destruct (Nat.eq_dec n (length (upper w))) as [Heq|Hne].
  - exfalso. apply ci_prefix_upper in Hp. rewrite Hl, Heq, firstn_all, upper_idem in Hp. subst best.
    exact (not_acronym_in _ _ Hna Hin).
  - destruct (split_at (upper w) n Hle) as (u & v & Huv & Hu).
    assert (Hv : exists nb v', v = nb :: v').
    { destruct v as [|nb v']; [|eauto]. rewrite Huv, app_nil_r in Hne. clear - Hne Hu. lia. }
    destruct Hv as (nb & v' & ->).
    assert (Hup' := Hup). rewrite Huv, forallb_app in Hup'.
    apply andb_true_iff in Hup' as [Hu_up Hv_up].
    cbn [forallb] in Hv_up. apply andb_true_iff in Hv_up as [Hnb _].
    (* inertness: nothing matches after the prefix *)
    unfold acr_inert in Hinert. rewrite flm_eq, E in Hinert. cbn [option_map] in Hinert.
    rewrite firstn_length_le in Hinert by exact Hle.
    rewrite upper_length in Hle, Hne.
    assert (Hlt : Nat.ltb n (length w) = true) by (apply Nat.ltb_lt; clear - Hle Hne; lia).
    rewrite Hlt in Hinert.
    rewrite Huv in Hinert. rewrite (skipn_app_exact u _ n Hu) in Hinert.
    rewrite flm_eq in Hinert.
    destruct (flm_len acr (nb :: v')) eqn:E2; [discriminate|].
    rewrite Huv, <- app_assoc. rewrite (firstn_app_exact u _ n Hu).
    rewrite Hu_up. cbn [orb negb].
    rewrite (skipn_app_exact u _ (length u) eq_refl). cbn [app].
    rewrite Hb, Hnb. cbn [andb].
    change (nb :: v' ++ tail) with ((nb :: v') ++ tail).
    rewrite flm_eq, (flm_len_app_delim acr _ _ Hwf Ht), E2. reflexivity.
Qed.

(* ------------------------------------------------------------------ try_upper_run on word shapes *)
Lemma try_ur_low acr b rest : is_upper b = false -> try_upper_run acr b rest = None.
Proof. intro H. unfold try_upper_run. rewrite H. reflexivity. Qed.

Lemma try_ur_cap acr U c1 r : is_upper c1 = false -> try_upper_run acr U (U :: c1 :: r) = None.
Proof.
  intro H. unfold try_upper_run. destruct (is_upper U) eqn:E; [|reflexivity].
  cbn [span]. rewrite E, H. reflexivity.
Qed.

Lemma tail_de_hd_lower tail : tail_de tail -> hd_is is_lower tail = false.
Proof. destruct tail; cbn; auto using delim_not_lower. Qed.
Lemma tail_de_hd_upper tail : tail_de tail -> hd_is is_upper tail = false.
Proof. destruct tail; cbn; auto using delim_not_upper. Qed.

Lemma try_ur_up acr b W tail :
  forallb is_upper W = true -> tail_de tail -> try_upper_run acr b (W ++ tail) = None.
Proof.
  intros HW Ht. unfold try_upper_run. destruct (is_upper b); [|reflexivity].
  rewrite (span_app _ _ _ HW (tail_de_hd_upper _ Ht)).
  rewrite (tail_de_hd_lower _ Ht), andb_false_r. reflexivity.
Qed.

(* ------------------------------------------------------------------ one word *)
Section Words.
Variable acr : acr_tab.
Hypothesis Hwf : wf_acr acr = true.

Lemma run_low n prev w tail acc : neutral acr w = true -> tail_ok tail ->
  exists p, is_lower p = true /\ tk n acr prev (w ++ tail) [] acc = tk n acr (Some p) tail w acc.
Proof.
  intros Hn Ht. destruct (neutral_shape _ _ Hn) as (c & c1 & w2 & Hw & Hc & Hc1 & Hw2 & Hne).
  destruct (neutral_inv _ _ Hn) as (_ & Hlow & _).
  destruct (lastp_prop is_lower w prev Hlow) as (p & Hp & Hpl); [subst w; discriminate|].
  exists p. split; [exact Hpl|].
  pose proof (try_acr_low acr w c (c1 :: w2) tail Hwf Hn Hw Ht) as Ha.
  subst w. cbn [app] in *.
  rewrite tk_start; auto using lower_not_delim.
  - change (c1 :: w2 ++ tail) with ((c1 :: w2) ++ tail). rewrite lower_run.
    + cbn [lastp fold_left] in *. rewrite Hp. reflexivity.
    + cbn [forallb] in Hlow. apply andb_true_iff in Hlow as [_ H]. exact H.
    + discriminate.
  - rewrite (lower_alpha _ Hc). reflexivity.
  - apply try_ur_low, lower_not_upper, Hc.
Qed.

Lemma run_cap n prev w tail acc : neutral acr w = true ->
  exists p, is_lower p = true /\
    tk n acr prev (capw w ++ tail) [] acc = tk n acr (Some p) tail (capw w) acc.
Proof.
  intros Hn. destruct (neutral_shape _ _ Hn) as (c & c1 & w2 & Hw & Hc & Hc1 & Hw2 & Hne).
  assert (Hlow : forallb is_lower (c1 :: w2) = true) by (cbn [forallb]; rewrite Hc1, Hw2; reflexivity).
  destruct (lastp_prop is_lower (c1 :: w2) (Some (to_upper c)) Hlow) as (p & Hp & Hpl); [discriminate|].
  exists p. split; [exact Hpl|].
  subst w. cbn [capw app].
  assert (HU := to_upper_lower_is_upper _ Hc).
  rewrite tk_start; auto using upper_not_delim.
  - change (c1 :: w2 ++ tail) with ((c1 :: w2) ++ tail). rewrite lower_run; auto.
    + rewrite Hp. reflexivity.
    + discriminate.
  - rewrite (upper_alpha _ HU). reflexivity.
  - apply try_acr_cap; auto.
  - apply try_ur_cap, lower_not_upper, Hc1.
Qed.

Lemma run_up n prev w tail acc : neutral acr w = true -> tail_de tail ->
  exists prev', tk n acr prev (upper w ++ tail) [] acc = tk n acr prev' tail (upper w) acc.
Proof.
  intros Hn Ht. destruct (neutral_inv _ _ Hn) as (_ & Hlow & _).
  assert (Hup := upper_all_upper w Hlow).
  destruct (upper w) as [|b W1] eqn:Hw.
  { apply neutral_shape in Hn as (c & c1 & w2 & -> & _). discriminate. }
  pose proof (try_acr_up acr w b W1 tail Hwf Hn Hw Ht) as Ha. rewrite Hw in Ha.
  pose proof (try_ur_up acr b (b :: W1) tail Hup Ht) as Hu.
  cbn [forallb] in Hup. apply andb_true_iff in Hup as [Hb HW1].
  cbn [app] in *.
  rewrite tk_start; auto using upper_not_delim.
  - destruct (upper_run n acr tail acc (tail_de_hd_lower _ Ht) W1 b [b] HW1 Hb) as [prev' E];
      [discriminate|].
    exists prev'. rewrite E. reflexivity.
  - rewrite (upper_alpha _ Hb). reflexivity.
Qed.

(* a token [X] that is one of the three renderings of a neutral word [w] *)
Definition good (X w : bytes) : Prop :=
  neutral acr w = true /\ (X = w \/ X = upper w \/ X = capw w).

Lemma good_nonempty X w : good X w -> X <> [].
Proof.
  intros [Hn H]. apply neutral_shape in Hn as (c & c1 & w2 & -> & _).
  destruct H as [->|[->| ->]]; discriminate.
Qed.

Lemma run_good n prev X w tail acc : good X w -> tail_de tail ->
  exists prev', tk n acr prev (X ++ tail) [] acc = tk n acr prev' tail X acc.
Proof.
  intros [Hn H] Ht. destruct H as [->|[->| ->]].
  - destruct (run_low n prev w tail acc Hn (tail_de_ok _ Ht)) as (p & _ & E). eauto.
  - apply run_up; auto.
  - destruct (run_cap n prev w tail acc Hn) as (p & _ & E). eauto.
Qed.

(* ------------------------------------------------------------------ delimiter-joined names *)
Lemma tk_join n d : is_delim d = true -> forall Xs ws prev acc,
  Forall2 good Xs ws -> Xs <> [] ->
  tk n acr prev (join [d] Xs) [] acc = Some (rev acc ++ Xs).
Proof.
  intros Hd. induction Xs as [|X Xs IH]; intros ws prev acc HF Hne; [contradiction|].
  inversion HF as [|X' w Xs' ws' HX HF']; subst.
  destruct Xs as [|Y Xs].
  - cbn [join]. destruct (run_good n prev X w [] acc HX I) as [prev' E].
    rewrite app_nil_r in E. rewrite E, tk_nil.
    pose proof (good_nonempty _ _ HX). destruct X; [contradiction|]. reflexivity.
  - change (join [d] (X :: Y :: Xs)) with (X ++ d :: join [d] (Y :: Xs)).
    destruct (run_good n prev X w (d :: join [d] (Y :: Xs)) acc HX Hd) as [prev' E].
    rewrite E, tk_delim by exact Hd.
    pose proof (good_nonempty _ _ HX). destruct X as [|x X]; [contradiction|]. cbn [push_tok].
    etransitivity; [apply (IH ws' (Some d) ((x :: X) :: acc) HF'); discriminate|].
    cbn [rev]. rewrite <- app_assoc. reflexivity.
Qed.

(* ------------------------------------------------------------------ camelCase tails *)
Lemma tail_ok_caps ws : Forall (fun w => neutral acr w = true) ws -> tail_ok (concat (map capw ws)).
Proof.
  intros H. destruct H as [|w ws Hn _]; [exact I|].
  apply neutral_shape in Hn as (c & c1 & w2 & -> & Hc & _). cbn. right.
  apply to_upper_lower_is_upper, Hc.
Qed.

Lemma tk_camel_tail n : forall ws p cur acc,
  Forall (fun w => neutral acr w = true) ws -> is_lower p = true -> cur <> [] ->
  tk n acr (Some p) (concat (map capw ws)) cur acc = Some (rev acc ++ cur :: map capw ws).
Proof.
  induction ws as [|w ws IH]; intros p cur acc HF Hp Hc.
  - cbn [map concat]. rewrite tk_nil. destruct cur; [contradiction|]. reflexivity.
  - inversion HF as [|w' ws' Hn HF']; subst.
    destruct (neutral_shape _ _ Hn) as (c & c1 & w2 & Hw & Hcl & Hc1 & Hw2 & Hne).
    subst w. cbn [map concat capw app].
    assert (HU := to_upper_lower_is_upper _ Hcl).
    rewrite tk_cont; auto using upper_not_delim.
    2:{ rewrite (upper_alpha _ HU). reflexivity. }
    rewrite should_split_low_up by assumption.
    change (c1 :: w2 ++ concat (map capw ws)) with ((c1 :: w2) ++ concat (map capw ws)).
    assert (Hlow : forallb is_lower (c1 :: w2) = true) by (cbn [forallb]; rewrite Hc1, Hw2; reflexivity).
    rewrite lower_run; auto; [|discriminate].
    destruct (lastp_prop is_lower (c1 :: w2) (Some (to_upper c)) Hlow) as (p' & Hp' & Hpl); [discriminate|].
    rewrite Hp'. rewrite IH; auto; [|discriminate].
    cbn [rev app]. rewrite <- app_assoc. reflexivity.
Qed.

End Words.

(* ------------------------------------------------------------------ rendered names *)
(* normal form of [to_style] on neutral words *)
Definition render (S : style) (ws : list bytes) : bytes :=
  match ws with
  | [] => []
  | w0 :: ws' =>
    match S with
    | Snake => join [95] ws
    | Kebab => join [45] ws
    | Camel => w0 ++ concat (map capw ws')
    | Pascal => concat (map capw ws)
    | ScreamingSnake => join [95] (map upper ws)
    | Title => join [32] (map capw ws)
    | Train => join [45] (map capw ws)
    | ScreamingTrain => join [45] (map upper ws)
    | Dot => join [46] ws
    | LowerFlat => concat ws
    | UpperFlat => concat (map upper ws)
    | Sentence => join [32] (capw w0 :: ws')
    | LowerSentence => join [32] ws
    | UpperSentence => join [32] (map upper ws)
    end
  end.

(* the tokens of a rendered name *)
Definition toks_of (S : style) (ws : list bytes) : list bytes :=
  match S with
  | Snake | Kebab | Dot | LowerSentence | LowerFlat => ws
  | ScreamingSnake | ScreamingTrain | UpperSentence | UpperFlat => map upper ws
  | Title | Train | Pascal => map capw ws
  | Camel => match ws with [] => [] | w0 :: ws' => w0 :: map capw ws' end
  | Sentence => match ws with [] => [] | w0 :: ws' => capw w0 :: ws' end
  end.

Lemma all_neutral_Forall acr ws : all_neutral acr ws = true <-> Forall (fun w => neutral acr w = true) ws.
Proof. unfold all_neutral. rewrite forallb_forall, Forall_forall. reflexivity. Qed.

(* per-word functions of to_style on good tokens *)
Section Good.
Variable acr : acr_tab.

Lemma capw_eq w : (3 <= length w)%nat -> forallb is_lower w = true -> capitalize_first w = capw w.
Proof.
  intros Hl Hw. destruct w as [|c w]; [reflexivity|]. cbn [capitalize_first capw].
  cbn [forallb] in Hw |- *. apply andb_true_iff in Hw as [Hc Hw].
  rewrite (lower_not_upper _ Hc). cbn [andb]. rewrite (lower_of_lower _ Hw). reflexivity.
Qed.

Lemma good_lower X w : good acr X w -> lower X = w.
Proof.
  intros [Hn H]. destruct (neutral_inv _ _ Hn) as (Hl & Hlow & _).
  destruct H as [->|[->| ->]].
  - apply lower_of_lower, Hlow.
  - apply lower_upper, Hlow.
  - destruct w as [|c w]; [reflexivity|]. cbn [capw lower map].
    cbn [forallb] in Hlow. apply andb_true_iff in Hlow as [Hc Hw].
    rewrite (to_lower_to_upper _ Hc). f_equal. apply lower_of_lower, Hw.
Qed.

Lemma upper_capw w : upper (capw w) = upper w.
Proof. destruct w as [|c w]; [reflexivity|]. cbn [capw upper map]. rewrite to_upper_idem. reflexivity. Qed.

Lemma good_upper X w : good acr X w -> upper X = upper w.
Proof.
  intros [Hn H]. destruct H as [->|[->| ->]]; auto using upper_idem, upper_capw.
Qed.

Lemma good_cap X w : good acr X w -> capitalize_first X = capw w.
Proof.
  intros [Hn H]. destruct (neutral_inv _ _ Hn) as (Hl & Hlow & _).
  destruct (neutral_shape _ _ Hn) as (c & c1 & w2 & Hw & Hc & Hc1 & Hw2 & Hne).
  destruct H as [->|[->| ->]].
  - apply capw_eq; auto.
  - subst w. cbn [upper map capitalize_first capw length].
    replace (Nat.leb (S (S (length (map to_upper w2)))) 2) with false.
    2:{ symmetry. apply Nat.leb_gt. destruct w2; [contradiction|]. cbn [map length]. lia. }
    rewrite andb_false_r. rewrite to_upper_idem. f_equal.
    change (lower (upper (c1 :: w2)) = c1 :: w2). apply lower_upper.
    cbn [forallb]. rewrite Hc1, Hw2. reflexivity.
  - subst w. cbn [capw capitalize_first forallb].
    rewrite (lower_not_upper _ Hc1). rewrite andb_false_r. cbn [andb].
    rewrite to_upper_idem. f_equal. apply lower_of_lower. cbn [forallb]. rewrite Hc1, Hw2. reflexivity.
Qed.

Lemma good_cap_or_acr X w : good acr X w -> cap_or_acr acr X = capw w.
Proof.
  intros HG. unfold cap_or_acr.
  replace (keep_acr acr X) with false; [apply good_cap, HG|].
  destruct HG as [Hn H]. destruct (neutral_inv _ _ Hn) as (Hl & Hlow & Hna & _).
  destruct (neutral_shape _ _ Hn) as (c & c1 & w2 & Hw & Hc & Hc1 & Hw2 & Hne).
  unfold keep_acr. destruct H as [->|[->| ->]].
  - subst w. cbn [forallb]. rewrite (lower_not_upper _ Hc). reflexivity.
  - rewrite Hna. rewrite andb_false_r. reflexivity.
  - subst w. cbn [capw forallb]. rewrite (lower_not_upper _ Hc1). rewrite andb_false_r. reflexivity.
Qed.

Lemma good_map (f g : bytes -> bytes) Xs ws :
  (forall X w, good acr X w -> f X = g w) -> Forall2 (good acr) Xs ws -> map f Xs = map g ws.
Proof.
  intros H HF. induction HF as [|X w Xs ws HX HF IH]; [reflexivity|].
  cbn [map]. rewrite (H _ _ HX), IH. reflexivity.
Qed.

Lemma to_style_good Xs ws S : Forall2 (good acr) Xs ws -> to_style acr Xs S = render S ws.
Proof.
  intro HF.
  pose proof (good_map lower (fun w => w) Xs ws good_lower HF) as Hlo. rewrite map_id in Hlo.
  pose proof (good_map upper upper Xs ws good_upper HF) as Hup.
  pose proof (good_map capitalize_first capw Xs ws good_cap HF) as Hcap.
  pose proof (good_map (cap_or_acr acr) capw Xs ws good_cap_or_acr HF) as Hca.
  destruct HF as [|X0 w0 Xs ws HX HF]; [reflexivity|].
  unfold to_style, render.
  destruct S; rewrite ?Hlo, ?Hup, ?Hcap, ?Hca; try reflexivity.
  - (* Camel *) cbn [map] in Hca, Hlo. injection Hca as _ Hca. injection Hlo as Hlo _.
    rewrite Hca, Hlo. reflexivity.
  - (* Sentence *) cbn [map] in Hcap, Hlo. injection Hcap as Hcap _. injection Hlo as _ Hlo.
    rewrite Hcap, Hlo. reflexivity.
Qed.

Lemma good_self ws : all_neutral acr ws = true -> Forall2 (good acr) ws ws.
Proof.
  rewrite all_neutral_Forall. induction 1; constructor; auto. split; auto.
Qed.

Lemma to_style_render ws S : all_neutral acr ws = true -> to_style acr ws S = render S ws.
Proof. intro H. apply to_style_good, good_self, H. Qed.

Lemma good_map_r (g : bytes -> bytes) ws :
  (forall w, neutral acr w = true -> good acr (g w) w) ->
  Forall (fun w => neutral acr w = true) ws -> Forall2 (good acr) (map g ws) ws.
Proof. intros H HF. induction HF; cbn [map]; constructor; auto. Qed.

Lemma good_id w : neutral acr w = true -> good acr w w.
Proof. split; auto. Qed.
Lemma good_up w : neutral acr w = true -> good acr (upper w) w.
Proof. split; auto. Qed.
Lemma good_capw w : neutral acr w = true -> good acr (capw w) w.
Proof. split; auto. Qed.

Lemma toks_of_good S ws : all_neutral acr ws = true -> Forall2 (good acr) (toks_of S ws) ws.
Proof.
  intro H. pose proof (good_self ws H) as Hs. rewrite all_neutral_Forall in H.
  pose proof (good_map_r upper ws good_up H) as Hu.
  pose proof (good_map_r capw ws good_capw H) as Hc.
  destruct S; cbn [toks_of]; auto.
  - destruct H as [|w0 ws Hn H]; constructor; [apply good_id, Hn|].
    apply good_map_r; auto using good_capw.
  - destruct ws as [|w0 ws]; [constructor|].
    inversion Hs; subst. inversion H; subst. constructor; auto using good_capw.
Qed.

End Good.

(* ------------------------------------------------------------------ tokens of a rendered name *)
Lemma tokens_tk acr s l : tk 1 acr None s [] [] = Some l -> tokens acr s = l.
Proof. unfold tokens, parse_to_tokens, tk. cbn [Nat.add]. intros ->. reflexivity. Qed.

Theorem tokens_render : forall acr S ws,
  wf_acr acr = true -> visible S = true -> ws <> [] -> all_neutral acr ws = true ->
  tokens acr (to_style acr ws S) = toks_of S ws.
Proof.
  intros acr S ws Hwf Hv Hne Hn.
  rewrite (to_style_render acr ws S Hn). apply tokens_tk.
  pose proof (toks_of_good acr S ws Hn) as HG.
  assert (HJ : forall d, is_delim d = true -> toks_of S ws <> [] ->
               tk 1 acr None (join [d] (toks_of S ws)) [] [] = Some (toks_of S ws)).
  { intros d Hd Hne'. apply (tk_join acr Hwf 1 d Hd _ ws None [] HG Hne'). }
  pose proof (proj1 (all_neutral_Forall acr ws) Hn) as HF.
  destruct ws as [|w0 ws]; [contradiction|].
  inversion HF as [|w0' ws' Hn0 HF']; subst.
  destruct S; try discriminate; cbn [render toks_of] in *;
    try (apply HJ; [reflexivity | discriminate]).
  - (* Camel *)
    destruct (run_low acr Hwf 1 None w0 (concat (map capw ws)) [] Hn0 (tail_ok_caps acr ws HF'))
      as (p & Hp & E).
    rewrite E. rewrite tk_camel_tail; auto.
    apply neutral_shape in Hn0 as (c & c1 & w2 & -> & _). discriminate.
  - (* Pascal *)
    cbn [map concat].
    destruct (run_cap acr Hwf 1 None w0 (concat (map capw ws)) [] Hn0) as (p & Hp & E).
    rewrite E. rewrite tk_camel_tail; auto.
    apply neutral_shape in Hn0 as (c & c1 & w2 & -> & _). discriminate.
Qed.

Lemma map_lower_toks_of acr S ws : all_neutral acr ws = true -> map lower (toks_of S ws) = ws.
Proof.
  intro H. pose proof (toks_of_good acr S ws H) as HG.
  rewrite (good_map acr lower (fun w => w) _ _ (good_lower acr) HG). apply map_id.
Qed.

(* T1 *)
Theorem C18_roundtrip : forall acr S ws,
  wf_acr acr = true -> visible S = true -> ws <> [] -> all_neutral acr ws = true ->
  map lower (tokens acr (to_style acr ws S)) = ws.
Proof.
  intros. rewrite tokens_render by assumption. apply (map_lower_toks_of acr). assumption.
Qed.
